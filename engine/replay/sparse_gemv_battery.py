"""Replay battery for the sparse gemv contract (C16): base.gemv with a sparse
first argument against the same call on the dense copy, for a grid of
transpositions, block sizes, offsets into A, strides and vector offsets, real
and complex.  Prints SPGEMV-JSON {"gemv": [failing case, ...]}."""
import json, itertools, random
from cvxopt import matrix, spmatrix, sparse, base

fails = {}


def fail(k, case):
    fails.setdefault(k, [])
    if len(fails[k]) < 8:
        fails[k].append(case)


def symv_cases(rnd):
    """base.symv with a sparse A against the dense copy (both triangles,
    blocks at an offset, strides of either sign, vector offsets)"""
    for tc in ('d', 'z'):
        def val():
            return rnd.uniform(-2, 2) if tc == 'd' else complex(
                rnd.uniform(-2, 2), rnd.uniform(-2, 2))
        nr, nc = 5, 6
        for dens in (1.0, 0.7):
            ent = {}
            for j in range(nc):
                for i in range(nr):
                    if rnd.random() < dens:
                        ent[(i, j)] = val()
            A = spmatrix([ent[k] for k in ent], [k[0] for k in ent],
                         [k[1] for k in ent], (nr, nc), tc=tc)
            D = matrix(A)
            for uplo in ('L', 'U'):
                for (n, oi, oj) in ((5, 0, 0), (3, 1, 2), (2, 3, 4),
                                    (1, 4, 5), (0, 0, 0)):
                    oA = oi + oj * nr
                    for ix, iy, ox, oy in ((1, 1, 0, 0), (2, -1, 1, 3),
                                           (-1, 2, 4, 0), (-2, -1, 0, 2),
                                           (1, -2, 3, 1)):
                        x0 = matrix([val() for _ in range(
                            ox + 1 + max(n - 1, 0) * abs(ix) + 2)], tc=tc)
                        y0 = matrix([val() for _ in range(
                            oy + 1 + max(n - 1, 0) * abs(iy) + 2)], tc=tc)
                        al, be = val(), val()
                        ys, yd = +y0, +y0
                        kw = dict(uplo=uplo, alpha=al, beta=be, n=n,
                                  incx=ix, incy=iy, offsetA=oA, offsetx=ox,
                                  offsety=oy)
                        try:
                            base.symv(D, x0, yd, **kw)
                        except Exception:
                            refused[0] += 1
                            continue
                        try:
                            base.symv(A, x0, ys, **kw)
                        except Exception as e:
                            fail('gemv', dict(kw, symv=True, tc=tc,
                                              alpha=str(al), beta=str(be),
                                              sparse_raised=repr(e)))
                            continue
                        compared_symv[0] += 1
                        if any(abs(u - v) > 1e-9 * max(1, abs(u), abs(v))
                               for u, v in zip(list(ys), list(yd))):
                            fail('gemv', dict(kw, symv=True, tc=tc,
                                              alpha=str(al), beta=str(be)))


refused = [0]
compared = [0]
compared_symv = [0]


def main():
    rnd = random.Random(2)
    for tc in ('d', 'z'):
        def val():
            return rnd.uniform(-2, 2) if tc == 'd' else complex(
                rnd.uniform(-2, 2), rnd.uniform(-2, 2))
        nr, nc = 5, 4
        for dens in (1.0, 0.6):
          ent = {}
          for j in range(nc):
            for i in range(nr):
                if rnd.random() < dens:
                    ent[(i, j)] = val()
          ent[(4, 3)] = val()
          I = [k[0] for k in ent]
          J = [k[1] for k in ent]
          A = spmatrix([ent[k] for k in ent], I, J, (nr, nc), tc=tc)
          D = matrix(A)
          for trans in ('N', 'T', 'C'):
              for (m, n, oi, oj) in ((5, 4, 0, 0), (3, 2, 1, 1), (2, 3, 3, 0),
                                     (1, 1, 4, 3), (4, 1, 0, 2), (0, 2, 0, 0),
                                     (2, 0, 1, 1)):
                  oA = oi + oj * nr
                  lx, ly = (n, m) if trans == 'N' else (m, n)
                  for ix, iy, ox, oy in ((1, 1, 0, 0), (2, 1, 1, 0),
                                         (-1, 2, 0, 3), (1, -2, 2, 1)):
                      x0 = matrix([val() for _ in range(
                          ox + 1 + max(lx - 1, 0) * abs(ix) + 2)], tc=tc)
                      y0 = matrix([val() for _ in range(
                          oy + 1 + max(ly - 1, 0) * abs(iy) + 2)], tc=tc)
                      al, be = val(), val()
                      ys, yd = +y0, +y0
                      kw = dict(trans=trans, alpha=al, beta=be, m=m, n=n,
                                incx=ix, incy=iy, offsetA=oA, offsetx=ox,
                                offsety=oy)
                      try:
                          base.gemv(D, x0, yd, **kw)
                      except Exception as e:
                          refused[0] += 1
                          continue       # the dense call itself is refused
                      try:
                          base.gemv(A, x0, ys, **kw)
                      except Exception as e:
                          fail('gemv', dict(kw, tc=tc, alpha=str(al),
                                            beta=str(be), sparse_raised=repr(e)))
                          continue
                      compared[0] += 1
                      if any(abs(u - v) > 1e-9 * max(1, abs(u), abs(v))
                             for u, v in zip(list(ys), list(yd))):
                          fail('gemv', dict(kw, tc=tc, alpha=str(al),
                                            beta=str(be)))
    symv_cases(rnd)
    if compared_symv[0] < 100:
        fail('gemv', {'battery vacuous': 'only %d symv comparisons, %d '
                      'dense calls refused' % (compared_symv[0],
                                               refused[0])})
    if compared[0] < 100:
        fail('gemv', {'battery vacuous': 'only %d comparisons, %d dense '
                      'calls refused' % (compared[0], refused[0])})
    print('SPGEMV-JSON ' + json.dumps(fails))


main()
