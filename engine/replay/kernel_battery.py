"""Replay battery for C08 (run under /venv/bin/python with an overlay build of
the current tree first on sys.path): the compiled cone kernels symm, trisc,
triusc, pack, unpack, sdot are run on a grid of dims / offsets with sentinel
padding and compared, over the WHOLE argument buffers, with references written
directly from their documented definitions (element by element, no BLAS).
Prints one line  KERNEL-JSON {kernel: [failing case, ...]}."""
import json, math, sys, itertools, random
from cvxopt import matrix, misc_solvers

SQ2 = math.sqrt(2.0)


def blocks(dims, base):
    out = []
    o = base + dims['l'] + sum(dims['q'])
    for n in dims['s']:
        out.append((o, n))
        o += n * n
    return out, o


def ref_symm(x, n, off):
    for c in range(n):
        for r in range(c + 1, n):
            x[off + c + r * n] = x[off + r + c * n]


def ref_trisc(x, dims, off, lower, upper):
    bl, _ = blocks(dims, off)
    for o, n in bl:
        for c in range(n):
            for r in range(n):
                if r > c:
                    x[o + r + c * n] *= lower
                elif r < c and upper is not None:
                    x[o + r + c * n] = upper


def ref_pack(x, y, dims, mnl, ox, oy):
    nlq = mnl + dims['l'] + sum(dims['q'])
    for t in range(nlq):
        y[oy + t] = x[ox + t]
    iu, ip = ox + nlq, oy + nlq
    for n in dims['s']:
        for c in range(n):
            for r in range(c, n):
                v = x[iu + r + c * n]
                y[ip] = v if r == c else v * SQ2
                ip += 1
        iu += n * n


def ref_unpack(x, y, dims, mnl, ox, oy):
    nlq = mnl + dims['l'] + sum(dims['q'])
    for t in range(nlq):
        y[oy + t] = x[ox + t]
    ip, iu = ox + nlq, oy + nlq
    for n in dims['s']:
        for c in range(n):
            for r in range(c, n):
                v = x[ip]
                y[iu + r + c * n] = v if r == c else v / SQ2
                ip += 1
        iu += n * n


def ref_sdot(x, y, dims, mnl):
    m = mnl + dims['l'] + sum(dims['q'])
    a = sum(x[t] * y[t] for t in range(m))
    for n in dims['s']:
        for c in range(n):
            for r in range(c, n):
                p = x[m + r + c * n] * y[m + r + c * n]
                a += p if r == c else 2.0 * p
        m += n * n
    return a


def close(a, b):
    return all(abs(u - v) <= 1e-12 * max(1.0, abs(u), abs(v))
               for u, v in zip(a, b))


def main():
    rnd = random.Random(7)
    fails = {}

    def fail(k, case):
        fails.setdefault(k, [])
        if len(fails[k]) < 5:
            fails[k].append(case)
    DIMS = []
    for l in (0, 2):
        for q in ([], [3], [1, 2]):
            for s in ([], [0], [1], [2], [3], [3, 2], [1, 3, 0, 2], [4, 1]):
                DIMS.append({'l': l, 'q': q, 's': s})

    def vec(n):
        return [rnd.uniform(-3, 3) for _ in range(n)]
    for n in (0, 1, 2, 3, 5):
        for off in (0, 4):
            N = off + n * n + 3
            x0 = vec(N)
            x = matrix(x0)
            misc_solvers.symm(x, n, off)
            r = list(x0)
            ref_symm(r, n, off)
            if not close(list(x), r):
                fail('symm', {'n': n, 'offset': off})
    for d in DIMS:
        tot = d['l'] + sum(d['q']) + sum(k * k for k in d['s'])
        totp = d['l'] + sum(d['q']) + sum(k * (k + 1) // 2 for k in d['s'])
        for off in (0, 3):
            x0 = vec(off + tot + 4)
            for name, lo, up in (('trisc', 2.0, 0.0), ('triusc', 0.5, None)):
                x = matrix(x0)
                getattr(misc_solvers, name)(x, d, off)
                r = list(x0)
                ref_trisc(r, d, off, lo, up)
                if not close(list(x), r):
                    fail(name, {'dims': d, 'offset': off})
        for mnl, ox, oy in ((0, 0, 0), (2, 0, 0), (0, 3, 1), (1, 2, 5),
                            (0, 0, 4)):
            x0 = vec(ox + mnl + tot + 4)
            y0 = vec(oy + mnl + tot + 4)
            x, y = matrix(x0), matrix(y0)
            misc_solvers.pack(x, y, d, mnl, ox, oy)
            ry = list(y0)
            ref_pack(x0, ry, d, mnl, ox, oy)
            if not close(list(y), ry) or not close(list(x), x0):
                fail('pack', {'dims': d, 'mnl': mnl, 'offsetx': ox,
                              'offsety': oy})
            x1 = vec(ox + mnl + totp + 4)
            y1 = vec(oy + mnl + tot + 4)
            x, y = matrix(x1), matrix(y1)
            misc_solvers.unpack(x, y, d, mnl, ox, oy)
            ry = list(y1)
            ref_unpack(x1, ry, d, mnl, ox, oy)
            if not close(list(y), ry) or not close(list(x), x1):
                fail('unpack', {'dims': d, 'mnl': mnl, 'offsetx': ox,
                                'offsety': oy})
            # unpack undoes pack on the lower triangles
            xs = matrix(x0)
            yp = matrix(0.0, (oy + mnl + tot + 4, 1))
            misc_solvers.pack(xs, yp, d, mnl, ox, oy)
            z = matrix(0.0, (ox + mnl + tot + 4, 1))
            misc_solvers.unpack(yp, z, d, mnl, oy, ox)
            nlq = mnl + d['l'] + sum(d['q'])
            okr = close(list(z)[ox:ox + nlq], x0[ox:ox + nlq])
            o = ox + nlq
            for n in d['s']:
                for c in range(n):
                    for r_ in range(c, n):
                        okr = okr and abs(z[o + r_ + c * n] -
                                          x0[o + r_ + c * n]) < 1e-12
                o += n * n
            if not okr:
                fail('pack', {'roundtrip': True, 'dims': d, 'mnl': mnl,
                              'offsetx': ox, 'offsety': oy})
        # pack2: in place, on every column of a matrix with extra rows
        for mnl in (0, 2):
            for ncols, extra in ((1, 0), (3, 2), (2, 5)):
                if not d['s'] or max(d['s']) == 0:
                    continue
                rows = mnl + tot + extra
                x0 = vec(rows * ncols)
                x = matrix(x0, (rows, ncols))
                misc_solvers.pack2(x, d, mnl)
                want = list(x0)
                for c_ in range(ncols):
                    col = x0[c_ * rows:(c_ + 1) * rows]
                    out = list(col)
                    ref_pack(col, out, d, mnl, 0, 0)
                    want[c_ * rows:(c_ + 1) * rows] = out
                # in place: nothing but the packed positions is written, so
                # whole columns are compared
                okp = close(list(x), want)
                if not okp:
                    fail('pack2', {'dims': d, 'mnl': mnl, 'columns': ncols,
                                   'rows': rows})
        for mnl in (0, 2):
            x0, y0 = vec(mnl + tot), vec(mnl + tot)
            if mnl + tot == 0:
                continue
            a = misc_solvers.sdot(matrix(x0), matrix(y0), d, mnl)
            r = ref_sdot(x0, y0, d, mnl)
            if abs(a - r) > 1e-10 * max(1.0, abs(r)):
                fail('sdot', {'dims': d, 'mnl': mnl, 'got': a, 'want': r})
    python_kernels(fail, vec)
    print('KERNEL-JSON ' + json.dumps(fails))


def python_kernels(fail, vec):
    """sgemv, snrm2, jdot, jnrm2 of cvxopt.misc against their definitions"""
    from cvxopt import misc
    d = {'l': 1, 'q': [2], 's': [3, 2]}
    N = 1 + 2 + 9 + 4
    n = 3

    def symvec(off, tot):
        v = vec(tot)
        o = off + 3
        for k in d['s']:
            for c in range(k):
                for r in range(c + 1, k):
                    v[o + c + r * k] = v[o + r + c * k]
            o += k * k
        return v
    for trans in ('N', 'T'):
        for ox, oy in ((0, 0), (2, 5), (5, 2)):
            for alpha, beta in ((1.0, 0.0), (-2.0, 0.5), (0.0, 1.5)):
                A0 = vec(N * n)
                A = matrix(A0, (N, n))
                if trans == 'N':
                    x0, y0 = vec(ox + n + 2), vec(oy + N + 20)
                else:
                    x0, y0 = symvec(ox, ox + N + 20), vec(oy + n + 2)
                x, y = matrix(x0), matrix(y0)
                misc.sgemv(A, x, y, d, trans=trans, alpha=alpha, beta=beta,
                           offsetx=ox, offsety=oy)
                ry = list(y0)
                if trans == 'N':
                    for i in range(N):
                        ry[oy + i] = beta * y0[oy + i] + alpha * sum(
                            A0[i + N * j] * x0[ox + j] for j in range(n))
                else:
                    # columns of A and x are in S with 'L' storage: only the
                    # lower triangles of the 's' blocks are referenced, the
                    # off-diagonal entries count twice
                    wgt = [1.0] * N
                    o = 3
                    for k in d['s']:
                        for c in range(k):
                            for r in range(k):
                                wgt[o + r + c * k] = 0.0 if r < c else (
                                    1.0 if r == c else 2.0)
                        o += k * k
                    for j in range(n):
                        ry[oy + j] = beta * y0[oy + j] + alpha * sum(
                            wgt[i] * A0[i + N * j] * x0[ox + i]
                            for i in range(N))
                if trans == 'T':
                    # x is restored on the stored (lower) triangles; its
                    # strict upper triangles are not part of the 'L' storage
                    cmpi = [i for i in range(len(x0)) if not (
                        ox <= i < ox + N and wgt[i - ox] == 0.0)]
                else:
                    cmpi = range(len(x0))
                okx = all(abs(x[i] - x0[i]) <= 1e-12 * max(1, abs(x0[i]))
                          for i in cmpi)
                oky = all(abs(a - b) <= 1e-9 * max(1, abs(b))
                          for a, b in zip(list(y), ry))
                if not (okx and oky):
                    fail('sgemv', {'trans': trans, 'offsetx': ox,
                                   'offsety': oy, 'alpha': alpha,
                                   'beta': beta, 'x restored': okx,
                                   'y as defined': oky})
    for ox, oy, nn in ((0, 0, None), (1, 2, 4), (3, 0, 1)):
        x0, y0 = vec(8), vec(8)
        x, y = matrix(x0), matrix(y0)
        m = nn if nn is not None else 8
        want = x0[ox] * y0[oy] - sum(x0[ox + 1 + t] * y0[oy + 1 + t]
                                     for t in range(m - 1))
        got = misc.jdot(x, y, n=nn, offsetx=ox, offsety=oy)
        if abs(got - want) > 1e-10 * max(1, abs(want)):
            fail('jdot', {'offsetx': ox, 'offsety': oy, 'n': nn,
                          'got': got, 'want': want})
        xs = list(x0)
        xs[ox] = 50.0
        m = nn if nn is not None else 8 - 0
        if nn is None and ox:
            continue
        nr = math.sqrt(sum(xs[ox + 1 + t] ** 2 for t in range(m - 1)))
        want = math.sqrt(xs[ox] - nr) * math.sqrt(xs[ox] + nr)
        got = misc.jnrm2(matrix(xs), n=nn, offset=ox)
        if abs(got - want) > 1e-10 * max(1, abs(want)):
            fail('jnrm2', {'offset': ox, 'n': nn, 'got': got,
                           'want': want})
    # ssqr: x := y o y with the 's' parts stored as diagonals
    for mnl in (0, 2):
        for dd in ({'l': 1, 'q': [3, 2], 's': [2, 1]},
                   {'l': 0, 'q': [2], 's': []}, {'l': 2, 'q': [], 's': [3]}):
            tot = mnl + dd['l'] + sum(dd['q']) + sum(dd['s'])
            y0 = vec(tot)
            x = matrix(vec(tot))
            misc.ssqr(x, matrix(y0), dd, mnl)
            want = [t * t for t in y0]
            o = mnl + dd['l']
            for q_ in dd['q']:
                want[o] = sum(t * t for t in y0[o:o + q_])
                for i in range(1, q_):
                    want[o + i] = 2.0 * y0[o] * y0[o + i]
                o += q_
            if any(abs(a - b) > 1e-10 * max(1, abs(b))
                   for a, b in zip(list(x), want)):
                fail('ssqr', {'dims': dd, 'mnl': mnl})
    for mnl in (0, 2):
        x0 = vec(mnl + N)
        got = misc.snrm2(matrix(x0), d, mnl)
        want = math.sqrt(ref_sdot(x0, x0, d, mnl))
        if abs(got - want) > 1e-10 * max(1, abs(want)):
            fail('snrm2', {'mnl': mnl, 'got': got, 'want': want})


main()
