"""Replay battery for C14 (run under /venv/bin/python with an overlay build of
the current tree first on sys.path).  Oracles come from the property
statement and from the definition of the fixed MPS format:

  roundtrip        tofile -> fromfile on a fresh op: same numbers of scalar
                   variables, inequality rows, equality rows; same
                   coefficients, right-hand sides and objective coefficients
                   to six significant digits (variables are matched by their
                   distinct objective coefficients, rows by order and type --
                   no assumption on how labels are formed)
  number-width     the same with a coefficient of magnitude 1e100
  label-injective  the same with distinct names that share a long prefix
  refuses-non-lp   tofile raises TypeError for a problem with a max() term
  ranges, bounds   hand-written files: the feasible set of each row / column
                   after fromfile equals the one the format defines
Prints  MPS-JSON {oracle: [failing case, ...]}."""
import json, os, sys, tempfile, itertools
from cvxopt import matrix, spmatrix
from cvxopt.modeling import variable, op, dot, sum as msum, max as mmax

fails = {}


def fail(k, case):
    fails.setdefault(k, [])
    if len(fails[k]) < 6:
        fails[k].append(case)


def close(a, b):
    return abs(a - b) <= 2e-5 * max(abs(a), abs(b)) + 1e-300


def setall(p, val):
    for v in p.variables():
        v.value = matrix(val, (len(v), 1))


def rows_of(p):
    """[(type, constant, {(var id, comp): coefficient})] per scalar row,
    inequalities first, in list order; by evaluation, not by inspection"""
    out = []
    vs = p.variables()
    for kind, cs in (('<', p.inequalities()), ('=', p.equalities())):
        for c in cs:
            setall(p, 0.0)
            base = list(c.value())
            cols = {}
            for v in vs:
                for i in range(len(v)):
                    setall(p, 0.0)
                    e = matrix(0.0, (len(v), 1))
                    e[i] = 1.0
                    v.value = e
                    val = list(c.value())
                    for r in range(len(base)):
                        d = val[r] - base[r]
                        if d != 0.0:
                            cols.setdefault(r, {})[(id(v), i)] = d
            for r in range(len(base)):
                out.append((kind, base[r], cols.get(r, {})))
    return out


def objective_of(p):
    setall(p, 0.0)
    f0 = p.objective.value()[0]
    co = {}
    for v in p.variables():
        for i in range(len(v)):
            setall(p, 0.0)
            e = matrix(0.0, (len(v), 1))
            e[i] = 1.0
            v.value = e
            co[(id(v), i)] = p.objective.value()[0] - f0
    return f0, co


def roundtrip(p, tag, oracle='roundtrip'):
    d = tempfile.mkdtemp(prefix='mpsbat-')
    fn = os.path.join(d, 'p.mps')
    try:
        p.tofile(fn)
        q = op()
        q.fromfile(fn)
    except Exception as e:
        fail(oracle, {'case': tag, 'exception': repr(e)})
        return
    finally:
        try:
            text = open(fn).read()
        except Exception:
            text = ''
        for f in os.listdir(d):
            os.remove(os.path.join(d, f))
        os.rmdir(d)
    f0, co = objective_of(p)
    g0, cq = objective_of(q)
    nv = sum(len(v) for v in p.variables())
    nq = sum(len(v) for v in q.variables())
    if nv != nq:
        fail(oracle, {'case': tag, 'variables': [nv, nq]})
        return
    # match variables by objective coefficient (distinct by construction)
    m = {}
    for k, a in co.items():
        hit = [k2 for k2, b in cq.items() if close(a, b)]
        if len(hit) != 1:
            fail(oracle, {'case': tag, 'objective coefficient': a,
                          'matches': len(hit)})
            return
        m[k] = hit[0]
    rp, rq = rows_of(p), rows_of(q)
    if [r[0] for r in rp] != [r[0] for r in rq]:
        fail(oracle, {'case': tag, 'rows': [
            [sum(1 for r in rp if r[0] == '<'), sum(
                1 for r in rp if r[0] == '=')],
            [sum(1 for r in rq if r[0] == '<'), sum(
                1 for r in rq if r[0] == '=')]]})
        return
    for n, (a, b) in enumerate(zip(rp, rq)):
        if not close(a[1], b[1]):
            fail(oracle, {'case': tag, 'row': n, 'rhs': [a[1], b[1]]})
            return
        want = {m[k]: v for k, v in a[2].items()}
        if set(want) != set(b[2]) or any(
                not close(want[k], b[2][k]) for k in want):
            fail(oracle, {'case': tag, 'row': n, 'coefficients differ':
                          [sorted(want.values()), sorted(b[2].values())]})
            return


def lp_cases():
    out = []
    for named in (True, False):
        x = variable(3, 'x' if named else '')
        y = variable(1, 'y' if named else '')
        z = variable(12, 'zvector' if named else '')
        A = matrix([[1., 2., 0., 1.], [0., 1., 3., 1.], [2., 0., 1., 1.]])
        c1 = (A * x + y <= matrix([1., 2., 3., 4.]))
        c2 = (dot(matrix([1., 2., 3.]), x) == 5.0)
        c3 = (x >= -1.0)
        B = matrix(0.0, (12, 12))
        for i in range(12):
            B[i, i] = 1.0 + i
            B[i, (i + 5) % 12] = -0.5
        c4 = (B * z + 2.0 * y <= matrix([float(i) for i in range(12)]))
        c5 = (z[:3] + 2.0 * x == matrix([7., 8., 9.]))
        S = spmatrix([1., -2., 3., 1.], [0, 1, 3, 2], [0, 2, 1, 0], (4, 3))
        c6 = (S * x <= 1.5)
        if named:
            c1.name, c2.name, c3.name = 'first', 'second', 'lowerbound'
            c4.name, c5.name, c6.name = 'twelverows', 'eq', 'sp'
        obj = (dot(matrix([1.5, 2.5, 3.5]), x) + 4.5 * y +
               dot(matrix([10.0 + i for i in range(12)]), z))
        out.append(('full-%s' % ('named' if named else 'unnamed'),
                    op(obj, [c1, c2, c3, c4, c5, c6])))
        out.append(('small-%s' % ('named' if named else 'unnamed'),
                    op(dot(matrix([1.5, 2.5, 3.5]), x) + 4.5 * y,
                       [c1, c2])))
        w = variable(1, 'w' if named else '')
        c7 = (A * x + w <= matrix([1., 2., 3., 4.]))
        c8 = (dot(matrix([1., 1., 2.]), x) + w + y <= 3.0)
        out.append(('broadcast-%s' % ('named' if named else 'unnamed'),
                    op(dot(matrix([1.5, 2.5, 3.5]), x) + 4.5 * y + 6.5 * w,
                       [c7, c8])))
    return out


def main():
    for tag, p in lp_cases():
        roundtrip(p, tag)
    # number-width
    x = variable(2, 'x')
    c = (matrix([[1e100, 1.0], [2.0, 3.0]]) * x <= matrix([1.0, 2.0]))
    roundtrip(op(dot(matrix([1.5, 2.5]), x), [c]), 'coefficient 1e100',
              'number-width')
    # label-injective
    x = variable(2, 'x')
    ca = (dot(matrix([1., 2.]), x) <= 1.0)
    cb = (dot(matrix([3., 4.]), x) <= 2.0)
    ca.name, cb.name = 'constraintA', 'constraintB'
    roundtrip(op(dot(matrix([1.5, 2.5]), x), [ca, cb]),
              "constraints named 'constraintA', 'constraintB'",
              'label-injective')
    u = variable(1, 'variable_one')
    v = variable(1, 'variable_two')
    roundtrip(op(1.5 * u + 2.5 * v, [u + v <= 1.0, u - v <= 2.0]),
              "variables named 'variable_one', 'variable_two'",
              'label-injective')
    # refuses-non-lp
    x = variable(2, 'x')
    d = tempfile.mkdtemp(prefix='mpsbat-')
    try:
        try:
            op(mmax(x), [x <= 1.0]).tofile(os.path.join(d, 'n.mps'))
            fail('refuses-non-lp', {'case': 'min max(x)', 'raised': None})
        except TypeError:
            pass
        except Exception as e:
            fail('refuses-non-lp', {'case': 'min max(x)', 'raised': repr(e)})
        # a piecewise-linear inequality (in first and in last place)
        one = matrix(1.0, (1, 2))
        for nm, cons in (('max(x) <= 1 first', [mmax(x) <= 1.0, x >= 0.0]),
                         ('max(x) <= 1 last', [x >= 0.0, one * x == 1.0,
                                               mmax(x) <= 1.0])):
            try:
                op(one * x, cons).tofile(os.path.join(d, 'n2.mps'))
                fail('refuses-non-lp', {'case': nm, 'raised': None})
            except TypeError:
                pass
            except Exception as e:
                fail('refuses-non-lp', {'case': nm, 'raised': repr(e)})
    finally:
        for f in os.listdir(d):
            os.remove(os.path.join(d, f))
        os.rmdir(d)
    reader_semantics()
    print('MPS-JSON ' + json.dumps(fails))


def mpsfile(rows, cols, rhs, ranges, bounds):
    def num(v):
        return '% 7.5E' % v
    t = ['NAME          TEST', 'ROWS', ' N  COST']
    for ty, nm in rows:
        t.append(' %s  %s' % (ty, nm))
    t.append('COLUMNS')
    for cn, rn, v in cols:
        t.append('    %-8s  %-8s  %s' % (cn, rn, num(v)))
    t.append('RHS')
    for rn, v in rhs:
        t.append('    %-8s  %-8s  %s' % ('RHS', rn, num(v)))
    if ranges:
        t.append('RANGES')
        for rn, v in ranges:
            t.append('    %-8s  %-8s  %s' % ('RNG', rn, num(v)))
    if bounds:
        t.append('BOUNDS')
        for ty, cn, v in bounds:
            t.append(' %s %-8s  %-8s  %s' % (ty, 'BND', cn, num(v) if v
                                              is not None else ''))
    t.append('ENDATA')
    return '\n'.join(t) + '\n'


def feasible(q, vals):
    for v in q.variables():
        v.value = matrix(vals[v.name])
    for c in q.inequalities():
        if max(c.value()) > 1e-9:
            return False
    for c in q.equalities():
        if abs(c.value()[0]) > 1e-9:
            return False
    return True


def reader_semantics():
    d = tempfile.mkdtemp(prefix='mpsbat-')
    fn = os.path.join(d, 'r.mps')
    try:
        # ---- RANGES: one row, one variable X with coefficient 1, rhs b
        b = 2.0
        for ty in 'LGE':
            for R in (None, 3.0, -3.0, 0.0):
                if R is None:
                    lo, hi = {'L': (None, b), 'G': (b, None),
                              'E': (b, b)}[ty]
                elif ty == 'L':
                    lo, hi = b - abs(R), b
                elif ty == 'G':
                    lo, hi = b, b + abs(R)
                elif R >= 0:
                    lo, hi = b, b + abs(R)
                else:
                    lo, hi = b - abs(R), b
                open(fn, 'w').write(mpsfile(
                    [(ty, 'R1')], [('X', 'COST', 1.0), ('X', 'R1', 1.0)],
                    [('R1', b)], [('R1', R)] if R is not None else [],
                    [('FR', 'X', None)]))
                try:
                    q = op()
                    q.fromfile(fn)
                    for xv in (-3.0, -1.0, -0.999, 0.0, 1.999, 2.0, 2.001,
                               3.5, 5.0, 5.001, 8.0):
                        want = (lo is None or xv >= lo - 1e-12) and (
                            hi is None or xv <= hi + 1e-12)
                        got = feasible(q, {'X': xv})
                        if want != got:
                            fail('ranges', {'row type': ty, 'range': R,
                                            'rhs': b, 'a.x': xv,
                                            'feasible per format': want,
                                            'feasible after fromfile': got})
                            break
                except Exception as e:
                    fail('ranges', {'row type': ty, 'range': R,
                                    'exception': repr(e)})
        # ---- BOUNDS on X (a free row keeps X in the problem)
        cases = [([], (0.0, None)),
                 ([('LO', -5.0)], (-5.0, None)),
                 ([('UP', 4.0)], (0.0, 4.0)),
                 ([('LO', -5.0), ('UP', 0.0)], (-5.0, 0.0)),
                 ([('MI', None), ('UP', 0.0)], (None, 0.0)),
                 ([('MI', None)], (None, None)),
                 ([('MI', None), ('UP', 3.0)], (None, 3.0)),
                 ([('LO', 1.0), ('UP', 3.0)], (1.0, 3.0)),
                 ([('FX', 2.5)], (2.5, 2.5)),
                 ([('FR', None)], (None, None)),
                 ([('PL', None)], (0.0, None)),
                 ([('LO', 2.0), ('PL', None)], (2.0, None))]
        for bl, (lo, hi) in cases:
            open(fn, 'w').write(mpsfile(
                [('L', 'R1')], [('X', 'COST', 1.0), ('X', 'R1', 1.0)],
                [('R1', 100.0)], [], [(t, 'X', v) for t, v in bl]))
            try:
                q = op()
                q.fromfile(fn)
                for xv in (-7.0, -5.0, -1.0, 0.0, 0.5, 1.0, 2.5, 3.0, 3.5,
                           4.0, 4.5, 50.0):
                    want = (lo is None or xv >= lo) and (hi is None or
                                                         xv <= hi)
                    got = feasible(q, {'X': xv})
                    if want != got:
                        fail('bounds', {'bounds': bl, 'x': xv,
                                        'feasible per format': want,
                                        'feasible after fromfile': got})
                        break
            except Exception as e:
                fail('bounds', {'bounds': bl, 'exception': repr(e)})
        # ---- rows without variables: consistent ones are removed (also two
        # in a row), inconsistent ones are refused
        for tys, rhs, expect in (
                (['L', 'L', 'L', 'E'], [1.0, 2.0, 3.0, 0.0], (1, 0)),
                (['L', 'E', 'E', 'L'], [1.0, 0.0, 0.0, 5.0], (1, 0)),
                (['L', 'L'], [1.0, -2.0], 'ValueError'),
                (['L', 'E'], [1.0, 3.0], 'ValueError')):
            rows = [(tys[0], 'R0')] + [(t, 'Z%d' % i) for i, t in
                                       enumerate(tys[1:])]
            open(fn, 'w').write(mpsfile(
                rows, [('X', 'COST', 1.0), ('X', 'R0', 1.0)],
                [('R0', rhs[0])] + [('Z%d' % i, v) for i, v in
                                    enumerate(rhs[1:])], [],
                [('FR', 'X', None)]))
            try:
                q = op()
                q.fromfile(fn)
                got = (len(q.inequalities()), len(q.equalities()))
                if expect == 'ValueError' or got != expect:
                    fail('empty-rows', {'row types': tys, 'rhs': rhs,
                                        'expected': expect,
                                        'rows after fromfile': got})
            except ValueError as e:
                if expect != 'ValueError':
                    fail('empty-rows', {'row types': tys, 'rhs': rhs,
                                        'exception': repr(e)})
            except Exception as e:
                fail('empty-rows', {'row types': tys, 'rhs': rhs,
                                    'exception': repr(e)})
    finally:
        for f in os.listdir(d):
            os.remove(os.path.join(d, f))
        os.rmdir(d)


main()
