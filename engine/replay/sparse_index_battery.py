"""Replay battery for the sparse indexing obligations of C19 (run under
/venv/bin/python with an overlay build of the current tree first on
sys.path): A[I, J] for every pair of index kinds (integer, slice with
positive / negative step, list and integer matrix with negative entries) on
sparse matrices with empty rows / columns and explicit zeros is compared with
the same indexing of the dense copy.  A read outside colptr / rowind shows as
a wrong entry (or a crash, which the caller sees as a missing result).
Prints SPIDX-JSON {"index": [failing case, ...]}."""
import json, itertools
from cvxopt import matrix, spmatrix, sparse

fails = {}


def fail(k, case):
    fails.setdefault(k, [])
    if len(fails[k]) < 8:
        fails[k].append(case)


def mats():
    A = sparse(matrix([float(i) for i in range(1, 13)], (3, 4)))
    B = spmatrix([1., 2., 0., 4.], [0, 2, 1, 4], [0, 0, 3, 5], (5, 6))
    C = spmatrix([], [], [], (3, 3))
    return [('full3x4', A), ('holes5x6', B), ('empty3x3', C)]


def kinds(n):
    out = [0, n - 1, -1, -n, slice(None), slice(0, n, 2), slice(n - 1, None, -1),
           slice(1, 1), [0], [n - 1, 0], [-1, 0], [-n], [-1, -1, 0],
           matrix([n - 1, -n, 0]), []]
    return out


def show(ix):
    return repr(list(ix)) if isinstance(ix, matrix) else repr(ix)


def main():
    for name, A in mats():
        D = matrix(A)
        m, n = A.size
        for I, J in itertools.product(kinds(m), kinds(n)):
            try:
                want = D[I, J]
                werr = None
            except Exception as e:
                want, werr = None, type(e).__name__
            try:
                got = A[I, J]
                gerr = None
            except Exception as e:
                got, gerr = None, type(e).__name__
            if werr or gerr:
                if bool(werr) != bool(gerr):
                    fail('index', {'matrix': name, 'I': show(I),
                                   'J': show(J), 'dense': werr or 'value',
                                   'sparse': gerr or 'value'})
                continue
            gd = matrix(got) if not isinstance(got, (int, float, complex)) \
                else got
            same = (list(gd) == list(want) and gd.size == want.size) \
                if isinstance(want, matrix) else gd == want
            if not same:
                fail('index', {'matrix': name, 'I': show(I), 'J': show(J),
                               'dense': list(want) if isinstance(
                                   want, matrix) else want,
                               'sparse': list(gd) if isinstance(
                                   gd, matrix) else gd})
        for I in kinds(m * n):
            if isinstance(I, (list, matrix)) and len(I) == 0:
                continue
            try:
                want, werr = D[I], None
            except Exception as e:
                want, werr = None, type(e).__name__
            try:
                got, gerr = A[I], None
            except Exception as e:
                got, gerr = None, type(e).__name__
            if werr or gerr:
                if bool(werr) != bool(gerr):
                    fail('index', {'matrix': name, 'I': show(I),
                                   'dense': werr or 'value',
                                   'sparse': gerr or 'value'})
                continue
            gd = matrix(got) if not isinstance(got, (int, float, complex)) \
                else got
            same = list(gd) == list(want) if isinstance(want, matrix) \
                else gd == want
            if not same:
                fail('index', {'matrix': name, 'I': show(I)})
    print('SPIDX-JSON ' + json.dumps(fails))


main()
