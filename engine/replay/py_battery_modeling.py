"""Replay battery for the modeling layer (C13): edit sequences on real op
objects; oracle = the property statement (variables()/constraints() list
exactly the variables and constraints of the current problem)."""
import itertools


def vars_of(p):
    s = set(p.objective.variables())
    for c in p.inequalities() + p.equalities():
        s |= set(c.variables())
    return s


def check(fail, p, what):
    got = p.variables()
    if set(got) != vars_of(p) or len(got) != len(set(got)):
        fail('invariant-preserved', 'op: after %s variables() lists %d '
             'variables, the problem has %d' % (what, len(got),
                                                len(vars_of(p))))
    for v in got:
        ent = p._variables[v]
        if ent['o'] != (v in set(p.objective.variables())):
            fail('invariant-preserved', "op: after %s the 'o' flag of a "
                 "variable is %r but membership in the objective is %r" % (
                     what, ent['o'], v in set(p.objective.variables())))


def run(fail):
    from cvxopt.modeling import variable, op, constraint, _function
    from cvxopt import matrix
    x, y, z = variable(1, 'x'), variable(2, 'y'), variable(1, 'z')
    pool = [lambda: (x + y[0] <= 1), lambda: (y <= 3), lambda: (z == 1),
            lambda: (x - z <= 0), lambda: constraint(_function() + 1.0, '<')]
    objs = [lambda: x, lambda: z + y[1], lambda: 0.0]
    # all sequences of up to 3 edits over the pool
    ops = []
    for i in range(len(pool)):
        ops.append(('add', i))
        ops.append(('del', i))
    for j in range(len(objs)):
        ops.append(('obj', j))
    for n in (1, 2, 3):
        for seq in itertools.product(ops, repeat=n):
            cons = [mk() for mk in pool]
            p = op(x)
            desc = []
            try:
                for (kind, i) in seq:
                    desc.append('%s%d' % (kind, i))
                    if kind == 'add':
                        p.addconstraint(cons[i])
                    elif kind == 'del':
                        p.delconstraint(cons[i])
                    else:
                        p.objective = objs[i]()
                    check(fail, p, ' '.join(desc))
                    lst = p.constraints()
                    lst.append(None)
                    if None in p.constraints() or None in p.inequalities():
                        fail('accessor-copy', 'op.constraints() returned '
                             'the internal list')
            except TypeError:
                pass
            except Exception as e:
                fail('exception-type', 'op: %s raised %s: %s' % (
                    ' '.join(desc), type(e).__name__, e))
    constructor(fail)


def mirror(fail, p, what, kinds):
    """the per-variable lists mirror the constraint lists with multiplicity"""
    def cnt(lst, c):
        return sum(1 for d in lst if d is c)
    bad = None
    for key, lst in (('i', p._inequalities), ('e', p._equalities)):
        for v, ent in p._variables.items():
            for c in set(lst) | set(ent[key]):
                want = cnt(lst, c) if any(v is u for u in c.variables()) \
                    else 0
                if cnt(ent[key], c) != want:
                    bad = "_variables[%s]['%s'] holds a constraint %d times," \
                        " the problem %d times" % (v.name, key,
                                                   cnt(ent[key], c), want)
    if bad:
        for k in kinds:
            fail(k, 'op.__init__: after %s %s' % (what, bad))


def constructor(fail):
    """op(objective, list of constraints): lists of up to 4 constraints over
    the pool, repetitions allowed; afterwards one or two deletions"""
    from cvxopt.modeling import variable, op
    x, y, z, w = variable(1, 'x'), variable(2, 'y'), variable(1, 'z'), \
        variable(1, 'w')
    kinds = ('invariant-established', 'edit-effect',
             'loop-invariant-preserved')
    mk = [lambda: (x + y[0] <= 1), lambda: (y <= 3), lambda: (z == 1),
          lambda: (x - z <= 0), lambda: (w + z == 2), lambda: (w == 0)]
    for n in (0, 1, 2, 3, 4):
        for idx in itertools.product(range(len(mk)), repeat=n):
            if n == 4 and len(set(idx)) > 3:
                continue
            pool = [f() for f in mk]
            given = [pool[i] for i in idx]
            what = 'op(x, [%s])' % ', '.join('c%d' % i for i in idx)
            try:
                p = op(x, list(given))
            except Exception as e:
                fail('exception-type', 'op.__init__: %s raised %s' % (
                    what, type(e).__name__))
                continue
            ine = [c for c in given if c.type() == '<']
            eqs = [c for c in given if c.type() == '=']
            same = lambda a, b: len(a) == len(b) and all(
                u is v for u, v in zip(a, b))
            if not same(p.inequalities(), ine) or not same(p.equalities(),
                                                           eqs):
                for k in kinds:
                    fail(k, 'op.__init__: %s records %d inequalities and %d '
                         'equalities, given %d and %d' % (
                             what, len(p.inequalities()), len(
                                 p.equalities()), len(ine), len(eqs)))
                continue
            check(lambda k_, m_: [fail(k2, 'op.__init__: ' + m_)
                                  for k2 in kinds], p, what)
            mirror(fail, p, what, kinds)
            # deletions after construction must keep the books
            for c in given[:2]:
                try:
                    p.delconstraint(c)
                except Exception as e:
                    for k in kinds:
                        fail(k, 'op.__init__: %s then delconstraint raised '
                             '%s' % (what, type(e).__name__))
                    break
                check(lambda k_, m_: [fail(k2, 'op.__init__: ' + m_)
                                      for k2 in kinds], p,
                      what + ' and a deletion')
                mirror(fail, p, what + ' and a deletion', kinds)
