"""Replay battery for the modeling layer (C13): edit sequences on real op
objects; oracle = the property statement (variables()/constraints() list
exactly the variables and constraints of the current problem)."""
import itertools


def vars_of(p):
    s = set(p.objective.variables())
    for c in p.inequalities() + p.equalities():
        s |= set(c.variables())
    return s


def check(fail, p, what):
    got = p.variables()
    if set(got) != vars_of(p) or len(got) != len(set(got)):
        fail('invariant-preserved', 'op: after %s variables() lists %d '
             'variables, the problem has %d' % (what, len(got),
                                                len(vars_of(p))))
    for v in got:
        ent = p._variables[v]
        if ent['o'] != (v in set(p.objective.variables())):
            fail('invariant-preserved', "op: after %s the 'o' flag of a "
                 "variable is %r but membership in the objective is %r" % (
                     what, ent['o'], v in set(p.objective.variables())))


def run(fail):
    from cvxopt.modeling import variable, op, constraint, _function
    from cvxopt import matrix
    x, y, z = variable(1, 'x'), variable(2, 'y'), variable(1, 'z')
    pool = [lambda: (x + y[0] <= 1), lambda: (y <= 3), lambda: (z == 1),
            lambda: (x - z <= 0), lambda: constraint(_function() + 1.0, '<')]
    objs = [lambda: x, lambda: z + y[1], lambda: 0.0]
    # all sequences of up to 3 edits over the pool
    ops = []
    for i in range(len(pool)):
        ops.append(('add', i))
        ops.append(('del', i))
    for j in range(len(objs)):
        ops.append(('obj', j))
    for n in (1, 2, 3):
        for seq in itertools.product(ops, repeat=n):
            cons = [mk() for mk in pool]
            p = op(x)
            desc = []
            try:
                for (kind, i) in seq:
                    desc.append('%s%d' % (kind, i))
                    if kind == 'add':
                        p.addconstraint(cons[i])
                    elif kind == 'del':
                        p.delconstraint(cons[i])
                    else:
                        p.objective = objs[i]()
                    check(fail, p, ' '.join(desc))
                    lst = p.constraints()
                    lst.append(None)
                    if None in p.constraints() or None in p.inequalities():
                        fail('accessor-copy', 'op.constraints() returned '
                             'the internal list')
            except TypeError:
                pass
            except Exception as e:
                fail('exception-type', 'op: %s raised %s: %s' % (
                    ' '.join(desc), type(e).__name__, e))
