"""`./vf replay <file>`: re-runs the counterexample stored in a replay file
against an overlay build of the CURRENT tree and prints what happens.
exit 0: the violation does not reproduce (any more); exit 1: it reproduces;
exit 2: the file carries no executable counterexample (the obligation and the
verifier output are printed)."""
import json, sys


def run_file(path):
    d = json.load(open(path))
    print('property   :', d.get('property'))
    print('obligation :', d.get('obligation'))
    print('where      :', d.get('where'))
    print('verifier   :', json.dumps(d.get('verifier_output', {}).get(
        'status')), '(model with %d symbols)' % len(
            (d.get('verifier_output') or {}).get('model') or {}))
    r = d.get('replay') or {}
    if r.get('call'):
        from engine import replay_c, replay_wrapper
        kind = d.get('kind')
        ub = kind == 'nooverflow'
        env = replay_c.Env(ubsan=ub)
        try:
            fwd = kind in ('effect-extent', 'frame', 'value')
            res = env.call(r['call'], forward=fwd)
            show = {k: v for k, v in res.items() if k not in ('stderr',
                                                              'bufs')}
            print('call       :', json.dumps(r['call'])[:1500])
            print('result     :', json.dumps(show, default=str)[:3000])
            bad = bool(res.get('signal')) or bool(res.get('ubsan')) or bool(
                replay_wrapper.check_extern_log(res))
            if not bad and kind in ('footprint', 'extern-requires') and \
                    res.get('exception') is None:
                r2 = env.call(r['call'], forward=True, valgrind=True)
                print('valgrind   :', json.dumps(r2.get('valgrind')))
                bad = bool(r2.get('valgrind')) or bool(r2.get('signal'))
            print('REPRODUCED' if bad else 'not reproduced by the generic '
                  'oracles (signal / sanitizer / footprint); compare the '
                  'result with the obligation text')
            return 1 if bad else 0
        finally:
            env.close()
    if r.get('code'):
        from engine import replay_c
        env = replay_c.Env(interpose=False)
        try:
            res = env.call({'code': r['code']})
            print('result     :', json.dumps({k: v for k, v in res.items()
                                              if k != 'stderr'},
                                             default=str)[:3000])
            bad = bool(res.get('signal')) or res.get('exception') == \
                'AssertionError'
            print('REPRODUCED' if bad else 'not reproduced')
            return 1 if bad else 0
        finally:
            env.close()
    if isinstance(r.get('rerun'), dict):
        from engine.replay import battery_run
        name = r['rerun'].get('battery')
        res, err = battery_run.run(name)
        if err:
            print('battery error:', err)
            return 3
        hits = {k: v for k, v in res.items() if k in (
            r['rerun'].get('oracles') or [])}
        print('battery   :', battery_run.BATTERIES[name][0],
              '(overlay build of the current tree)')
        print('failures  :', json.dumps(hits, default=str)[:3000])
        print('REPRODUCED' if hits else 'not reproduced')
        return 1 if hits else 0
    if r.get('battery'):
        from engine import replay_py
        b = replay_py.Battery()
        b.run()
        if b.err:
            print('battery error:', b.err)
            return 3
        oracles = r.get('oracle') or []
        hits = []
        fn = (d.get('obligation') or '').split(':')[1:2]
        for k in oracles:
            for f in b.result.get(k, []):
                if not fn or fn[0].split('.')[-1] in f:
                    hits.append(f)
        print('battery failures for oracles %s: %s' % (oracles, hits[:20]))
        print('REPRODUCED' if hits else 'not reproduced')
        return 1 if hits else 0
    print('no executable counterexample in this file (no-failing-input-found)'
          '; verifier output:')
    print(json.dumps(d.get('verifier_output'), indent=1, default=str)[:4000])
    return 2
