"""Replay battery for C11 (run under /venv/bin/python with an overlay build of
the current tree first on sys.path): linear expressions in which the same
variable occurs twice with differently shaped coefficients (scalar, 1x1
matrix, row, full matrix; dense and sparse), built with + and +=, are
evaluated with f.value() and compared with the formula evaluated directly
(pure Python lists, broadcasting a length-1 term over a vector term).
Prints  EXPR-JSON {oracle: [failing case, ...]}."""
import json, itertools, random, builtins
from cvxopt import matrix, spmatrix, sparse
from cvxopt.modeling import variable

fails = {}
count = {'sum-index': 0}


def fail(k, case):
    fails.setdefault(k, [])
    if len(fails[k]) < 8:
        fails[k].append(case)


def direct(kind, coef, xv):
    n = len(xv)
    if kind == 'scalar':
        return [coef * t for t in xv]
    if kind == 'm11':
        return [coef[0] * t for t in xv]
    rows, cols = coef.size
    return [sum(coef[i, j] * xv[j] for j in range(cols))
            for i in range(rows)]


def bsum(u, w):
    if len(u) == len(w):
        return [a + b for a, b in zip(u, w)]
    if len(u) == 1:
        return [u[0] + b for b in w]
    if len(w) == 1:
        return [a + w[0] for a in u]
    return None


def main():
    rnd = random.Random(5)
    for n in (1, 3):
        x = variable(n, 'x')
        xv = [rnd.uniform(-2, 2) for _ in range(n)]
        x.value = matrix(xv)

        def coefs(tag):
            out = [('scalar', rnd.uniform(-2, 2)),
                   ('m11', matrix([rnd.uniform(-2, 2)])),
                   ('row', matrix([rnd.uniform(-2, 2) for _ in range(n)],
                                  (1, n))),
                   ('mat', matrix([rnd.uniform(-2, 2) for _ in range(n * n)],
                                  (n, n))),
                   ('sprow', sparse(matrix([rnd.uniform(1, 2)
                                            for _ in range(n)], (1, n)))),
                   ('spmat', sparse(matrix([rnd.uniform(1, 2)
                                            for _ in range(n * n)],
                                           (n, n))))]
            if n == 1:
                out.append(('col', matrix([rnd.uniform(-2, 2)
                                           for _ in range(4)], (4, 1))))
            return out
        for (k1, c1), (k2, c2) in itertools.product(coefs('a'), coefs('b')):
            d1 = direct('mat' if k1 in ('row', 'sprow', 'spmat', 'col')
                        else k1, c1, xv)
            d2 = direct('mat' if k2 in ('row', 'sprow', 'spmat', 'col')
                        else k2, c2, xv)
            want = bsum(d1, d2)
            for how in ('+', '+='):
                try:
                    f = c1 * x
                    if how == '+':
                        g = f + c2 * x
                    else:
                        g = c1 * x
                        g += c2 * x
                    got = g.value()
                except (TypeError, ValueError) as e:
                    # an in-place sum cannot make the function longer
                    grows = how == '+=' and len(d2) > len(d1)
                    if want is not None and not grows:
                        fail('addterm-refuses', {
                            'n': n, 'first': k1, 'second': k2, 'how': how,
                            'refused with': repr(e)})
                    continue
                except Exception as e:
                    fail('addterm-exceptions', {
                        'n': n, 'first': k1, 'second': k2, 'how': how,
                        'raised': repr(e)})
                    continue
                if want is None:
                    fail('addterm-accepts', {'n': n, 'first': k1,
                                             'second': k2, 'how': how,
                                             'accepted': list(got)})
                    continue
                got = list(got)
                if len(got) != len(want) or any(
                        abs(a - b) > 1e-9 * max(1, abs(a), abs(b))
                        for a, b in zip(got, want)):
                    fail('addterm-value', {
                        'n': n, 'first': k1, 'second': k2, 'how': how,
                        'value()': [round(t, 6) for t in got],
                        'formula': [round(t, 6) for t in want]})
                if how == '+':
                    # operands are not modified / aliased
                    again = list(f.value())
                    if any(abs(a - b) > 1e-12 for a, b in zip(again, d1)) \
                            or len(again) != len(d1):
                        fail('addterm-alias', {'n': n, 'first': k1,
                                               'second': k2})
    inplace_scalar()
    aliasing()
    lengths()
    inplace_addsub()
    sum_and_index()
    keytolist()
    binary_ops()
    minmax_arguments()
    dot_arguments()
    value_none()
    print('EXPR-COUNT ' + json.dumps(count))
    print('EXPR-JSON ' + json.dumps(fails))


def lengths():
    """len(f) follows the broadcasting rule whatever the order in which the
    terms were added"""
    from cvxopt.modeling import dot, sum as msum
    x = variable(3, 'x')
    y = variable(3, 'y')
    s_ = variable(1, 's')
    x.value = matrix([1.0, -2.0, 3.0])
    y.value = matrix([0.5, 1.5, -1.0])
    s_.value = matrix([2.0])
    c = matrix([1.0, 2.0, 3.0])
    A = matrix([float(i) for i in range(1, 10)], (3, 3))
    cases = [('dot(c,x) + y', lambda: dot(c, x) + y, 3),
             ('y + dot(c,x)', lambda: y + dot(c, x), 3),
             ('sum(x) - A*y', lambda: msum(x) - A * y, 3),
             ('A*y - sum(x)', lambda: A * y - msum(x), 3),
             ('dot(c,x) + s', lambda: dot(c, x) + s_, 1),
             ('s + x', lambda: s_ + x, 3),
             ('c.T*x + 2*y', lambda: c.T * x + 2.0 * y, 3),
             ('s + dot(c,y)', lambda: s_ + dot(c, y), 1)]
    for nm, mk, want in cases:
        try:
            f = mk()
            got = len(f)
            v = f.value()
        except Exception as e:
            fail('len-value', {'expression': nm, 'raised': repr(e)})
            continue
        if got != want or len(v) != want:
            fail('len-value', {'expression': nm, 'len(f)': got,
                               'len(f.value())': len(v), 'rule': want})


def inplace_addsub():
    """f += g and f -= g: the value afterwards is the sum (difference) of the
    values before, a convex minus a concave function is convex (and vice
    versa), and a result that is neither is refused"""
    from cvxopt.modeling import max as mmax, min as mmin
    x = variable(2, 'x')
    y = variable(2, 'y')
    x.value = matrix([1.0, -2.0])
    y.value = matrix([0.5, 3.0])

    def funcs():
        return {'affine': lambda: 2.0 * x + 1.0, 'affine1': lambda: x[0] + 3.0,
                'convex': lambda: mmax(x, y) + x, 'concave': lambda:
                mmin(x, y) - 1.0, 'convex1': lambda: mmax(x) + 2.0,
                'concave1': lambda: mmin(y) - x[1]}
    curv = {'affine': 'a', 'affine1': 'a', 'convex': 'x', 'convex1': 'x',
            'concave': 'v', 'concave1': 'v'}
    for sign, opn in ((1, '+='), (-1, '-=')):
        for n1, mk1 in funcs().items():
            for n2, mk2 in funcs().items():
                f, g = mk1(), mk2()
                fv, gv = list(f.value()), list(g.value())
                c2 = curv[n2] if sign > 0 else {'a': 'a', 'x': 'v',
                                               'v': 'x'}[curv[n2]]
                ok_curv = 'a' in (curv[n1], c2) or curv[n1] == c2
                ok_len = len(gv) in (1, len(fv))
                try:
                    if sign > 0:
                        f += g
                    else:
                        f -= g
                except (ValueError, TypeError):
                    if ok_curv and ok_len:
                        fail('iaddsub-value', {'f': n1, 'op': opn, 'g': n2,
                                               'refused': True})
                    continue
                if not (ok_curv and ok_len):
                    fail('iaddsub-value', {'f': n1, 'op': opn, 'g': n2,
                                           'accepted': True})
                    continue
                want = [a + sign * (gv[i] if len(gv) > 1 else gv[0])
                        for i, a in enumerate(fv)]
                got = list(f.value())
                res = curv[n1] if curv[n1] != 'a' else c2
                flags = (f._isconvex(), f._isconcave())
                wantflags = {'a': (True, True), 'x': (True, False),
                             'v': (False, True)}[res]
                if len(got) != len(want) or any(
                        abs(u - v) > 1e-9 for u, v in zip(got, want)) or \
                        flags != wantflags:
                    fail('iaddsub-value', {
                        'f': n1, 'op': opn, 'g': n2, 'value': got,
                        'expected': want, '(convex, concave)': flags,
                        'expected flags': wantflags})


def sum_and_index():
    """sum(f) and f[key] against the componentwise values of f: affine,
    componentwise max / min of several functions, max / min over the
    components of one function, sums of those, with broadcast parts; keys:
    ints, negative ints, lists with repetitions, slices (reversed too); the
    indexed function must not share parts with f"""
    from cvxopt.modeling import max as mmax, min as mmin, sum as msum
    x = variable(3, 'x')
    y = variable(3, 'y')
    z = variable(1, 'z')
    x.value = matrix([1.0, -2.0, 3.0])
    y.value = matrix([0.5, 3.0, -1.0])
    z.value = matrix([2.0])

    def funcs():
        return {
            'affine': lambda: 2.0 * x + y + 1.0,
            'affine-bc': lambda: x + z + matrix([1.0, 2.0, 3.0]),
            'lin-matrix': lambda: matrix([float(i) for i in range(1, 10)],
                                         (3, 3)) * x + z,
            'lin-row': lambda: matrix([1.0, -2.0, 0.5], (1, 3)) * x + y,
            'lin-row-only': lambda: matrix([1.0, -2.0, 0.5], (1, 3)) * x + z,
            'lin-sparse': lambda: spmatrix([1.0, 2.0, -3.0], [0, 2, 1],
                                           [1, 1, 2], (3, 3)) * x - 2.0 * y,
            'lin-scalar-var': lambda: 3.0 * z + matrix([1.0, 2.0, 3.0]),
            'max2': lambda: mmax(x, y) + x,
            'max2-bc': lambda: mmax(x, y) + mmax(z, 1.0) + z,
            'min2': lambda: mmin(x, y, 0.5) - y + 2.0,
            'min2-bc': lambda: mmin(x, 2.0 * y) + mmin(z, 3.0 * z),
            'max1': lambda: mmax(x) + z,                 # length 1
            'min1': lambda: mmin(y) - z + 1.0,
            'summax': lambda: msum(mmax(x, y)) + z,      # length 1
            'summin': lambda: msum(mmin(x, y)) - 2.0,
            'max1-only': lambda: mmax(x),
            'summin-only': lambda: msum(mmin(x, y)),
            'max-of-1s': lambda: mmax(z, 2.0 * z, 1.0) + z,   # length 1
            'mixed': lambda: mmax(x, y) + msum(mmax(x, -x)) + mmax(y)}
    for nm, mk in funcs().items():
        f = mk()
        fv = list(f.value())
        if len(f) != len(fv):
            fail('len-value', {'function': nm, 'len(f)': len(f),
                               'len(f.value())': len(fv)})
        try:
            g = msum(f)
            gv = list(g.value())
        except Exception as e:
            fail('sum-value', {'function': nm, 'raised': repr(e)})
            gv = None
        if gv is not None and (len(gv) != 1 or abs(gv[0] - builtins.sum(fv)) > 1e-9):
            fail('sum-value', {'function': nm, 'f.value()': fv,
                               'sum(f).value()': gv})
        if gv is not None and (g._isconvex(), g._isconcave()) != (
                f._isconvex(), f._isconcave()):
            fail('sum-value', {'function': nm, 'curvature': 'changed'})
        n = len(fv)
        keys = [0, -1, [0], [0, 0], slice(None), slice(None, None, -1),
                [n - 1, 0, n - 1], slice(0, n, 2)]
        for key in keys:
            want = [fv[i] for i in (range(n)[key] if isinstance(key, slice)
                                    else [key] if isinstance(key, int)
                                    else key)]
            try:
                h = f[key]
                hv = list(h.value())
            except Exception as e:
                fail('index-value', {'function': nm, 'key': repr(key),
                                     'raised': repr(e)})
                continue
            count['sum-index'] += 1
            if len(hv) != len(want) or any(abs(u - v) > 1e-9 for u, v in
                                           zip(hv, want)):
                fail('index-value', {'function': nm, 'key': repr(key),
                                     'f.value()': fv, 'f[key].value()': hv,
                                     'expected': want})
                continue
            if (h._isconvex(), h._isconcave()) != (f._isconvex(),
                                                   f._isconcave()):
                fail('index-value', {'function': nm, 'key': repr(key),
                                     'curvature': 'changed'})
            # no sharing: an in-place operation on f[key] leaves f alone
            h *= 2.0
            h += 1.0
            if any(abs(u - v) > 1e-12 for u, v in zip(list(f.value()), fv)):
                fail('index-fresh', {'function': nm, 'key': repr(key),
                                     'f.value() before': fv,
                                     'after in-place ops on f[key]':
                                     list(f.value())})
                f = mk()
        try:
            f[[]]
            fail('index-refuses', {'function': nm, 'key': '[]',
                                   'accepted': True})
        except ValueError:
            pass
        except Exception as e:
            fail('index-refuses', {'function': nm, 'key': '[]',
                                   'raised': repr(e)})


def keytolist():
    """_keytolist(key, n) against Python's own indexing of range(n)"""
    from cvxopt.modeling import _keytolist
    for n in (0, 1, 2, 5):
        ref = list(range(n))
        keys = list(range(-n - 2, n + 3))
        keys += [[a, b] for a in range(-n - 1, n + 2)
                 for b in range(-n - 1, n + 2)]
        keys += [[], [0] * 3 if n else [], [-1, -1, 0] if n else []]
        for key in keys:
            try:
                want = [ref[key]] if isinstance(key, int) else \
                    [ref[k] for k in key]
            except IndexError:
                want = IndexError
            keep = list(key) if isinstance(key, list) else key
            try:
                got = _keytolist(key, n)
            except IndexError:
                got = IndexError
            except Exception as e:
                got = repr(e)
            count['keytolist'] = count.get('keytolist', 0) + 1
            if got != want or (isinstance(key, list) and (key != keep or
                                                          got is key)):
                fail('key-value', {'key': repr(keep), 'n': n, '_keytolist':
                                   'IndexError' if got is IndexError else
                                   repr(got), 'expected': 'IndexError' if
                                   want is IndexError else repr(want),
                                   'key afterwards': repr(key)})


def binary_ops():
    """+f, -f, f + g, f - g, f + a, a - f: value, curvature, refusal of
    combinations that are neither convex nor concave or whose lengths do not
    match, and no aliasing (in-place operations on the result leave the
    operands alone and vice versa)"""
    from cvxopt.modeling import max as mmax, min as mmin
    x = variable(2, 'x')
    y = variable(2, 'y')
    w = variable(3, 'w')
    x.value = matrix([1.0, -2.0])
    y.value = matrix([0.5, 3.0])
    w.value = matrix([1.0, 2.0, 3.0])

    def funcs():
        return {'affine': lambda: 2.0 * x + 1.0, 'affine1': lambda: x[0] + 3.0,
                'convex': lambda: mmax(x, y) + x, 'concave': lambda:
                mmin(x, y) - 1.0, 'convex1': lambda: mmax(x) + 2.0,
                'concave1': lambda: mmin(y) - x[1], 'affine3': lambda:
                w + 1.0, 'convex3': lambda: mmax(w, -w)}
    curv = {'affine': 'a', 'affine1': 'a', 'convex': 'x', 'convex1': 'x',
            'concave': 'v', 'concave1': 'v', 'affine3': 'a', 'convex3': 'x'}
    flags_of = {'a': (True, True), 'x': (True, False), 'v': (False, True)}
    flip = {'a': 'a', 'x': 'v', 'v': 'x'}

    def close(u, v):
        return len(u) == len(v) and all(abs(p - q) <= 1e-9 for p, q in
                                        zip(u, v))

    def bc(u, n):
        return list(u) if len(u) == n else [u[0]] * n
    # the operators of a variable: (+v).__op__(a)
    xv, yv = list(x.value), list(y.value)
    for nm, mk, want in (
            ('3.0 - x', lambda: 3.0 - x, [3.0 - t for t in xv]),
            ('x - 3', lambda: x - 3, [t - 3 for t in xv]),
            ('x - y', lambda: x - y, [a - b for a, b in zip(xv, yv)]),
            ('y + x', lambda: y + x, [a + b for a, b in zip(xv, yv)]),
            ('2 + x', lambda: 2 + x, [2 + t for t in xv]),
            ('x * 4', lambda: x * 4, [4 * t for t in xv]),
            ('-2.5 * x', lambda: -2.5 * x, [-2.5 * t for t in xv]),
            ('x / 2.0', lambda: x / 2.0, [t / 2.0 for t in xv]),
            ('x[1]', lambda: x[1], [xv[1]]),
            ('x[-1]', lambda: x[-1], [xv[-1]]),
            ('w[[2, 0]]', lambda: w[[2, 0]], [3.0, 1.0])):
        count['binary'] = count.get('binary', 0) + 1
        try:
            got = list(mk().value())
        except Exception as e:
            fail('binop-value', {'expression': nm, 'raised': repr(e)})
            continue
        if not close(got, want):
            fail('binop-value', {'expression': nm, 'value': got,
                                 'expected': want})
    for n1, mk1 in funcs().items():
        f = mk1()
        fv = list(f.value())
        for nm, r, want, cv in (('+f', +f, fv, curv[n1]),
                                ('-f', -f, [-t for t in fv], flip[curv[n1]]),
                                ('f + 2.5', f + 2.5, [t + 2.5 for t in fv],
                                 curv[n1]),
                                ('f - 2', f - 2, [t - 2 for t in fv],
                                 curv[n1]),
                                ('1.5 - f', 1.5 - f, [1.5 - t for t in fv],
                                 flip[curv[n1]]),
                                ('3 + f', 3 + f, [3 + t for t in fv],
                                 curv[n1]),
                                ('f * 2.5', f * 2.5, [2.5 * t for t in fv],
                                 curv[n1]),
                                ('-1.5 * f', -1.5 * f, [-1.5 * t for t in fv],
                                 flip[curv[n1]]),
                                ('f * matrix([-2.0])', f * matrix([-2.0]),
                                 [-2.0 * t for t in fv], flip[curv[n1]]),
                                ('matrix([3.0]) * f', matrix([3.0]) * f,
                                 [3.0 * t for t in fv], curv[n1]),
                                ('f / 4', f / 4, [t / 4 for t in fv],
                                 curv[n1]),
                                ('f / matrix([-0.5])', f / matrix([-0.5]),
                                 [t / -0.5 for t in fv], flip[curv[n1]]),
                                ('f * 0', f * 0, [0.0 for t in fv], 'a'),
                                ('0.0 * f', 0.0 * f, [0.0 for t in fv], 'a')):
            count['binary'] = count.get('binary', 0) + 1
            if not close(list(r.value()), want) or (
                    r._isconvex(), r._isconcave()) != flags_of[cv]:
                fail('binop-value', {'f': n1, 'op': nm, 'value': list(
                    r.value()), 'expected': want})
            r *= 2.0
            r += 1.0
            if not close(list(f.value()), fv):
                fail('binop-fresh', {'f': n1, 'op': nm, 'f.value() after '
                                     'in-place operations on the result':
                                     list(f.value()), 'before': fv})
                f = mk1()
        for n2, mk2 in funcs().items():
            for sign, opn in ((1, '+'), (-1, '-')):
                f, g = mk1(), mk2()
                fv, gv = list(f.value()), list(g.value())
                c2 = curv[n2] if sign > 0 else flip[curv[n2]]
                ok_curv = 'a' in (curv[n1], c2) or curv[n1] == c2
                ok_len = len(gv) == len(fv) or 1 in (len(gv), len(fv))
                count['binary'] = count.get('binary', 0) + 1
                try:
                    r = f + g if sign > 0 else f - g
                except (ValueError, TypeError):
                    if ok_curv and ok_len:
                        fail('binop-value', {'f': n1, 'op': opn, 'g': n2,
                                             'refused': True})
                    continue
                if not (ok_curv and ok_len):
                    fail('binop-value', {'f': n1, 'op': opn, 'g': n2,
                                         'accepted': True})
                    continue
                n = max(len(fv), len(gv))
                want = [a + sign * b for a, b in zip(bc(fv, n), bc(gv, n))]
                res = curv[n1] if curv[n1] != 'a' else c2
                if not close(list(r.value()), want) or (
                        r._isconvex(), r._isconcave()) != flags_of[res]:
                    fail('binop-value', {'f': n1, 'op': opn, 'g': n2,
                                         'value': list(r.value()),
                                         'expected': want})
                    continue
                r *= -2.0
                if not close(list(f.value()), fv) or not close(
                        list(g.value()), gv):
                    fail('binop-fresh', {'f': n1, 'op': opn, 'g': n2,
                                         'operands changed by': 'r *= -2'})
                    continue
                r = f + g if sign > 0 else f - g
                rv = list(r.value())
                f *= 3.0
                g *= 0.5
                if not close(list(r.value()), rv):
                    fail('binop-fresh', {'f': n1, 'op': opn, 'g': n2,
                                         'result changed by': 'f *= 3; '
                                         'g *= 0.5', 'value': list(
                                             r.value()), 'before': rv})


def minmax_arguments():
    """max accepts numbers, column matrices, variables, affine and convex
    functions (min: concave) and refuses the others with an exception; what
    it accepts is flagged convex (concave) and evaluates to the componentwise
    maximum (minimum)"""
    from cvxopt.modeling import max as mmax, min as mmin
    x = variable(2, 'x')
    y = variable(2, 'y')
    x.value = matrix([1.0, 5.0])
    y.value = matrix([3.0, 2.0])
    cvx = lambda: mmax(x, y)            # convex, not affine
    ccv = lambda: mmin(x, y)            # concave, not affine
    aff = lambda: 2.0 * x + 1.0
    bad = [('max(min(x,y), x)', lambda: mmax(ccv(), x)),
           ('max(x, min(x,y))', lambda: mmax(x, ccv())),
           ('max(min(x,y), 0.0)', lambda: mmax(ccv(), 0.0)),
           ('max(min(x,y))', lambda: mmax(ccv())),
           ('max(2x+1, -max(x,y), y)', lambda: mmax(aff(), -cvx(), y)),
           ('min(max(x,y), x)', lambda: mmin(cvx(), x)),
           ('min(1.0, max(x,y))', lambda: mmin(1.0, cvx())),
           ('min(max(x,y))', lambda: mmin(cvx())),
           ('min(y, -min(x,y))', lambda: mmin(y, -ccv()))]
    w = variable(3, 'w')
    w.value = matrix([7.0, 8.0, 9.0])
    bad += [('max(x, w) (lengths 2 and 3)', lambda: mmax(x, w)),
            ('min(x, w) (lengths 2 and 3)', lambda: mmin(x, w)),
            ("max(x, 'a')", lambda: mmax(x, 'a')),
            ('max(x, None)', lambda: mmax(x, None)),
            ('min(2x+1, w, 0.0)', lambda: mmin(aff(), w, 0.0)),
            ('max([x, w])', lambda: mmax([x, w])),
            ('abs(max(x,y))', lambda: abs(cvx())),
            ('abs(min(x,y))', lambda: abs(ccv()))]
    for nm, mk in bad:
        count['minmax'] = count.get('minmax', 0) + 1
        try:
            f = mk()
        except Exception:
            continue
        fail('minmax-accepts', {'expression': nm, 'accepted': True,
                                '(convex, concave)': (f._isconvex(),
                                                      f._isconcave())})
    good = [('max(max(x,y), x, 2.0)', lambda: mmax(cvx(), x, 2.0), 'x',
             lambda a, b: builtins.max(builtins.max(a, b), a, 2.0)),
            ('max(2x+1, y)', lambda: mmax(aff(), y), 'x',
             lambda a, b: builtins.max(2 * a + 1, b)),
            ('min(min(x,y), -max(x,y), 4.0)', lambda: mmin(ccv(), -cvx(),
                                                           4.0), 'v',
             lambda a, b: builtins.min(builtins.min(a, b),
                                       -builtins.max(a, b), 4.0)),
            ('min(x, 2x+1)', lambda: mmin(x, aff()), 'v',
             lambda a, b: builtins.min(a, 2 * a + 1))]
    # a single list or tuple of arguments is the same as the arguments
    for nm, mk, red in (('max([x, y, 2.0])', lambda: mmax([x, y, 2.0]),
                         builtins.max),
                        ('max((x, y, 2.0))', lambda: mmax((x, y, 2.0)),
                         builtins.max),
                        ('min([x, y, 2.0])', lambda: mmin([x, y, 2.0]),
                         builtins.min),
                        ('min((x, y, 2.0))', lambda: mmin((x, y, 2.0)),
                         builtins.min)):
        count['minmax'] = count.get('minmax', 0) + 1
        try:
            f = mk()
            want = [red(a, b, 2.0) for a, b in zip(
                list(x.value), list(y.value))]
            if any(abs(u - v_) > 1e-12 for u, v_ in zip(list(f.value()),
                                                        want)):
                fail('minmax-accepts', {'expression': nm, 'value': list(
                    f.value()), 'expected': want})
        except Exception as e:
            fail('minmax-accepts', {'expression': nm, 'refused': repr(e)})
    count['minmax'] = count.get('minmax', 0) + 1
    try:
        f = abs(aff())
        want = [abs(2 * a + 1) for a in list(x.value)]
        if (f._isconvex(), f._isconcave()) != (True, False) or any(
                abs(u - v_) > 1e-12 for u, v_ in zip(list(f.value()), want)):
            fail('minmax-accepts', {'expression': 'abs(2x+1)', 'value': list(
                f.value()), 'expected': want})
    except Exception as e:
        fail('minmax-accepts', {'expression': 'abs(2x+1)', 'refused':
                                repr(e)})
    for nm, mk, cv, ref in good:
        count['minmax'] = count.get('minmax', 0) + 1
        try:
            f = mk()
        except Exception as e:
            fail('minmax-accepts', {'expression': nm, 'refused': repr(e)})
            continue
        want = [ref(a, b) for a, b in zip(list(x.value), list(y.value))]
        flags = (f._isconvex(), f._isconcave())
        if flags != {'x': (True, False), 'v': (False, True)}[cv] or any(
                abs(u - w) > 1e-12 for u, w in zip(list(f.value()), want)):
            fail('minmax-accepts', {'expression': nm, 'value': list(
                f.value()), 'expected': want, '(convex, concave)': flags})


def value_none():
    """f.value() is None as long as a variable of f has no value, whatever
    part of f the variable is in"""
    from cvxopt.modeling import max as mmax, min as mmin, sum as msum
    a, b = variable(2, 'a'), variable(2, 'b')
    a.value = matrix([1.0, 2.0])
    for nm, mk in (('a + b', lambda: a + b), ('a + max(b, 0)', lambda:
                                              a + mmax(b, 0)),
                   ('max(a, 1) + max(b, 0)', lambda: mmax(a, 1) + mmax(b, 0)),
                   ('a + min(b, 0)', lambda: a + mmin(b, 0)),
                   ('2*a + 1 - min(b, 0)', lambda:
                    2 * a + 1 - mmin(b, 0))):
        count['value-none'] = count.get('value-none', 0) + 1
        try:
            got = mk().value()
        except Exception as e:
            fail('value-none', {'expression': nm, 'raised': repr(e)})
            continue
        if got is not None:
            fail('value-none', {'expression': nm, 'b has no value, value()':
                                list(got)})


def dot_arguments():
    """dot(u, v): u a dense column matrix of size (len(v), 1), v a variable
    or an affine function (either order) -> the scalar u' v; two dense
    matrices -> blas.dot; anything else is refused"""
    from cvxopt.modeling import dot as mdot, max as mmax
    v = variable(2, 'v')
    v.value = matrix([1.0, 2.0])
    c2 = matrix([3.0, -1.0])
    A = matrix([1.0, 2.0, 3.0, 4.0, 5.0, 6.0], (2, 3))
    good = [('dot(c, v)', lambda: mdot(c2, v), 1.0),
            ('dot(v, c)', lambda: mdot(v, c2), 1.0),
            ('dot(c, 2v+1)', lambda: mdot(c2, 2 * v + 1), 4.0),
            ('dot(2v+1, c)', lambda: mdot(2 * v + 1, c2), 4.0)]
    for nm, mk, want in good:
        count['dot'] = count.get('dot', 0) + 1
        try:
            f = mk()
            got = list(f.value())
            if len(f) != 1 or abs(got[0] - want) > 1e-12:
                fail('dot-accepts', {'expression': nm, 'len': len(f),
                                     'value': got, 'expected': [want]})
        except Exception as e:
            fail('dot-accepts', {'expression': nm, 'refused': repr(e)})
    if abs(mdot(c2, matrix([2.0, 5.0])) - 1.0) > 1e-12:
        fail('dot-accepts', {'expression': 'dot(c, matrix)', 'value':
                             mdot(c2, matrix([2.0, 5.0]))})
    bad = [('dot(2x3 matrix, variable(2))', lambda: mdot(A, v)),
           ('dot(variable(2), 2x3 matrix)', lambda: mdot(v, A)),
           ('dot(2x3 matrix, 2v+1)', lambda: mdot(A, 2 * v + 1)),
           ('dot(3x1 matrix, variable(2))', lambda: mdot(matrix(
               [1.0, 2.0, 3.0]), v)),
           ('dot(1x2 matrix, variable(2))', lambda: mdot(c2.T, v)),
           ('dot(c, max(v, 0))', lambda: mdot(c2, mmax(v, 0))),
           ('dot(v, v)', lambda: mdot(v, v))]
    for nm, mk in bad:
        count['dot'] = count.get('dot', 0) + 1
        try:
            f = mk()
        except Exception:
            continue
        fail('dot-accepts', {'expression': nm, 'accepted': True, 'len':
                             len(f), 'value': list(f.value())})


def aliasing():
    """a sum must not share coefficient matrices with its operands: in-place
    operations on the sum leave the operands' values alone"""
    x = variable(3, 'x')
    y = variable(3, 'y')
    x.value = matrix([1.0, -2.0, 3.0])
    y.value = matrix([0.5, 1.5, -1.0])
    A = matrix([float(i) for i in range(1, 10)], (3, 3))
    B = matrix([float(-i) for i in range(1, 10)], (3, 3))
    S = sparse(B)
    for nm, Bc in (('dense', B), ('sparse', S), ('row', B[0, :])):
        g = Bc * y
        before = list(g.value())
        f = A * x + g
        f *= 3.0
        f2 = A * x + g
        f2 += y
        after = list(g.value())
        # the operand on the right of a variable that already has a scalar
        # coefficient: x + B*x merges B into the coefficient of x
        g2 = Bc * x
        before2 = list(g2.value())
        f3 = x + g2
        f4 = 2.0 * x - g2
        if any(abs(u - v) > 1e-12 for u, v in zip(before2, list(g2.value()))):
            fail('addterm-alias', {'operand coefficient': nm, 'expression':
                                   'x + B*x, 2*x - B*x', 'value of B*x '
                                   'before': before2, 'after': list(
                                       g2.value())})
        if any(abs(u - v) > 1e-12 for u, v in zip(before, after)):
            fail('addterm-alias', {'operand coefficient': nm,
                                   'value before': before,
                                   'value after in-place ops on the sum':
                                   after})


def inplace_scalar():
    """f *= a and f /= a for affine and piecewise-linear f, a > 0, a < 0
    and a = 0: the value afterwards is a times (1/a times) the value before,
    and a convex function times a negative number is concave"""
    from cvxopt.modeling import max as mmax, min as mmin
    x = variable(3, 'x')
    x.value = matrix([1.0, -2.0, 3.0])
    y = variable(1, 'y')
    y.value = matrix([0.5])

    def funcs():
        return [('affine', 2.0 * x + 1.0),
                ('affine-scalar', 3.0 * y - 2.0),
                ('max', mmax(x) + 2.0 * y + 1.0),
                ('min', mmin(x, 2.0 * x) - 1.0),
                ('constant', 0.0 * y + 4.0)]
    for a in (2.0, -3.0, 0.0, 1, -1, matrix([-0.5])):
        av = a[0] if isinstance(a, matrix) else a
        for (nm, f) in funcs():
            before = list(f.value())
            cvx0, ccv0 = f._isconvex(), f._isconcave()
            try:
                f *= a
                got = list(f.value())
            except Exception as e:
                fail('imul-exceptions', {'function': nm, 'a': repr(a),
                                         'raised': repr(e)})
                continue
            want = [av * t for t in before]
            if len(got) != len(want) or any(
                    abs(u - v) > 1e-9 * max(1, abs(u), abs(v))
                    for u, v in zip(got, want)):
                fail('imul-value', {'function': nm, 'a': repr(a),
                                    'value after f *= a': got,
                                    'a * value before': want})
                continue
            if av < 0 and (f._isconvex(), f._isconcave()) != (ccv0, cvx0):
                fail('imul-value', {'function': nm, 'a': repr(a),
                                    'curvature': 'not exchanged'})


main()
