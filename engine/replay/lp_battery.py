"""Replay battery for C12 (run under /venv/bin/python with an overlay build of
the current tree first on sys.path).

  assembly     for a grid of problems (matrix / row / scalar coefficients,
               several variables, inequalities and equalities of different
               sizes, dense and sparse format): the LP returned by
               op._inmatrixform, evaluated at the image of random points,
               gives the same constraint values as the original problem
               (G x - h = value of every inequality, A x - b of every
               equality) -- the matrix form IS the problem that was written
  propagation  after solve(): status 'primal infeasible' / 'dual infeasible'
               leave variable values resp. multipliers None as documented,
               also when the same op was solved to optimality before
Prints  LP-JSON {oracle: [failing case, ...]}."""
import json, random
from cvxopt import matrix, spmatrix
from cvxopt.modeling import variable, op, dot, sum as msum

fails = {}


def fail(k, case):
    fails.setdefault(k, [])
    if len(fails[k]) < 6:
        fails[k].append(case)


def problems():
    rnd = random.Random(3)

    def rm(r, c):
        return matrix([rnd.uniform(-2, 2) for _ in range(r * c)], (r, c))
    x, y, z, w = variable(3, 'x'), variable(3, 'y'), variable(1, 'z'), \
        variable(2, 'w')
    A1, A2 = rm(4, 3), rm(4, 3)
    out = []
    # different numbers of inequality and equality rows, scalar coefficients
    # on vector variables, a variable after them in column order
    out.append(('scalar-coeff', op(
        dot(rm(3, 1), x) + dot(rm(3, 1), y) + 2.0 * z + dot(rm(2, 1), w),
        [A1 * x + A2 * y <= rm(4, 1), x + y == rm(3, 1),
         2.0 * x - 3.0 * y <= rm(3, 1), z + dot(rm(2, 1), w) == 1.5,
         x + z <= 4.0, w >= -1.0, 0.5 * y - 2.0 * x == rm(3, 1)])))
    S = spmatrix([1., -2., 3., 1.], [0, 1, 3, 2], [0, 2, 1, 0], (4, 3))
    out.append(('sparse-and-rows', op(
        dot(rm(3, 1), x) + z,
        [S * x + z <= rm(4, 1), dot(rm(3, 1), x) + dot(rm(3, 1), y) <= 2.0,
         rm(1, 3) * y + z == 0.5, y - x == rm(3, 1)])))
    return out


def check_assembly():
    rnd = random.Random(11)
    for name, p in problems():
        for fmt in ('dense', 'sparse'):
            try:
                t = p._inmatrixform(fmt)
            except Exception as e:
                fail('assembly', {'case': name, 'format': fmt,
                                  'exception': repr(e)})
                continue
            if t is None:
                continue
            lp, vmap, mmap = t
            xx = lp.variables()[0]
            for trial in range(3):
                xv = matrix([rnd.uniform(-3, 3) for _ in range(len(xx))])
                xx.value = xv
                for v, f in vmap.items():
                    v.value = f.value()
                # original constraint values, in the order of the lists
                orig_i = []
                for c in p.inequalities():
                    orig_i += list(c.value())
                orig_e = []
                for c in p.equalities():
                    orig_e += list(c.value())
                got_i, got_e = [], []
                for c in lp.inequalities():
                    got_i += list(c.value())
                for c in lp.equalities():
                    got_e += list(c.value())
                if len(got_i) != len(orig_i) or len(got_e) != len(orig_e):
                    fail('assembly', {'case': name, 'format': fmt,
                                      'rows': [len(orig_i), len(got_i),
                                               len(orig_e), len(got_e)]})
                    break
                # islc follows the order lin_ineqs (list order); compare as
                # multisets of rows to be independent of the row order
                def close(a, b):
                    return all(abs(u - v) <= 1e-9 * max(1, abs(u), abs(v))
                               for u, v in zip(sorted(a), sorted(b)))
                if not close(orig_i, got_i) or not close(orig_e, got_e):
                    fail('assembly', {'case': name, 'format': fmt,
                                      'inequality values': [
                                          sorted(orig_i)[:4],
                                          sorted(got_i)[:4]],
                                      'equality values': [
                                          sorted(orig_e)[:4],
                                          sorted(got_e)[:4]]})
                    break


def check_propagation():
    from cvxopt import solvers
    solvers.options['show_progress'] = False
    x = variable(2, 'x')
    c1 = (x >= 0.0)
    c2 = (dot(matrix([1., 1.]), x) <= 1.0)
    p = op(-dot(matrix([1., 2.]), x), [c1, c2])
    p.solve()
    if p.status != 'optimal':
        fail('propagation', {'case': 'feasible start', 'status': p.status})
        return
    # make it infeasible and solve the same op again
    c3 = (dot(matrix([1., 1.]), x) >= 3.0)
    p.addconstraint(c3)
    p.solve()
    if p.status != 'primal infeasible':
        fail('propagation', {'case': 'infeasible re-solve',
                             'status': p.status})
    elif x.value is not None:
        fail('propagation', {'case': 'infeasible re-solve: the variable '
                             'keeps a value', 'value': list(x.value)})
    # unbounded
    y = variable(2, 'y')
    d1 = (y[0] >= 0.0)
    q = op(-dot(matrix([1., 1.]), y), [d1, y[0] - y[1] <= 1.0])
    q.solve()
    q2 = op(dot(matrix([1., 1.]), y), [d1, y[0] - y[1] <= 1.0,
                                      y[1] >= -1.0])
    q2.solve()
    if q2.status == 'optimal':
        q2.delconstraint(q2.inequalities()[-1])
        q2.solve()
        if q2.status == 'dual infeasible' and \
                d1.multiplier.value is not None:
            fail('propagation', {'case': 'unbounded re-solve: a multiplier '
                                 'keeps a value'})


def check_sparse_cost():
    """a problem already in matrix form whose cost row is sparse is solved
    with the default (dense) format"""
    from cvxopt import solvers, sparse
    solvers.options['show_progress'] = False
    x = variable(3, 'x')
    c = sparse(matrix([1.0, 0.0, 2.0], (1, 3)))
    G = matrix([[-1., 0., 0.], [0., -1., 0.], [0., 0., -1.]])
    p = op(c * x, [G * x <= matrix([0., 0., 0.]),
                   matrix([[1.], [1.], [1.]]) * x == matrix([1.0])])
    try:
        p.solve()
        if p.status != 'optimal':
            fail('propagation', {'case': 'sparse cost row', 'status':
                                 p.status})
    except Exception as e:
        fail('propagation', {'case': 'sparse cost row, format dense',
                             'raised': repr(e)})


def check_pwl_multipliers():
    """mmap of a piecewise-linear inequality: with a test vector as the
    multiplier of G*x <= h, mmap[c].value() is the sum of the multipliers of
    the linear pieces of c (and the sum of its components when c has length 1
    and the pieces are vectors)"""
    from cvxopt.modeling import max as mmax
    x, y = variable(3, 'x'), variable(3, 'y')
    b = matrix([1.0, 2.0, 3.0])
    cases = [
        ('max(x, y, 2x) <= b', lambda: (mmax(x, y, 2.0 * x) <= b), 9,
         lambda m: [m[r] + m[3 + r] + m[6 + r] for r in range(3)]),
        ('max(max(x, y)) <= 1', lambda: (mmax(mmax(x, y)) <= 1.0), 6,
         lambda m: [sum(m)]),
        ('max(x) <= 1', lambda: (mmax(x) <= 1.0), 3, lambda m: [sum(m)]),
        ('max(x, y) <= 0', lambda: (mmax(x, y) <= 0.0), 6,
         lambda m: [m[r] + m[3 + r] for r in range(3)])]
    for name, mk, rows, want in cases:
        c = mk()
        p = op(dot(matrix([1.0, 1.0, 1.0]), x), [c])
        lp, vmap, mmap = p._inmatrixform()
        ine = lp.inequalities()
        if len(ine) != 1 or len(ine[0]) != rows:
            fail('assembly', {'case': 'pwl multiplier ' + name,
                              'rows of G': [len(i) for i in ine],
                              'expected': rows})
            continue
        m = [float(3 * t + 1) for t in range(rows)]
        ine[0].multiplier.value = matrix(m)
        got = list(mmap[c].value())
        w = want(m)
        if len(got) != len(w) or any(abs(u - v) > 1e-12 for u, v in
                                     zip(got, w)):
            fail('assembly', {'case': 'pwl multiplier ' + name,
                              'multiplier of G*x <= h': m,
                              'mmap[c].value()': got, 'expected': w})


def check_pwl_objective():
    """piecewise-linear objectives with known optimal values (the epigraph
    conversion of the objective in _inmatrixform)"""
    from cvxopt import solvers
    from cvxopt.modeling import max as mmax, sum as msum
    solvers.options['show_progress'] = False
    x = variable(1, 'x')
    y = variable(3, 'y')
    v = matrix([1.0, 2.0, 3.0])
    cases = [
        ('|x-1| + |x+1|', lambda: op(mmax(x - 1, 1 - x) + mmax(x + 1, -x - 1)),
         2.0),
        ('sum(max(x, v)), x >= 0', lambda: op(msum(mmax(x, v)), [x >= 0]),
         6.0),
        ('sum(max(v, x)) + x, x >= -10', lambda: op(msum(mmax(v, x)) + x,
                                                    [x >= -10]), -4.0),
        ('max(y), y >= v', lambda: op(mmax(y), [y >= v]), 3.0),
        ('sum(max(y, -y)) + max(y - v), -1 <= y', lambda: op(
            msum(mmax(y, -y)) + mmax(y - v), [y >= -1]), -1.0),
        ('max(x, 2x, -x) + sum(max(y, 0)), y >= -v', lambda: op(
            mmax(x, 2 * x, -x) + msum(mmax(y, 0)), [y >= -v]), 0.0)]
    for name, mk, want in cases:
        for fmt in ('dense', 'sparse'):
            p = mk()
            try:
                p.solve(fmt)
            except Exception as e:
                fail('assembly', {'case': 'pwl objective ' + name,
                                  'format': fmt, 'raised': repr(e)})
                continue
            got = p.objective.value()
            if p.status != 'optimal' or got is None or abs(
                    got[0] - want) > 1e-5:
                fail('assembly', {'case': 'pwl objective ' + name,
                                  'format': fmt, 'status': p.status,
                                  'optimal value': None if got is None else
                                  got[0], 'expected': want})


def check_pwl_constraints():
    """piecewise-linear inequalities with known optimal values (the epigraph
    expansion constraint._aslinearineq), and the constraint is left alone"""
    from cvxopt import solvers
    from cvxopt.modeling import max as mmax, sum as msum
    solvers.options['show_progress'] = False
    x = variable(1, 'x')
    y = variable(3, 'y')
    u = variable(3, 'u')
    w2 = variable(2, 'w2')
    v = matrix([1.0, 2.0, 3.0])
    one = matrix(1.0, (1, 3))
    cases = [
        ('max(x, 2x-1) <= 1', lambda: op(-x, [mmax(x, 2 * x - 1) <= 1]),
         -1.0),
        ('y + max(u) <= 0, u >= v', lambda: op(-one * y, [
            y + mmax(u) <= 0, u >= v, y >= -10]), 9.0),
        ('x + max(u) <= 0, u >= v', lambda: op(-x, [x + mmax(u) <= 0,
                                                    u >= v]), 3.0),
        ('sum(max(y, x)) <= 9, y == v', lambda: op(-x, [
            msum(mmax(y, x)) <= 9, y == v]), -3.0),
        ('sum(max(x, y)) <= 9 (scalar argument first), y == v',
         lambda: op(-x, [msum(mmax(x, y)) <= 9, y == v]), -3.0),
        ('w2 + max(y) <= (10, 20), y == (1, 2, 5)', lambda: op(
            -matrix(1.0, (1, 2)) * w2, [w2 + mmax(y) <= matrix([10., 20.]),
                                        y == matrix([1., 2., 5.])]), -20.0),
        ('max(x, 0) + max(2x, 1) <= 4', lambda: op(-x, [
            mmax(x, 0) + mmax(2 * x, 1) <= 4]), -4.0 / 3),
        ('max(y, u, 0) <= v (vector)', lambda: op(-one * y - one * u, [
            mmax(y, u, 0) <= v]), -12.0),
        ('x + max(y) + sum(max(u, 0)) <= 1, y >= v, u >= -1',
         lambda: op(-x, [x + mmax(y) + msum(mmax(u, 0)) <= 1, y >= v,
                         u >= -1]), 2.0)]
    # constraints that are not convex (or, for equalities, not affine) are
    # refused when they are written down
    from cvxopt.modeling import min as mmin
    for name, mk in (('min(y, u) <= 1', lambda: mmin(y, u) <= 1),
                     ('0 <= max(y, u)', lambda: mmax(y, u) >= 0),
                     ('max(y, u) == 1', lambda: mmax(y, u) == 1),
                     ('-max(y) <= 0', lambda: -mmax(y) <= 0)):
        try:
            c = mk()
        except Exception:
            continue
        fail('assembly', {'case': 'constraint ' + name, 'accepted': True,
                          'type': c.type()})
    for name, mk, want in cases:
        for fmt in ('dense', 'sparse'):
            p = mk()
            before = [(c, sorted(id(t) for t in c.variables()))
                      for c in p.constraints()]
            try:
                p.solve(fmt)
            except Exception as e:
                fail('assembly', {'case': 'pwl constraint ' + name,
                                  'format': fmt, 'raised': repr(e)})
                continue
            got = p.objective.value()
            if p.status != 'optimal' or got is None or abs(
                    got[0] - want) > 1e-5:
                fail('assembly', {'case': 'pwl constraint ' + name,
                                  'format': fmt, 'status': p.status,
                                  'optimal value': None if got is None else
                                  got[0], 'expected': want})
            for c, vs in before:
                if sorted(id(t) for t in c.variables()) != vs:
                    fail('assembly', {'case': 'pwl constraint ' + name,
                                      'format': fmt, 'the constraint itself '
                                      'was modified': 'its variables were %d, '
                                      'are %d' % (len(vs), len(
                                          c.variables()))})


check_assembly()
try:
    check_pwl_constraints()
except Exception as e:
    fail('assembly', {'pwl constraint exception': repr(e)})
try:
    check_pwl_objective()
except Exception as e:
    fail('assembly', {'pwl objective exception': repr(e)})
try:
    check_pwl_multipliers()
except Exception as e:
    fail('assembly', {'pwl multiplier exception': repr(e)})
try:
    check_sparse_cost()
except Exception as e:
    fail('propagation', {'sparse cost exception': repr(e)})
try:
    check_propagation()
except Exception as e:
    fail('propagation', {'exception': repr(e)})
print('LP-JSON ' + json.dumps(fails))
