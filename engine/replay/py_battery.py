"""Replay battery for the Python-side properties.  Executed by /venv/bin/python
with the overlay build of the current tree first on sys.path.  It runs a
fixed set of small problems (and fault injections) against the REAL solvers
and evaluates oracles taken from the property statements.  Output: one JSON
line  BATTERY-JSON {oracle kind: [failure descriptions]}.

This is the run-time confirmation step for a refuted proof obligation: the
verifier's refutation names an obligation kind; the battery reports whether
the real code exhibits a failure of that kind.
"""
import sys, json, math, copy, traceback

from cvxopt import matrix, spmatrix, solvers, blas, misc, lapack
solvers.options['show_progress'] = False

FAIL = {}


def fail(kind, what):
    FAIL.setdefault(kind, [])
    fn = what.split('(')[0]
    if sum(1 for w in FAIL[kind] if w.split('(')[0] == fn) < 8:
        FAIL[kind].append(what)


# ------------------------------------------------------------------ problems
def lp1():
    c = matrix([-4., -5.])
    G = matrix([[2., 1., -1., 0.], [1., 2., 0., -1.]])
    h = matrix([3., 3., 0., 0.])
    return dict(c=c, G=G, h=h)


def lp_eq():
    c = matrix([1., 2., 0.])
    G = matrix([[-1., 0., 0.], [0., -1., 0.], [0., 0., -1.]])
    h = matrix([0., 0., 0.])
    A = matrix([[1.], [1.], [1.]])
    b = matrix([1.])
    return dict(c=c, G=G, h=h, A=A, b=b)


def lp_pinf():
    c = matrix([1., 1.])
    G = matrix([[1., -1.], [0., 0.]])
    h = matrix([-1., -1.])
    return dict(c=c, G=G, h=h)


def lp_dinf():
    c = matrix([-1., 0.])
    G = matrix([[-1., 0.], [0., -1.]])
    h = matrix([0., 0.])
    return dict(c=c, G=G, h=h)


def lp_dinf_eq():
    # unbounded with an equality constraint and a small cost vector
    c = matrix([-1e-3, -1e-3, 0.0])
    G = -matrix([[1., 0., 0.], [0., 1., 0.], [0., 0., 1.]])
    h = matrix([0., 0., 0.])
    A = matrix([[1.0], [-1.0], [1.0]])
    b = matrix([1.0])
    return dict(c=c, G=G, h=h, A=A, b=b)


def lp_pinf_eq():
    # infeasible: x1 + x2 = -1 with x >= 0
    c = matrix([1., 2.])
    G = -matrix([[1., 0.], [0., 1.]])
    h = matrix([0., 0.])
    A = matrix([[1.0], [1.0]])
    b = matrix([-1.0])
    return dict(c=c, G=G, h=h, A=A, b=b)


def socp1():
    c = matrix([-2., 1., 5.])
    G = matrix([[12., 13., 12., 3., 3., -1., 1.], [6., -3., -12., -6., 1.,
                                                    -2., 0.5],
                [-5., -5., 6., 10., 2., 0.1, 0.3]])
    h = matrix([-12., -3., -2., 27., 2., 4., 5.])
    return dict(c=c, G=G, h=h, dims={'l': 0, 'q': [3, 4], 's': []})


def sdp1():
    c = matrix([1., -1., 1.])
    G = matrix([[-7., -11., -11., 3.], [7., -18., -18., 8.],
                [-2., -8., -8., 1.]])
    h = matrix([33., -9., -9., 26.])
    return dict(c=c, G=G, h=h, dims={'l': 0, 'q': [], 's': [2]})


def sdp_mixed():
    c = matrix([-6., -4., -5.])
    G = matrix([[16., 7., 24., -8., 8., -1., 0., -1., 0., 0., 7., -5., 1.,
                 -5., 1., -7., 1., -7., -4.],
                [-14., 2., 7., -13., -18., 3., 0., 0., -1., 0., 3., 13., -6.,
                 13., 12., -10., -6., -10., -28.],
                [5., 0., -15., 12., -6., 17., 0., 0., 0., -1., 9., 6., -6.,
                 6., -7., -7., -6., -7., -11.]])
    h = matrix([-3., 5., 12., -2., -14., -13., 10., 0., 0., 0., 68., -30.,
                -19., -30., 99., 23., -19., 23., 10.])
    return dict(c=c, G=G, h=h, dims={'l': 2, 'q': [4, 4], 's': [3]})


def sdp_start_optimal():
    # DESIGN D4: the iteration-0 shortcut
    c = matrix([1.0])
    G = matrix([-2.0, -1.0, -1.0, -2.0], (4, 1))
    h = matrix(0.0, (4, 1))
    return dict(c=c, G=G, h=h, dims={'l': 0, 'q': [], 's': [2]})


def lp_start_optimal_tiny_feastol():
    G = matrix([1.1754405739463334, -1.4981499916829986, 1.5894240155331143,
                0.5907560864680043, -0.7372356526867146, -0.5327815819908444,
                -0.15279500250043745, -0.04132879962461721,
                -0.06498659724720895, -0.3524754647091015,
                -0.6312701141426611, 0.1379381927122794, 1.0557120976219219,
                -0.15000754983998416, -0.8493152002144123], (5, 3))
    h = matrix([0.4960836601001951, 2.0026552779539344, 3.3757411270498885,
                1.2633386009891512, -0.4105493365221612])
    A = matrix([-0.13413187990349076, 3.404210563630979,
                -0.5527660953068004], (1, 3))
    b = matrix([-0.7233734121907911])
    return dict(c=matrix(0.0, (3, 1)), G=G, h=h, A=A, b=b,
                options={'feastol': 1e-300, 'abstol': 1e-300,
                         'reltol': 1e-300})


CONELP = [('lp1', lp1), ('lp_eq', lp_eq), ('lp_pinf', lp_pinf),
          ('lp_dinf', lp_dinf), ('lp_dinf_eq', lp_dinf_eq),
          ('lp_pinf_eq', lp_pinf_eq), ('socp1', socp1), ('sdp1', sdp1),
          ('sdp_mixed', sdp_mixed), ('sdp_start_optimal', sdp_start_optimal),
          ('lp_start_optimal_tiny_feastol', lp_start_optimal_tiny_feastol)]


def qp1():
    P = 2 * matrix([[2., .5], [.5, 1.]])
    q = matrix([1., 1.])
    G = matrix([[-1., 0.], [0., -1.]])
    h = matrix([0., 0.])
    A = matrix([1., 1.], (1, 2))
    b = matrix(1.)
    return dict(P=P, q=q, G=G, h=h, A=A, b=b)


def qp_noineq():
    P = matrix([[2., .5], [.5, 1.]])
    q = matrix([1., -1.])
    A = matrix([1., 1.], (1, 2))
    b = matrix(1.)
    return dict(P=P, q=q, A=A, b=b)


def qp_noineq_illcond():
    P = matrix([103099919.92087688, 3.45174999112374e+21, -4744.087117053075,
                -22401.975565549852, 3.45174999112374e+21,
                1.1556340693927283e+35, -1.588304110880528e+17,
                -7.500104657586941e+17, -4744.087117053075,
                -1.588304110880528e+17, 0.21829660577293628,
                1.030814803334708, -22401.975565549852,
                -7.500104657586941e+17, 1.030814803334708, 4.86759358906032],
               (4, 4))
    q = matrix([0.0073890916548142475, 12.492022698250986,
                -1219.0415667915413, -0.0005720043184790182])
    return dict(P=P, q=q, kktsolver='ldl')


def qp_sdp():
    P = matrix([[1., 0.], [0., 1.]])
    q = matrix([1., 1.])
    G = matrix([[-1., 0., 0., -1.], [0., -1., -1., 0.]])
    h = matrix([1., 0., 0., 1.])
    return dict(P=P, q=q, G=G, h=h, dims={'l': 0, 'q': [], 's': [2]})


CONEQP = [('qp1', qp1), ('qp_noineq', qp_noineq),
          ('qp_noineq_illcond', qp_noineq_illcond), ('qp_sdp', qp_sdp)]


# -------------------------------------------------------------------- oracles
def snapshot(d):
    out = {}
    for k, v in d.items():
        if isinstance(v, (matrix, spmatrix)):
            out[k] = (v.size, v.typecode, list(v))
        elif isinstance(v, dict):
            out[k] = copy.deepcopy({kk: (list(vv) if isinstance(
                vv, matrix) else copy.deepcopy(vv)) for kk, vv in v.items()})
    return out


def sblocks(v, dims):
    ind = dims['l'] + sum(dims['q'])
    for m in dims['s']:
        yield ind, m
        ind += m * m


def check_symmetric(name, pname, sol, dims, key):
    v = sol.get(key)
    if v is None:
        return
    for ind, m in sblocks(v, dims):
        for i in range(m):
            for j in range(m):
                if v[ind + i + j * m] != v[ind + j + i * m]:
                    fail('symmetric-s-blocks', "%s(%s): result['%s'] 's' "
                         "block at %d not symmetric: [%d,%d]=%r [%d,%d]=%r"
                         % (name, pname, key, ind, i, j, v[ind + i + j * m],
                            j, i, v[ind + j + i * m]))
                    return


def check_relgap(fn, pname, sol):
    """documented definition of the relative gap, from the result's own
    fields"""
    g, rg = sol.get('gap'), sol.get('relative gap')
    po, do = sol.get('primal objective'), sol.get('dual objective')
    if g is None or po is None or do is None:
        return
    if po < 0.0:
        want = g / -po
    elif do > 0.0:
        want = g / do
    else:
        want = None
    ok = (want is None and rg is None) or (
        want is not None and rg is not None and
        abs(rg - want) <= 1e-9 * max(1.0, abs(want)))
    if not ok:
        fail('relgap-definition', "%s(%s): relative gap %r, but gap %r, "
             "primal objective %r, dual objective %r give %r" % (
                 fn, pname, rg, g, po, do, want))


def check_conelp_result(pname, prob, sol, opts):
    check_relgap('conelp', pname, sol)
    st = sol['status']
    feastol = opts.get('feastol', 1e-7)
    abstol = opts.get('abstol', 1e-7)
    reltol = opts.get('reltol', 1e-6)
    maxit = opts.get('maxiters', 100)
    G, h, c = prob['G'], prob['h'], prob['c']
    dims = prob.get('dims') or {'l': h.size[0], 'q': [], 's': []}
    if not (0 <= sol['iterations'] <= maxit):
        fail('iterations-bound', 'solver(%s): iterations %r > maxiters %r' % (
            pname, sol['iterations'], maxit))
    for key in ('s', 'z'):
        check_symmetric('conelp', pname, sol, dims, key)
    if st == 'optimal':
        p, d = sol['primal infeasibility'], sol['dual infeasibility']
        g, rg = sol['gap'], sol['relative gap']
        if not (p <= feastol and d <= feastol and (g <= abstol or (
                rg is not None and rg <= reltol))):
            fail('optimal-criteria', "conelp(%s): status optimal with primal "
                 "infeasibility %r, dual infeasibility %r, gap %r, relative "
                 "gap %r (feastol %r abstol %r reltol %r)" % (
                     pname, p, d, g, rg, feastol, abstol, reltol))
    from cvxopt import blas, base
    A_, b_ = prob.get('A'), prob.get('b')

    def nrm(v):
        return blas.nrm2(v) if v is not None and len(v) else 0.0
    if st == 'primal infeasible' and not dims['q'] and not dims['s']:
        # documented: ||G'z + A'y|| / ( -(h'z + b'y) * max(1, ||c||) )
        rx = matrix(0.0, c.size)
        base.gemv(G, sol['z'], rx, trans='T')
        den = -blas.dot(h, sol['z'])
        if A_ is not None:
            base.gemv(A_, sol['y'], rx, trans='T', beta=1.0)
            den -= blas.dot(b_, sol['y'])
        want = nrm(rx) / (den * max(1.0, nrm(c)))
        got = sol['residual as primal infeasibility certificate']
        if got is None or abs(got - want) > 1e-6 * max(1.0, want) + 1e-12:
            fail('certificate-definition', '%s: reported pinfres %r, '
                 'recomputed %r' % (pname, got, want))
    if st == 'dual infeasible' and not dims['q'] and not dims['s']:
        # documented: max( ||Gx + s|| / max(1,||h||), ||Ax|| / max(1,||b||) )
        #             / (-c'x)
        rz = matrix(sol['s'])
        base.gemv(G, sol['x'], rz, beta=1.0)
        t1 = nrm(rz) / max(1.0, nrm(h))
        t2 = 0.0
        if A_ is not None:
            ry = matrix(0.0, b_.size)
            base.gemv(A_, sol['x'], ry)
            t2 = nrm(ry) / max(1.0, nrm(b_))
        want = max(t1, t2) / -blas.dot(c, sol['x'])
        got = sol['residual as dual infeasibility certificate']
        if got is None or abs(got - want) > 1e-6 * max(1.0, want) + 1e-12:
            fail('certificate-definition', '%s: reported dinfres %r, '
                 'recomputed %r' % (pname, got, want))
    if st == 'primal infeasible':
        if sol['x'] is not None or sol['s'] is not None:
            fail('certificate-none-pattern', pname + ': x/s not None')
        r = sol['residual as primal infeasibility certificate']
        if not (r is not None and r <= feastol):
            fail('certificate-residual', '%s: %r' % (pname, r))
    if st == 'dual infeasible':
        if sol['y'] is not None or sol['z'] is not None:
            fail('certificate-none-pattern', pname + ': y/z not None')
        r = sol['residual as dual infeasibility certificate']
        if not (r is not None and r <= feastol):
            fail('certificate-residual', '%s: %r' % (pname, r))


def check_coneqp_result(pname, prob, sol, opts):
    check_relgap('coneqp', pname, sol)
    st = sol['status']
    feastol = opts.get('feastol', 1e-7)
    abstol = opts.get('abstol', 1e-7)
    reltol = opts.get('reltol', 1e-6)
    maxit = opts.get('maxiters', 100)
    if not (0 <= sol['iterations'] <= maxit):
        fail('iterations-bound', 'solver(%s): iterations %r > maxiters %r' % (
            pname, sol['iterations'], maxit))
    h = prob.get('h')
    dims = prob.get('dims') or {'l': h.size[0] if h is not None else 0,
                                'q': [], 's': []}
    for key in ('s', 'z'):
        check_symmetric('coneqp', pname, sol, dims, key)
    if st == 'optimal':
        p, d = sol['primal infeasibility'], sol['dual infeasibility']
        g, rg = sol['gap'], sol['relative gap']
        if not (p <= feastol and d <= feastol and (g <= abstol or (
                rg is not None and rg <= reltol))):
            fail('optimal-criteria', "coneqp(%s): status optimal with primal "
                 "infeasibility %r, dual infeasibility %r, gap %r, relative "
                 "gap %r (feastol %r)" % (pname, p, d, g, rg, feastol))


class Injector:
    """kktsolver wrapper raising ArithmeticError at the k-th factor or solve
    call (the property quantifies over every such index)"""

    def __init__(self, inner, fail_factor=None, fail_solve=None):
        self.inner = inner
        self.nf = 0
        self.ns = 0
        self.ff, self.fs = fail_factor, fail_solve

    def __call__(self, *args):
        self.nf += 1
        if self.ff is not None and self.nf == self.ff:
            raise ArithmeticError('injected factor failure')
        f = self.inner(*args)

        def solve(*a):
            self.ns += 1
            if self.fs is not None and self.ns == self.fs:
                raise ArithmeticError('injected solve failure')
            return f(*a)
        return solve


def run_conelp(pname, prob, extra_opts=None, inject=None):
    prob = dict(prob)
    opts = dict(prob.pop('options', {}))
    opts.update(extra_opts or {})
    opts['show_progress'] = False
    before = snapshot(prob)
    kw = dict(prob)
    inj = None
    if inject is not None:
        G, A = prob['G'], prob.get('A')
        dims = prob.get('dims') or {'l': prob['h'].size[0], 'q': [], 's': []}
        if A is None:
            A = spmatrix([], [], [], (0, prob['c'].size[0]))
        base = misc.kkt_ldl(G, dims, A)
        inj = Injector(base, *inject)
        kw['kktsolver'] = inj
    try:
        sol = solvers.conelp(options=opts, **kw)
    except (TypeError, ValueError) as e:
        return None, inj, e
    except BaseException as e:
        fail('exception-type', 'conelp(%s) inject=%r raised %s: %s' % (
            pname, inject, type(e).__name__, e))
        return None, inj, e
    after = snapshot(prob)
    if before != after:
        fail('frame', 'conelp(%s) modified its arguments' % pname)
    check_conelp_result(pname, prob, sol, opts)
    if inject is not None and sol['status'] == 'optimal' and inj is not None \
            and ((inj.ff is not None and inj.nf >= inj.ff) or (
                inj.fs is not None and inj.ns >= inj.fs)):
        fail('optimal-not-after-failure', "conelp(%s) inject=%r returned "
             "'optimal'" % (pname, inject))
    return sol, inj, None


def run_coneqp(pname, prob, extra_opts=None, inject=None):
    prob = dict(prob)
    opts = dict(prob.pop('options', {}))
    opts.update(extra_opts or {})
    opts['show_progress'] = False
    before = snapshot(prob)
    kw = dict(prob)
    inj = None
    if inject is not None:
        P, q = prob['P'], prob['q']
        G, A, h = prob.get('G'), prob.get('A'), prob.get('h')
        n = q.size[0]
        if G is None:
            G = spmatrix([], [], [], (0, n))
        if A is None:
            A = spmatrix([], [], [], (0, n))
        dims = prob.get('dims') or {'l': G.size[0], 'q': [], 's': []}
        fac = misc.kkt_ldl(G, dims, A)
        inj = Injector(lambda W: fac(W, P), *inject)
        kw['kktsolver'] = inj
    try:
        sol = solvers.coneqp(options=opts, **kw)
    except (TypeError, ValueError) as e:
        return None, inj, e
    except BaseException as e:
        fail('exception-type', 'coneqp(%s) inject=%r raised %s: %s' % (
            pname, inject, type(e).__name__, e))
        return None, inj, e
    after = snapshot(prob)
    if before != after:
        fail('frame', 'coneqp(%s) modified its arguments' % pname)
    check_coneqp_result(pname, prob, sol, opts)
    if inject is not None and sol['status'] == 'optimal' and inj is not None \
            and ((inj.ff is not None and inj.nf >= inj.ff) or (
                inj.fs is not None and inj.ns >= inj.fs)):
        fail('optimal-not-after-failure', "coneqp(%s) inject=%r returned "
             "'optimal'" % (pname, inject))
    return sol, inj, None


def wrappers():
    """lp / socp / sdp / qp: options flow, argument errors"""
    c = matrix([-2., 1., 5.])
    Gq = [matrix([[12., 13., 12.], [6., -3., -12.], [-5., -5., 6.]]),
          matrix([[3., 3., -1., 1.], [-6., 1., -2., 0.5],
                  [10., 2., 0.1, 0.3]])]
    hq = [matrix([-12., -3., -2.]), matrix([27., 2., 4., 5.])]
    for name, call in [
            ('lp', lambda o: solvers.lp(lp1()['c'], lp1()['G'], lp1()['h'],
                                        options=o)),
            ('socp', lambda o: solvers.socp(c, Gq=Gq, hq=hq, options=o)),
            ('sdp', lambda o: solvers.sdp(sdp1()['c'], Gs=[sdp1()['G']],
                                          hs=[matrix(sdp1()['h'], (2, 2))],
                                          options=o)),
            ('qp', lambda o: solvers.qp(qp1()['P'], qp1()['q'], qp1()['G'],
                                        qp1()['h'], options=o))]:
        try:
            sol = call({'maxiters': 1, 'show_progress': False})
            it = sol.get('iterations')
            if it is not None and it > 1:
                fail('options-flow', "%s(options={'maxiters': 1}) ran %r "
                     "iterations: the per-call options were not passed on"
                     % (name, it))
        except Exception as e:
            fail('options-flow', '%s(options=...) raised %r' % (name, e))
        try:
            call({'maxiters': -5, 'show_progress': False})
            fail('options-flow', "%s(options={'maxiters': -5}) was not "
                 "rejected" % name)
        except ValueError:
            pass
        except Exception as e:
            fail('exception-type', '%s(invalid option) raised %s' % (
                name, type(e).__name__))
    # argument errors must be TypeError/ValueError
    bad = [('sdp', lambda: solvers.sdp(matrix([1.0]), Gs=[matrix(
        0.0, (3, 1))], hs=[matrix(0.0, (2, 2))])),
        ('socp', lambda: solvers.socp(matrix([1.0]), Gq=[matrix(
            0.0, (3, 1))], hq=[matrix(0.0, (2, 1))])),
        ('lp', lambda: solvers.lp(matrix([1.0]), matrix(0.0, (2, 2)),
                                  matrix(0.0, (2, 1)))),
        ('qp', lambda: solvers.qp(matrix(1.0, (2, 2)), matrix([1.0])))]
    # non-vector y without b: documented ValueError
    yops = dict(ynewcopy=lambda y: list(y), ydot=lambda u, v: 0.0,
                yaxpy=lambda u, v, alpha=1.0: None,
                yscal=lambda a, u: None)
    opA = lambda u, v, alpha=1.0, beta=0.0, trans='N': None
    kkt = lambda *a: (lambda *b: None)

    def F(x=None, z=None):
        if x is None:
            return 0, matrix(0.0, (2, 1))
        return matrix(0.0, (0, 1)), matrix(0.0, (0, 2))
    bad += [('coneqp', lambda: solvers.coneqp(
        matrix([[1., 0.], [0., 1.]]), matrix([1., 1.]), A=opA, b=None,
        kktsolver=kkt, **yops)),
        ('cpl', lambda: solvers.cpl(matrix([1., 1.]), F, A=opA, b=None,
                                    kktsolver=kkt, **yops)),
        ('cp', lambda: solvers.cp(F, A=opA, b=None, kktsolver=kkt, **yops))]
    for name, call in bad:
        try:
            call()
        except (TypeError, ValueError):
            pass
        except BaseException as e:
            fail('exception-type', '%s(ill-formed arguments) raised %s: %s'
                 % (name, type(e).__name__, e))


def splits():
    """socp / sdp pieces are exactly the blocks of conelp's s and z"""
    import random
    random.seed(7)
    n = 3
    c = matrix([1.0, -0.5, 0.3])
    Gl = matrix([[1., 0.5], [0., 1.], [0.3, -1.]])
    hl = matrix([2.0, 3.0])
    # sdp with an 'l' block and two 's' blocks
    ms = [2, 3]
    Gs = [matrix([[random.uniform(-1, 1) for _ in range(m * m)]
                  for _ in range(n)]) for m in ms]
    for k, m in enumerate(ms):      # symmetrise the columns
        for j in range(n):
            M = matrix(Gs[k][:, j], (m, m))
            Gs[k][:, j] = ((M + M.T) / 2.0)[:]
    hs = [matrix(0.0, (m, m)) for m in ms]
    for k, m in enumerate(ms):
        hs[k][::m + 1] = 5.0
    try:
        sol = solvers.sdp(c, Gl, hl, Gs, hs)
        G = matrix([Gl] + Gs)
        h = matrix([hl] + [hk[:] for hk in hs])
        ref = solvers.conelp(c, G, h, {'l': 2, 'q': [], 's': ms})
        if sol['status'] == ref['status'] == 'optimal':
            off = 2
            if list(sol['zl']) != list(ref['z'][:2]) or list(sol['sl']) != \
                    list(ref['s'][:2]):
                fail('block-split', "sdp(l+s): sl/zl are not the 'l' block "
                     "of conelp's s/z")
            for k, m in enumerate(ms):
                if list(sol['zs'][k]) != list(ref['z'][off:off + m * m]) or \
                        list(sol['ss'][k]) != list(ref['s'][off:off + m * m]):
                    fail('block-split', "sdp(l+s): ss/zs[%d] is not block "
                         "%d of conelp's s/z" % (k, k))
                off += m * m
    except Exception as e:
        fail('battery-error', 'sdp split: %r' % e)
    # socp with an 'l' block and two 'q' blocks
    mq = [3, 4]
    Gq = [matrix([[random.uniform(-1, 1) for _ in range(m)]
                  for _ in range(n)]) for m in mq]
    hq = [matrix([6.0] + [0.0] * (m - 1)) for m in mq]
    try:
        sol = solvers.socp(c, Gl, hl, Gq, hq)
        G = matrix([Gl] + Gq)
        h = matrix([hl] + hq)
        ref = solvers.conelp(c, G, h, {'l': 2, 'q': mq, 's': []})
        if sol['status'] == ref['status'] == 'optimal':
            off = 2
            if list(sol['zl']) != list(ref['z'][:2]) or list(sol['sl']) != \
                    list(ref['s'][:2]):
                fail('block-split', "socp(l+q): sl/zl are not the 'l' "
                     "block of conelp's s/z")
            for k, m in enumerate(mq):
                if list(sol['zq'][k]) != list(ref['z'][off:off + m]) or \
                        list(sol['sq'][k]) != list(ref['s'][off:off + m]):
                    fail('block-split', "socp(l+q): sq/zq[%d] is not block "
                         "%d of conelp's s/z" % (k, k))
                off += m
    except Exception as e:
        fail('battery-error', 'socp split: %r' % e)


def cpl_runs():
    """a few convex programs through cp/cpl, stopped after 1..6 iterations
    and at convergence: relative-gap definition of every returned result"""
    from cvxopt import solvers, matrix, log, div, mul, spdiag, exp
    solvers.options['show_progress'] = False

    def acent():
        # minimize -sum log(1 - x_i^2) - like objective with linear constr.
        n = 3

        def F(x=None, z=None):
            if x is None:
                return 0, matrix(0.0, (n, 1))
            if max(abs(x)) >= 1.0:
                return None
            u = 1 - x**2
            val = -sum(log(u))
            Df = div(2 * x, u).T
            if z is None:
                return val, Df
            H = spdiag(2 * z[0] * div(1 + u**2 - u**2 + x**2, u**2))
            return val, Df, H
        G = matrix([[1.0, -1.0], [1.0, 0.0], [0.5, 1.0]])
        h = matrix([1.0, 2.0])
        return dict(F=F, G=G, h=h)

    def shifted(c0):
        # minimize (x-c0)^2 subject to x >= 1: optimal value (1-c0)^2 or 0
        def F(x=None, z=None):
            if x is None:
                return 0, matrix([3.0])
            val = (x[0] - c0)**2
            Df = matrix([[2 * (x[0] - c0)]])
            if z is None:
                return val, Df
            return val, Df, matrix([[2.0 * z[0]]])
        return dict(F=F, G=matrix([[-1.0]]), h=matrix([-1.0]))
    probs = [('acent', acent()), ('shift2', shifted(2.0)),
             ('shift0', shifted(0.0))]
    for pname, pr in probs:
        for mi in (1, 2, 3, 4, 6, 100):
            try:
                sol = solvers.cp(pr['F'], pr['G'], pr['h'],
                                 options={'maxiters': mi,
                                          'show_progress': False})
            except ArithmeticError:
                continue
            except Exception as e:
                fail('exception-type', 'cp(%s, maxiters=%d) raised %s: %s' %
                     (pname, mi, type(e).__name__, e))
                continue
            check_relgap('cpl', '%s maxiters=%d' % (pname, mi), sol)
    # a linear objective through cpl: c'x with a nonlinear constraint
    def Fq(x=None, z=None):
        if x is None:
            return 1, matrix([0.0, 0.0])
        f = matrix([x[0]**2 + x[1]**2 - 1.0])
        Df = matrix([[2 * x[0]], [2 * x[1]]])
        if z is None:
            return f, Df
        return f, Df, 2 * z[0] * matrix([[1.0, 0.0], [0.0, 1.0]])
    for cvec in ([1.0, 1.0], [-1.0, 0.0], [0.0, 0.0]):
        for mi in (1, 2, 3, 5, 100):
            try:
                sol = solvers.cpl(matrix(cvec), Fq,
                                  options={'maxiters': mi,
                                           'show_progress': False})
            except ArithmeticError:
                continue
            except Exception as e:
                fail('exception-type', 'cpl(%r, maxiters=%d) raised %s: %s'
                     % (cvec, mi, type(e).__name__, e))
                continue
            check_relgap('cpl', 'disk %r maxiters=%d' % (cvec, mi), sol)


def start_points():
    """a start point outside the cone must be refused with ValueError, also
    when it satisfies every other termination test"""
    from cvxopt import solvers, matrix
    solvers.options['show_progress'] = False
    # coneqp: minimize (1/2)x'x - x1  s.t. x >= 0 (2 variables)
    P = matrix([[1.0, 0.0], [0.0, 1.0]])
    q = matrix([-1.0, 0.0])
    G = -matrix([[1.0, 0.0], [0.0, 1.0]])
    h = matrix([0.0, 0.0])
    good = {'x': matrix([1.0, 1.0]), 's': matrix([1.0, 1.0]),
            'z': matrix([1.0, 1.0])}
    for key, bad in (('z', matrix([1.0, -0.5])), ('s', matrix([-1.0, 1.0])),
                     ('z', matrix([0.0, 1.0]))):
        iv = dict(good)
        iv[key] = bad
        try:
            sol = solvers.coneqp(P, q, G, h, initvals=iv)
            fail('start-point-validated', "coneqp(initvals['%s'] = %r) was "
                 "accepted (status %s)" % (key, list(bad), sol['status']))
        except ValueError:
            pass
        except Exception as e:
            fail('exception-type', 'coneqp(bad initvals) raised %s' %
                 type(e).__name__)
    # a z outside the cone at a point that meets the other tests
    iv = {'x': matrix([1.0, 0.5]), 's': matrix([1.0, 0.5]),
          'z': matrix([0.0, -0.5])}
    try:
        sol = solvers.coneqp(P, matrix([-1.0, -1.0]), G, h, initvals=iv)
        fail('start-point-validated', "coneqp(initvals z = [0,-0.5]) was "
             "accepted (status %s)" % sol['status'])
    except ValueError:
        pass
    c = matrix([1.0, 1.0])
    for ps, ds in (({'x': matrix([1.0, 1.0]), 's': matrix([-1.0, 1.0])},
                    None),
                   (None, {'z': matrix([1.0, -1.0])}),
                   ({'x': matrix([1.0, 1.0]), 's': matrix([1.0, 1.0])},
                    {'z': matrix([0.0, 1.0])})):
        try:
            sol = solvers.conelp(c, G, h, primalstart=ps, dualstart=ds)
            fail('start-point-validated', 'conelp(primalstart=%r, dualstart='
                 '%r) was accepted' % (ps and list(ps['s']),
                                       ds and list(ds['z'])))
        except ValueError:
            pass
        except Exception as e:
            fail('exception-type', 'conelp(bad start) raised %s' %
                 type(e).__name__)


def cpl_faults():
    """fault injection at every factor / solve index of cpl (through a user
    kktsolver that wraps misc.kkt_ldl): only the documented ValueError about
    the rank (start-up / first iteration) may leave the solver, and no
    'optimal' is returned after a contained failure"""
    from cvxopt import solvers, matrix, spmatrix, spdiag, log, misc
    solvers.options['show_progress'] = False

    def problems():
        # minimize c'x  s.t.  -sum log(x) <= 0,  x <= u
        for cvec, u in (([1.0, 2.0], 5.0), ([3.0, 1.0, 2.0], 4.0)):
            n = len(cvec)

            def F(x=None, z=None, n=n):
                if x is None:
                    return 1, matrix(2.0, (n, 1))
                if min(x) <= 0.0:
                    return None
                f = matrix(-sum(log(x)))
                Df = -(x**-1).T
                if z is None:
                    return f, Df
                return f, Df, spdiag(z[0] * x**-2)
            G = spmatrix(1.0, range(n), range(n))
            h = matrix(u, (n, 1))
            dims = {'l': n, 'q': [], 's': []}
            A = spmatrix([], [], [], (0, n))
            yield 'logbarrier%d' % n, matrix(cvec), F, G, h, dims, A

    for pname, c, F, G, h, dims, A in problems():
        def run(inject):
            fac = misc.kkt_ldl(G, dims, A, 1)

            def inner(x, z, W):
                f, Df, H = F(x, z)
                return fac(W, H, Df)
            inj = Injector(inner, *inject)
            try:
                sol = solvers.cpl(c, F, G, h, dims, kktsolver=inj,
                                  options={'show_progress': False})
            except ValueError as e:
                if inj.nf <= 1 and 'Rank' in str(e):
                    return inj        # documented, first factorization
                fail('exception-type', 'cpl(%s) inject=%r raised ValueError'
                     ' after the first factorization: %s' % (pname, inject,
                                                             e))
                return inj
            except Exception as e:
                fail('exception-type', 'cpl(%s) inject=%r raised %s: %s' % (
                    pname, inject, type(e).__name__, e))
                return inj
            return inj
        inj = run((None, None))
        nf, ns = inj.nf, inj.ns
        for k in range(1, min(nf, 14) + 1):
            run((k, None))
        for k in range(1, min(ns, 30) + 1):
            run((None, k))


def main():
    splits()
    try:
        cpl_faults()
    except Exception:
        fail('battery-error', 'cpl faults: ' + traceback.format_exc()[-600:])
    try:
        start_points()
    except Exception:
        fail('battery-error', 'start points: ' +
             traceback.format_exc()[-600:])
    try:
        cpl_runs()
    except Exception:
        fail('battery-error', 'cpl runs: ' + traceback.format_exc()[-600:])
    for pname, mk in CONELP:
        for eo in ({}, {'maxiters': 3}):
            run_conelp(pname, mk(), eo)
        # fault injection at every factor / solve index of the clean run
        sol, inj, err = run_conelp(pname, mk(), None, (None, None))
        if inj is not None:
            nf, ns = inj.nf, inj.ns
            for k in range(1, min(nf, 12) + 1):
                run_conelp(pname, mk(), None, (k, None))
            for k in range(1, min(ns, 40) + 1):
                run_conelp(pname, mk(), None, (None, k))
    for pname, mk in CONEQP:
        for eo in ({}, {'maxiters': 3}):
            run_coneqp(pname, mk(), eo)
        if 'kktsolver' in mk():
            continue
        sol, inj, err = run_coneqp(pname, mk(), None, (None, None))
        if inj is not None:
            nf, ns = inj.nf, inj.ns
            for k in range(1, min(nf, 12) + 1):
                run_coneqp(pname, mk(), None, (k, None))
            for k in range(1, min(ns, 40) + 1):
                run_coneqp(pname, mk(), None, (None, k))
    wrappers()
    extra = sys.argv[1:]
    for mod in extra:
        try:
            m = __import__(mod)
            m.run(fail)
        except Exception:
            fail('battery-error', traceback.format_exc()[-800:])
    print('BATTERY-JSON ' + json.dumps(FAIL))


if __name__ == '__main__':
    main()
