"""Runs one of the replay batteries (engine/replay/*_battery.py) on an overlay
build of the CURRENT tree and returns what it printed after its marker."""
import os, json, subprocess, tempfile, shutil

ROOT = os.path.dirname(os.path.dirname(os.path.dirname(
    os.path.abspath(__file__))))

BATTERIES = {
    'kernel': ('engine/replay/kernel_battery.py', 'KERNEL-JSON '),
    'mps': ('engine/replay/mps_battery.py', 'MPS-JSON '),
    'lp': ('engine/replay/lp_battery.py', 'LP-JSON '),
    'expr': ('engine/replay/expr_battery.py', 'EXPR-JSON '),
    'sparse_index': ('engine/replay/sparse_index_battery.py', 'SPIDX-JSON '),
    'sparse_gemv': ('engine/replay/sparse_gemv_battery.py', 'SPGEMV-JSON '),
}


def run(name, timeout=900):
    """-> (result dict or None, error string or None)"""
    from engine import overlay
    script, marker = BATTERIES[name]
    d = tempfile.mkdtemp(prefix='cvxverif-bat-')
    try:
        ok, log = overlay.build(d)
        if not ok:
            return None, 'overlay build failed: ' + log[-1500:]
        env = dict(os.environ)
        env['PYTHONPATH'] = d
        env['CVXOPT_VERIF'] = '1'
        p = subprocess.run(['/venv/bin/python', os.path.join(ROOT, script)],
                           capture_output=True, text=True, timeout=timeout,
                           env=env, cwd=d)
        for line in p.stdout.splitlines():
            if line.startswith(marker):
                return json.loads(line[len(marker):]), None
        return None, 'battery produced no result (exit %s): %s' % (
            p.returncode, (p.stderr or p.stdout)[-1500:])
    except Exception as e:
        return None, repr(e)
    finally:
        shutil.rmtree(d, ignore_errors=True)
