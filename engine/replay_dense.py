"""Replay of dense.c counterexamples on the real extension (overlay build of
the current tree; UBSan build for integer conversions/overflow)."""
from engine import replay_c


def script_for(ob, meta):
    m = ob.model or {}
    fn = meta['fn']

    def shape(name, dr=2, dc=2):
        r = max(0, min(m.get(name + '.nrows', dr), 4096))
        c = max(0, min(m.get(name + '.ncols', dc), 4096))
        return r, c
    tc = {0: 'i', 1: 'd', 2: 'z'}.get(m.get('self.id', 1), 'd')
    if fn == 'matrix_subscr':
        r, c = shape('self')
        i = m.get('pyint(arg0)')
        j = m.get('pyint(arg1)')
        if i is None or j is None:
            i, j = 2**32, 0
        return ("A = matrix(range(%d), (%d,%d), 'd')\n"
                "r = A[%d, %d]\n"
                "print('RESULT accepted', r)\n" % (max(r * c, 0), r, c, i, j),
                'accept')
    if fn == 'matrix_set_size':
        r, c = shape('self', 0, 1)
        a = m.get('pyint(value[0])', 65536)
        b = m.get('pyint(value[1])', 65536)
        return ("A = matrix(0.0, (%d,%d))\n"
                "A.size = (%d, %d)\n"
                "print('RESULT accepted', A.size, len(A))\n"
                "assert A.size[0]*A.size[1] == %d, 'element count changed'\n"
                % (r, c, a, b, r * c), 'accept')
    if fn == 'matrix_rem_generic':
        return ("A = matrix([1, 2, 3, 4], (2,2), 'i')\n"
                "mv = memoryview(A)\n"
                "tc0 = A.typecode\n"
                "A %= 2.5\n"
                "print('RESULT typecode', tc0, '->', A.typecode)\n"
                "assert A.typecode == tc0, 'in-place %= changed the "
                "typecode (and replaced an exported buffer)'\n", 'assert')
    if fn == 'matrix_buffer_getbuf':
        return ("A = matrix(0.0, (2**27, 1), 'z')\n"
                "mv = memoryview(A)\n"
                "print('RESULT nbytes', mv.nbytes)\n"
                "assert mv.nbytes == 16 * 2**27, 'view->len wrong'\n",
                'assert')
    return None, None


def replay_obligation(ob, meta, base, envs):
    code, mode = script_for(ob, meta)
    if code is None:
        return False, {'reason': 'no replay recipe for %s' % meta.get('fn')}
    flavour = 'ubsan' if ob.kind == 'nooverflow' else 'plain-noshim'
    if flavour not in envs:
        envs[flavour] = replay_c.Env(ubsan=(flavour == 'ubsan'),
                                     interpose=False)
    env = envs[flavour]
    res = env.call({'code': 'from cvxopt import matrix\n' + code})
    info = {'script': code, 'result': {k: v for k, v in res.items()
                                       if k != 'stderr'},
            'stderr_tail': res.get('stderr', '')[-1200:]}
    if ob.kind == 'nooverflow':
        hits = [l for l in res.get('ubsan', []) if 'dense.c:' in l]
        exact = [l for l in hits if ':%s:' % meta.get('line') in l]
        info['ubsan'] = hits
        return bool(exact), info
    exc = res.get('exception')
    if mode == 'accept':
        return exc is None and res.get('returncode') == 0, info
    return exc == 'AssertionError' or bool(res.get('signal')), info
