"""Replay of dense.c counterexamples on the real extension (overlay build of
the current tree; UBSan build for integer conversions/overflow)."""
from engine import replay_c


def script_for(ob, meta):
    m = ob.model or {}
    fn = meta['fn']

    def shape(name, dr=2, dc=2):
        r = max(0, min(m.get(name + '.nrows', dr), 4096))
        c = max(0, min(m.get(name + '.ncols', dc), 4096))
        return r, c
    tc = {0: 'i', 1: 'd', 2: 'z'}.get(m.get('self.id', 1), 'd')
    if fn in ('matrix_ass_subscr', 'matrix_ass_subscr_noalias') and \
            ob.kind == 'nooverflow' and ('rowstep' in ob.text or
                                         'colstep' in ob.text):
        return ("A = matrix(range(6), (2,3), 'd')\n"
                "A[::2**40, ::2**40] = matrix(7.0, (1,1))\n"
                "print('RESULT', list(A))\n", 'ubsan')
    if fn == 'matrix_subscr' and ob.kind == 'nooverflow' and (
            'rowstep' in ob.text or 'colstep' in ob.text):
        return ("A = matrix(range(6), (2,3), 'd')\n"
                "B = A[::2**40, ::2**40]\n"
                "print('RESULT', B.size, list(B))\n", 'ubsan')
    if fn in ('matrix_ass_subscr', 'matrix_ass_subscr_noalias',
              'matrix_subscr') and ob.kind == 'nooverflow' and \
            'MAT_LGT(Il)*MAT_LGT' in ob.text:
        return ("A = matrix(0.0, (2,2))\n"
                "try:\n"
                "    A[[0]*65536, [0]*65536] = [1.0]\n"
                "except TypeError as e:\n"
                "    print('RESULT', e)\n", 'ubsan')
    if fn in ('matrix_ass_subscr', 'matrix_ass_subscr_noalias') and \
            ob.kind == 'frame':
        return ('''
bad = []
for tc in 'idz':
    A = matrix(0, (4, 5), tc)
    for shape in ((3, 2), (6, 1), (1, 6), (2, 3)):
        B = matrix(1, shape, tc)
        try:
            A[0:2, 1:4] = B
        except TypeError:
            pass
        if B.size != shape:
            bad.append((tc, shape, B.size))
print('RESULT', bad[:5])
assert not bad, 'A[r,c] = B changed B: %r' % (bad[:4],)
''', 'assert')
    if fn in ('matrix_ass_subscr', 'matrix_ass_subscr_noalias') and \
            ob.kind == 'extern-requires':
        return ("A = matrix([1, 0] + [0]*6)\n"
                "A[A] = 1000000\n"
                "B = matrix([1, 0, 1, 0, 1, 0], (3,2))\n"
                "B[B[:3], 0] = 1000000\n"
                "print('RESULT done')\n", 'valgrind')
    if fn in ('matrix_ass_subscr', 'matrix_ass_subscr_noalias',
              'matrix_subscr') and ob.kind in ('footprint', 'index-address') \
            and (fn != 'matrix_subscr' or 'pyint(arg0)' not in m):
        # oracle: the documented element, and only it, is read / written
        return ('''
def wrap(i, m): return i if i >= 0 else m + i
bad = []
for (r, c) in ((2, 5), (5, 2), (1, 3), (3, 1)):
    for i in range(-r, r):
        for j in range(-c, c):
            want = wrap(i, r) + wrap(j, c) * r
            for form in ('int', 'list', 'matrix', 'mixed'):
                A = matrix(0.0, (r, c))
                I = {'int': i, 'list': [i], 'matrix': matrix([i]),
                     'mixed': [i]}[form]
                J = {'int': j, 'list': [j], 'matrix': matrix([j]),
                     'mixed': j}[form]
                for rhs in (7.0, matrix([7.0])):
                    A = matrix(0.0, (r, c))
                    A[I, J] = rhs
                    got = [k for k in range(r * c) if A[k] != 0.0]
                    if got != [want]:
                        bad.append(('set', (r, c), form, i, j, got, want))
                B = matrix([float(k) for k in range(r * c)], (r, c))
                v = B[I, J]
                v = v if isinstance(v, float) else v[0]
                if v != float(want):
                    bad.append(('get', (r, c), form, i, j, v, want))
    n = r * c
    for k in range(-n, n):
        for K in (k, [k], matrix([k])):
            A = matrix(0.0, (r, c))
            A[K] = 7.0
            got = [q for q in range(n) if A[q] != 0.0]
            if got != [wrap(k, n)]:
                bad.append(('set1', (r, c), k, got))
print('RESULT', bad[:5])
assert not bad, 'indexed access touched another element: %r' % (bad[:3],)
''', 'assert')
    if fn == 'matrix_subscr':
        r, c = shape('self')
        i = m.get('pyint(arg0)')
        j = m.get('pyint(arg1)')
        if i is None or j is None:
            i, j = 2**32, 0
        return ("A = matrix(range(%d), (%d,%d), 'd')\n"
                "r = A[%d, %d]\n"
                "print('RESULT accepted', r)\n" % (max(r * c, 0), r, c, i, j),
                'accept')
    if fn == 'matrix_set_size':
        r, c = shape('self', 0, 1)
        a = m.get('pyint(value[0])', 65536)
        b = m.get('pyint(value[1])', 65536)
        return ("A = matrix(0.0, (%d,%d))\n"
                "A.size = (%d, %d)\n"
                "print('RESULT accepted', A.size, len(A))\n"
                "assert A.size[0]*A.size[1] == %d, 'element count changed'\n"
                % (r, c, a, b, r * c), 'accept')
    if fn in ('matrix_add_generic', 'matrix_sub_generic',
              'matrix_mul_generic', 'matrix_div_generic') and ob.kind in (
                  'inplace-type-rule', 'kernel-typecode', 'shape-rule'):
        return ('''
import operator
RANK = {'i': 0, 'd': 1, 'z': 2}
VAL = {'i': [-4, -2, 0, 2, 4, 6], 'd': [-4.5, -2.0, 0.5, 2.0, 4.0, 6.5],
       'z': [-4+1j, -2j, 0.5, 2+2j, 4, 6.5-1j]}
SC = {'i': 2, 'd': 2.5, 'z': 2+1j}
bad = []
ops = {'+': (operator.add, operator.iadd), '-': (operator.sub, operator.isub),
       '*': (operator.mul, operator.imul),
       '/': (operator.truediv, operator.itruediv)}
for sym, (bop, iop) in ops.items():
    for ta in 'idz':
        for tb in 'idz':
            for other in ('scalar', '1x1', 'same', 'reshaped'):
                if other in ('same', 'reshaped') and sym in '*/':
                    continue
                A = matrix(VAL[ta], (2, 3), ta)
                B = {'scalar': SC[tb], '1x1': matrix([SC[tb]], (1, 1), tb),
                     'same': matrix(VAL[tb], (2, 3), tb),
                     'reshaped': matrix(VAL[tb], (3, 2), tb)}[other]
                rt = max(RANK[ta], RANK[tb], 1 if sym == '/' else 0)
                legal_shape = other != 'reshaped'
                # binary form
                try:
                    R = bop(A, B)
                    if not legal_shape:
                        bad.append((sym, ta, tb, other, 'accepted'))
                    elif RANK[R.typecode] != rt or R.size != A.size:
                        bad.append((sym, ta, tb, other, R.typecode, R.size))
                except TypeError:
                    if legal_shape:
                        bad.append((sym, ta, tb, other, 'TypeError'))
                # in-place form: allowed exactly when the type stays
                A = matrix(VAL[ta], (2, 3), ta)
                keep = list(A)
                try:
                    A2 = iop(A, B)
                    if rt != RANK[ta] or not legal_shape:
                        bad.append((sym + '=', ta, tb, other, 'accepted',
                                    list(A)))
                    elif A2 is not A or A.typecode != ta:
                        bad.append((sym + '=', ta, tb, other, 'not in place'))
                    else:
                        bl = list(B) if other in ('same',) else None
                        for k in range(6):
                            b = bl[k] if bl else SC[tb]
                            want = bop(keep[k], b)
                            if ta == 'i' and sym == '/':
                                continue
                            if abs(A[k] - want) > 1e-9:
                                bad.append((sym + '=', ta, tb, other, k,
                                            A[k], want))
                                break
                except TypeError:
                    if rt == RANK[ta] and legal_shape:
                        bad.append((sym + '=', ta, tb, other, 'TypeError'))
                    elif list(A) != keep:
                        bad.append((sym + '=', ta, tb, other, 'modified'))
print('RESULT', bad[:5])
assert not bad, 'operator rules violated: %r' % (bad[:4],)
''', 'assert')
    if fn == 'matrix_rem_generic':
        return ("A = matrix([1, 2, 3, 4], (2,2), 'i')\n"
                "mv = memoryview(A)\n"
                "tc0 = A.typecode\n"
                "A %= 2.5\n"
                "print('RESULT typecode', tc0, '->', A.typecode)\n"
                "assert A.typecode == tc0, 'in-place %= changed the "
                "typecode (and replaced an exported buffer)'\n", 'assert')
    if fn == 'matrix_buffer_getbuf':
        return ("A = matrix(0.0, (2**27, 1), 'z')\n"
                "mv = memoryview(A)\n"
                "print('RESULT nbytes', mv.nbytes)\n"
                "assert mv.nbytes == 16 * 2**27, 'view->len wrong'\n",
                'assert')
    if fn == 'Matrix_NewFromPyBuffer' and ob.kind == 'nooverflow':
        # an explicit (int) cast of a Py_ssize_t extent: not reported by the
        # sanitizer; the oracle is the size of the result
        shp = '(1, n)' if 'shape[1]' in ob.text else '(n,)'
        return ("n = 2**32 + 5\n"
                "mv = memoryview(bytearray(4 * n)).cast('i', %s)\n"
                "try:\n"
                "    A = matrix(mv)\n"
                "except Exception as e:\n"
                "    print('RESULT', type(e).__name__, e)\n"
                "else:\n"
                "    print('RESULT size', A.size)\n"
                "    assert len(A) == n, 'matrix(buffer of %%d elements) has "
                "%%d elements' %% (n, len(A))\n" % shp, 'assert')
    if fn == 'Matrix_NewFromPyBuffer':
        return ('''
from array import array
bad = []
for code, tc in (('d', 'd'), ('l', 'i'), ('i', 'i')):
    base = array(code, range(24))
    mv = memoryview(base)
    views = [mv, mv[::2], mv[1::3], mv[5::-1], mv[6:0:-2]]
    m2 = mv.cast('B').cast(code, (4, 6))
    views += [m2]
    for v in views:
        A = matrix(v)
        want = v.tolist()
        if v.ndim == 1:
            ok = A.size == (len(want), 1) and list(A) == [
                (float(x) if tc == 'd' else x) for x in want]
        else:
            ok = A.size == v.shape and all(
                A[i, j] == want[i][j] for i in range(v.shape[0])
                for j in range(v.shape[1]))
        if not ok or A.typecode != tc:
            bad.append((code, v.shape, v.strides, A.size, list(A)[:6]))
print('RESULT', bad[:3])
assert not bad, 'matrix(buffer) does not reproduce the exporter: %r' % (
    bad[:2],)
''', 'assert')
    if fn == 'create_indexlist':
        return ('''
bad = []
A = matrix(range(12), (3, 4), 'd')
cases = [matrix([0, 1, 2, 400], (2, 2)), matrix([0, -500], (1, 2)),
         matrix([0, 12], (2, 1)), [0, 12], [-13], 12, -13,
         matrix([0, 1, 11, -12], (2, 2))]
for I in cases:
    ok_ = all(-12 <= int(e) < 12 for e in (I if not isinstance(I, int)
                                           else [I]))
    for op in ('get', 'set'):
        B = matrix(A)
        try:
            if op == 'get':
                B[I]
            else:
                B[I] = 1.0
            if not ok_:
                bad.append((op, repr(I)[:40], 'accepted'))
        except IndexError:
            if ok_:
                bad.append((op, repr(I)[:40], 'IndexError'))
print('RESULT', bad[:5])
assert not bad, 'index lists: %r' % (bad[:4],)
''', 'assert')
    if fn == 'matrix_new':
        return ('''
bad = []
for size in ((2**32 + 1, 1), (1, 2**32 + 1), (2**32, 0), (0, 2**32 + 3)):
    for x in (1.0, [], [1.0]):
        try:
            A = matrix(x, size)
        except (TypeError, OverflowError, ValueError, MemoryError):
            continue
        if A.size != size:
            bad.append((repr(x), size, A.size))
print('RESULT', bad[:5])
assert not bad, 'matrix(x, size) returned another size: %r' % (bad[:4],)
''', 'assert')
    if fn == 'dense_concat':
        return ('''
RANK = {'i': 0, 'd': 1, 'z': 2}
bad = []
blocks = {'i': [1, matrix([2, 3])], 'd': [1.5, matrix([2.5, 3.5])],
          'z': [1j, matrix([2j, 3.5])]}
for tb, items in blocks.items():
    for tc in 'idz':
        for L in (items, [items, items]):
            try:
                A = matrix(L, tc=tc)
                if RANK[tc] < RANK[tb] or A.typecode != tc:
                    bad.append((tb, tc, A.typecode))
            except TypeError:
                if RANK[tc] >= RANK[tb]:
                    bad.append((tb, tc, 'TypeError'))
print('RESULT', bad[:5])
assert not bad, 'matrix(blocks, tc=) typecode rule: %r' % (bad[:4],)
''', 'assert')
    if fn == 'Matrix_NewFromSequence' and ob.kind == 'nooverflow':
        return ("x = [0] * (2**31 + 3)\n"
                "try:\n"
                "    A = matrix(x)\n"
                "    print('RESULT size', A.size)\n"
                "except Exception as e:\n"
                "    print('RESULT', type(e).__name__, e)\n", 'ubsan')
    if fn == 'Matrix_NewFromSequence':
        return ('''
import pickle, copy
bad = []
for tc in 'idz':
    for size in ((0, 0), (0, 3), (2, 0), (2, 2)):
        A = matrix([], size, tc) if 0 in size else matrix(1, size, tc)
        for B in (pickle.loads(pickle.dumps(A)), copy.copy(A),
                  copy.deepcopy(A)):
            if B.typecode != tc or B.size != A.size:
                bad.append((tc, size, B.typecode, B.size))
    L = matrix([1, 2, 3], tc=tc)
    if L.typecode != tc or L.size != (3, 1):
        bad.append(('list', tc, L.typecode, L.size))
print('RESULT', bad[:5])
assert not bad, 'constructor from a sequence lost size or typecode: %r' % (
    bad[:3],)
''', 'assert')
    return None, None


def replay_obligation(ob, meta, base, envs):
    code, mode = script_for(ob, meta)
    if code is None:
        return False, {'reason': 'no replay recipe for %s' % meta.get('fn')}
    flavour = 'ubsan' if ob.kind == 'nooverflow' else 'plain-noshim'
    if flavour not in envs:
        envs[flavour] = replay_c.Env(ubsan=(flavour == 'ubsan'),
                                     interpose=False)
    env = envs[flavour]
    res = env.call({'code': 'from cvxopt import matrix\n' + code},
                   valgrind=(mode == 'valgrind'))
    info = {'script': code, 'result': {k: v for k, v in res.items()
                                       if k != 'stderr'},
            'stderr_tail': res.get('stderr', '')[-1200:]}
    if mode == 'valgrind':
        info['valgrind'] = res.get('valgrind')
        return bool(res.get('valgrind')) or bool(res.get('signal')), info
    if ob.kind == 'nooverflow' and mode != 'assert':
        hits = [l for l in res.get('ubsan', []) if 'dense.c:' in l]
        lo = meta.get('line_start') or meta.get('line') or 0
        hi = max(meta.get('line_end') or 0, meta.get('line') or 0)
        exact = [l for l in hits if any(':%s:' % x in l
                                        for x in range(lo, hi + 1))]
        info['ubsan'] = hits
        return bool(exact), info
    exc = res.get('exception')
    if mode == 'accept':
        return exc is None and res.get('returncode') == 0, info
    return exc == 'AssertionError' or bool(res.get('signal')), info
