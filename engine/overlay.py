"""Overlay build of /repo's current working tree for replays (DESIGN 2.7).

build(dest) compiles base/blas/lapack/misc_solvers from REPO/src/C with gcc
against the system libblas/liblapack, copies REPO/src/python/*.py, and borrows
the extension modules that cannot be rebuilt here (no SuiteSparse/GLPK/DSDP/
GSL/FFTW headers) from the installed wheel.  Run replays with
    PYTHONPATH=<dest> /venv/bin/python script.py
"""
import os, shutil, subprocess, sys, glob, hashlib, concurrent.futures as cf

REPO = os.environ.get('VERIF_REPO', '/repo')
WHEEL = '/venv/lib/python3.12/site-packages'
PYINC = '/root/.pyenv/versions/3.12.1/include/python3.12'
SUFFIX = '.cpython-312-x86_64-linux-gnu.so'
REBUILT = {
    'base': ['base.c', 'dense.c', 'sparse.c'],
    'blas': ['blas.c'],
    'lapack': ['lapack.c'],
    'misc_solvers': ['misc_solvers.c'],
}
BORROWED = ['amd', 'cholmod', 'umfpack', 'glpk', 'dsdp', 'gsl', 'fftw']


def _cc(args):
    p = subprocess.run(args, capture_output=True, text=True)
    return p.returncode, p.stdout + p.stderr


def build(dest, repo=None, opt='-O1', quiet=True):
    """Returns (ok, log)."""
    repo = repo or REPO
    pk = os.path.join(dest, 'cvxopt')
    os.makedirs(pk, exist_ok=True)
    for f in glob.glob(os.path.join(repo, 'src/python/*.py')):
        shutil.copy(f, pk)
    jobs = []
    for mod, srcs in REBUILT.items():
        out = os.path.join(pk, mod + SUFFIX)
        args = ['gcc', '-shared', '-fPIC', opt, '-w', '-I', PYINC,
                '-I', os.path.join(repo, 'src/C')]
        args += [os.path.join(repo, 'src/C', s) for s in srcs]
        args += ['-o', out, '-llapack', '-lblas', '-lm']
        jobs.append(args)
    log = []
    ok = True
    with cf.ThreadPoolExecutor(4) as ex:
        for rc, out in ex.map(_cc, jobs):
            log.append(out)
            ok = ok and rc == 0
    for mod in BORROWED:
        src = os.path.join(WHEEL, 'cvxopt', mod + SUFFIX)
        if os.path.exists(src):
            shutil.copy(src, pk)
    libs = os.path.join(dest, 'cvxopt.libs')
    if not os.path.exists(libs):
        os.symlink(os.path.join(WHEEL, 'cvxopt.libs'), libs)
    return ok, '\n'.join(log)


def run(dest, script, timeout=120, env=None):
    e = dict(os.environ)
    e['PYTHONPATH'] = dest
    e['CVXOPT_VERIF'] = '1'
    if env:
        e.update(env)
    p = subprocess.run(['/venv/bin/python', script], capture_output=True,
                       text=True, timeout=timeout, env=e)
    return p.returncode, p.stdout, p.stderr


if __name__ == '__main__':
    d = sys.argv[1]
    ok, log = build(d)
    print('ok' if ok else 'FAILED')
    if not ok:
        print(log)
    sys.exit(0 if ok else 1)
