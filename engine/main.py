import sys, os, argparse, importlib, traceback
ROOT = os.path.dirname(os.path.dirname(os.path.abspath(__file__)))
sys.path.insert(0, ROOT)
from engine.verdict import Report


def main():
    ap = argparse.ArgumentParser()
    sub = ap.add_subparsers(dest='cmd')
    c = sub.add_parser('check')
    c.add_argument('prop')
    c.add_argument('--tier', default=os.environ.get('VERIF_TIER', 'quick'))
    r = sub.add_parser('replay')
    r.add_argument('path')
    s = sub.add_parser('selftest')
    s.add_argument('props', nargs='*')
    s.add_argument('--seeds', action='store_true')
    a = ap.parse_args()
    if a.cmd == 'check':
        seed = int(os.environ.get('VERIF_SEED', '0') or 0)
        tier = a.tier if a.tier in ('quick', 'thorough') else 'quick'
        if tier == 'thorough':
            os.environ['VERIF_CROSSCHECK'] = '1'
        rep = Report(a.prop, tier, seed,
                     checker_cmd='./vf check %s --tier %s' % (a.prop, tier))
        try:
            mod = importlib.import_module('engine.checks.' + a.prop.lower())
            mod.run(rep, tier, seed)
        except Exception:
            rep.error('check crashed: ' + traceback.format_exc()[-1500:])
        sys.exit(rep.finish())
    if a.cmd == 'replay':
        from engine import replay
        sys.exit(replay.run_file(a.path))
    if a.cmd == 'selftest':
        from engine import selftest
        sys.exit(selftest.main(a.props + (['--seeds'] if a.seeds else [])))
    ap.print_help()
    sys.exit(3)


if __name__ == '__main__':
    main()
