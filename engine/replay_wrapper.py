"""Turns a verifier counterexample for a BLAS/LAPACK-style wrapper into a call
of the real wrapper (overlay build of the current tree) and decides, with an
oracle taken from the property statement, whether the real code misbehaves."""
import json, z3
from engine import replay_c

TC = {0: 'i', 1: 'd', 2: 'z'}


def make_call(module, func, params, mats, model, fill=None):
    """params: [(name, code, optional)]; fill: {matrix name: value} gives
    every element of that integer matrix the value"""
    args, kwargs = [], {}
    seed = 1
    for (name, code, opt) in params:
        if code == 'O':
            ism = model.get('ismat(%s)' % name)
            if opt and model.get('given(%s)' % name) is False:
                continue
            if model.get('issp(%s)' % name) is True and ism is not True:
                v = {'kind': 'spmatrix', 'name': name,
                     'nrows': max(0, model.get(name + '.obj.nrows', 1)),
                     'ncols': max(0, model.get(name + '.obj.ncols', 1)),
                     'tc': TC.get(model.get(name + '.obj.id', 1), 'd')}
            elif name in mats or (ism is True and name not in (
                    'alpha', 'beta')):
                if ism is False:
                    v = {'kind': 'none'}
                else:
                    v = {'kind': 'matrix', 'name': name,
                         'nrows': max(0, model.get(name + '.nrows', 1)),
                         'ncols': max(0, model.get(name + '.ncols', 1)),
                         'tc': TC.get(model.get(name + '.id', 1), 'd'),
                         'seed': seed}
                    seed += 100
                    if fill and name in fill:
                        v['fill'] = fill[name]
                    es = 16 if v['tc'] == 'z' else 8
                    if v['nrows'] * v['ncols'] > 2000000:
                        # zero-filled, contents not compared
                        v['big'] = True
                    if v['nrows'] * v['ncols'] * es > 40 * 2**30:
                        return None
            else:
                if opt and not model.get('given(%s)' % name, False):
                    continue
                if model.get('isreal(%s)' % name, True):
                    v = {'kind': 'float', 'value': 2.0}
                elif model.get('iscplx(%s)' % name, True):
                    v = {'kind': 'complex', 'value': [2.0, 1.0]}
                else:
                    v = {'kind': 'none'}
        elif code in ('i', 'n', 'l'):
            if name not in model and opt:
                continue
            v = {'kind': 'int', 'value': model.get(name, 0)}
        elif code in ('c', 'C'):
            if name not in model and opt:
                continue
            v = {'kind': 'char' if code == 'C' else 'bytechar',
                 'value': model.get(name, ord('N'))}
        elif code == 'd':
            v = {'kind': 'float', 'value': float(model.get(name, 1.0))}
        else:
            return None
        if opt:
            kwargs[name] = v
        else:
            args.append(v)
    return {'module': module, 'func': func, 'args': args, 'kwargs': kwargs}


def zeval(e):
    e = z3.simplify(e)
    if z3.is_int_value(e):
        return e.as_long()
    if z3.is_true(e):
        return True
    if z3.is_false(e):
        return False
    return None


def check_extern_log(res):
    """-> list of problems found in the interposer log (footprints leaving
    the registered buffers, invalid arguments)"""
    from contracts.c.extern_blas import ROUTINES
    try:
        from contracts.c import extern_lapack as XL
        LR = XL.ROUTINES
    except Exception:
        XL, LR = None, {}
    probs = []
    bufs = res.get('bufs', {})
    for c in res.get('calls', []):
        islap = False
        rt = ROUTINES.get(c['routine'])
        if rt is None:
            rt = LR.get(c['routine'])
            islap = True
        if rt is None:
            continue
        ip = {k: z3.IntVal(v) for k, v in c.items() if k != 'routine' and
              k not in rt.arrays}
        query = islap and any(c.get(w) == -1 for w in XL.WORKSIZE)
        for text, f in rt.requires:
            try:
                ok = zeval(f(ip))
            except KeyError:
                ok = None
            if ok is False:
                probs.append({'routine': c['routine'], 'invalid': text,
                              'actuals': {k: v for k, v in c.items()}})
        if islap and not query:
            for w, f in rt.minwork.items():
                if w in c:
                    try:
                        lo = zeval(f(ip))
                    except KeyError:
                        lo = None
                    if lo is not None and c[w] < lo:
                        probs.append({'routine': c['routine'], 'invalid':
                                      '%s >= documented minimum %d' % (w, lo),
                                      'actuals': dict(c)})
        touched = zeval(rt.when(ip)) if getattr(rt, 'when', None) else True
        for nm, spec in rt.arrays.items():
            mode, fp = spec[0], spec[1]
            es = rt.elsize
            if islap:
                es = XL.esz(rt, spec[2] if len(spec) > 2 else 'T')
                if query:
                    continue
            try:
                elems = zeval(fp(ip)) if touched else 0
            except KeyError:
                continue
            if not elems or elems <= 0:
                continue
            p = c.get(nm)
            nb = elems * es
            if not p:
                probs.append({'routine': c['routine'], 'argument': nm,
                              'footprint_bytes': nb, 'pointer': 0,
                              'actuals': dict(c)})
                continue
            inside, known = False, False
            for bname, b in bufs.items():
                if b['addr'] and b['addr'] <= p <= b['addr'] + b['nbytes']:
                    known = True
                    if p + nb <= b['addr'] + b['nbytes']:
                        inside = True
            if islap and not known:
                # a temporary allocated by the wrapper (copy, pivots, work
                # space): not judged from the log; see the valgrind run
                continue
            if not inside:
                probs.append({'routine': c['routine'], 'argument': nm,
                              'footprint_bytes': nb, 'pointer': p,
                              'buffers': bufs,
                              'actuals': {k: v for k, v in c.items()}})
    return probs


def replay_obligation(ob, meta, base, envs):
    """-> (confirmed, info).  envs: dict cache of replay_c.Env by flavour"""
    model = ob.model
    if not model:
        return False, {'reason': 'verifier gave no model'}
    fill = None
    if ob.kind == 'nooverflow':
        import re
        m = re.search(r'\(int\)\s*MAT_BUFI\((\w+)\)\[', ob.text)
        if m:
            # narrowing of an element of an integer matrix: the witness is a
            # matrix whose elements do not fit an int
            fill = {m.group(1): 2**31 + 1}
    call = make_call(meta['module'], meta['fn'], meta['params'], meta['mats'],
                     model, fill)
    if call is None:
        return False, {'reason': 'model not replayable (matrix too large or '
                       'unsupported argument kind)', 'model': model}
    flavour = 'ubsan' if ob.kind == 'nooverflow' else 'plain'
    if flavour not in envs:
        envs[flavour] = replay_c.Env(ubsan=(flavour == 'ubsan'))
    env = envs[flavour]
    forward = ob.kind in ('effect-extent', 'frame', 'value')
    big = any(a.get('big') for a in list(call['args']) + list(
        call['kwargs'].values()))
    res = env.call(call, forward=forward, timeout=900 if big else 120)
    info = {'call': call, 'result': {k: v for k, v in res.items()
                                     if k not in ('stderr',)},
            'stderr_tail': res.get('stderr', '')[-1500:],
            'how_to_rerun': 'python3-vt -c "import sys; sys.path.insert(0,'
            "'/verif'); from engine import replay_c; import json; "
            'e=replay_c.Env(ubsan=%s); print(e.call(json.load(open(\'%s.json'
            "'))['replay']['call'], forward=%s)); e.close()\"" % (
                flavour == 'ubsan', base, forward)}
    exc = res.get('exception')
    k = ob.kind
    conf = False
    if k == 'nooverflow':
        line = meta.get('line')
        hits = [l for l in res.get('ubsan', []) if '%s:' % meta['cfile'] in l]
        lo = min(x for x in (line, meta.get('line_start')) if x) if (
            line or meta.get('line_start')) else 0
        lines = range(lo, max(meta.get('line_end') or 0, line or 0) + 1)
        exact = [l for l in hits if any(':%s:' % x in l for x in lines)]
        conf = bool(exact) or (bool(hits) and line is None)
        info['ubsan'] = hits
    elif k in ('footprint', 'extern-requires'):
        probs = check_extern_log(res)
        info['interposer_findings'] = probs
        conf = bool(probs) or bool(res.get('signal'))
        if not conf and meta.get('cfile') == 'lapack.c' and exc is None:
            # wrapper-allocated work space is not visible in the log: run
            # the real routine under valgrind
            r2 = env.call(call, forward=True, valgrind=True)
            info['valgrind'] = r2.get('valgrind')
            info['valgrind_signal'] = r2.get('signal')
            conf = bool(r2.get('valgrind')) or bool(r2.get('signal'))
    elif k == 'accept-sound':
        conf = exc is None and res.get('returncode') == 0
    elif k == 'reject-tight':
        conf = exc is not None
    elif k == 'reject-exception':
        conf = exc is not None and exc not in ('TypeError', 'ValueError')
    elif k == 'reject-clean':
        conf = exc is not None and (bool(res.get('calls')) or any(
            res.get('changed', {}).values()))
    elif k in ('effect-extent',):
        out = meta.get('outputs') or []
        changed = res.get('changed', {})
        conf = exc is None and any(not changed.get(m) for m in out)
        info['note'] = ('documented output arguments %s; changed elements '
                        '%s' % (out, changed))
    elif k == 'frame':
        out = meta.get('outputs') or []
        changed = res.get('changed', {})
        conf = any(v for m, v in changed.items() if m not in out)
    elif k == 'kwlist' and 'every documented keyword (' in ob.text:
        import re
        m = re.search(r'documented keyword \(([^)]*)\).*wrapper has '
                      r'\(([^)]*)\)', ob.text)
        doc, got = m.group(1).split(), m.group(2).split()
        missing = [d for d in doc if d not in got]
        if missing:
            call2 = json.loads(json.dumps(call))
            call2['kwargs'] = {k_: v for k_, v in call2['kwargs'].items()
                               if k_ in doc}
            call2['kwargs'][missing[0]] = {'kind': 'int', 'value': 0}
            r2 = env.call(call2)
            info['call'] = call2
            info['result'] = {k_: v for k_, v in r2.items() if k_ != 'stderr'}
            conf = r2.get('exception') == 'TypeError' and 'keyword' in (
                r2.get('message') or '')
        else:
            info['note'] = 'documented keywords are all accepted but in a ' \
                'different order: no run-time oracle'
    elif k == 'frame' and 'when ipiv is not provided' in ob.text:
        r2 = env.call(call, forward=True)
        info['result'] = {k_: v for k_, v in r2.items() if k_ != 'stderr'}
        conf = r2.get('exception') is None and bool(
            (r2.get('changed') or {}).get('A'))
    elif k in ('call-correspondence', 'call-missing', 'gil', 'kwlist',
               'info-mapping'):
        conf = False
        info['note'] = 'no run-time oracle for this obligation kind'
    return conf, info
