"""Library side of pyvc: object model of cvxopt matrices / dicts / lists,
loop rules, and the dispatch of calls to contracts (contracts/py/*).

Contract handler signature:  h(ex, st, args, kwargs, node) -> value
Handlers live in a registry `EXT[name]`; methods in `METHODS[(kind, name)]`.
"""
import ast, z3
from .core import (I, R, B, Dyn, Ref, Ext, BoundMethod, Unknown, HObj,
                   Outcome, PyRaise, NeedFork, Unsupported, NOTFOUND, UNBOUND,
                   MaybeBound,
                   const_of, assigned_names, TAG_NONE, TAG_BOOL, TAG_INT,
                   TAG_FLOAT, TAG_STR, TAG_OBJ, strid, MultiOutcome)


class Lib:
    def __init__(self):
        self.ext = {}           # dotted name -> handler
        self.methods = {}       # (kind, method name) -> handler(ex, st, self, args, kwargs, n)
        self.globals = {}       # (module, name) -> factory(ex, st) -> value
        self.roles = {}         # role -> handler(ex, st, unk, args, kwargs, n)
        self.loop_invariants = {}   # (function, loop key) -> fn
        self.aliases = {}
        self.hooks = {}
        self.pure = set()       # ext names known not to modify arguments
        self.mutators = {}      # ext name -> list of mutated params

    # ------------------------------------------------------------ registry
    def register(self, name, pure=False, mutates=None):
        def deco(f):
            self.ext[name] = f
            if pure:
                self.pure.add(name)
            if mutates is not None:
                self.mutators[name] = mutates
            return f
        return deco

    def method(self, kind, name):
        def deco(f):
            self.methods[(kind, name)] = f
            return f
        return deco

    def role(self, name):
        def deco(f):
            self.roles[name] = f
            return f
        return deco

    def canon(self, name):
        seen = 0
        while name in self.aliases and seen < 5:
            name = self.aliases[name]
            seen += 1
        return name

    # ------------------------------------------------------------- globals
    def module_global(self, ex, st, modname, name):
        f = self.globals.get((modname, name)) or self.globals.get(('*', name))
        if f is not None:
            return f(ex, st)
        if name in ex.funcs:
            return Ext('%s.%s' % (modname, name))
        if name in ex.classes:
            return Ext('%s.%s' % (modname, name))
        return NOTFOUND

    def ext_attr(self, ex, st, e, attr, n):
        return Ext(self.canon('%s.%s' % (e.name, attr)))

    # ------------------------------------------------------------- objects
    def new_matrix(self, ex, st, nrows, ncols, tc='d', owner='FRESH',
                   site=0, sparse=False, name=None, symval=None):
        def norm(v):
            if isinstance(v, bool):
                return int(v)
            if isinstance(v, I):
                c, k = const_of(v)
                return k if c else v
            return v
        f = {'nrows': norm(nrows), 'ncols': norm(ncols), 'tc': tc,
             'sym': symval if symval is not None else z3.IntVal(0),
             'sparse': sparse, 'last_max_step': None, 'val': None}
        return ex.alloc(st, 'matrix', f, {'owner': owner, 'site': site,
                                          'name': name})

    def obj_attr(self, ex, st, ref, attr, n):
        o = st.heap[ref.oid]
        if o.kind == 'matrix':
            if attr == 'size':
                return (o.f['nrows'], o.f['ncols'])
            if attr == 'typecode':
                return o.f['tc'] if o.f['tc'] is not None else Unknown(
                    'typecode')
            if attr in ('T', 'H', 'real', 'imag'):
                if attr in ('T', 'H'):
                    return self.new_matrix(ex, st, o.f['ncols'], o.f['nrows'],
                                           o.f['tc'], site=n.lineno,
                                           sparse=o.f.get('sparse'))
                return self.new_matrix(ex, st, o.f['nrows'], o.f['ncols'],
                                       'd', site=n.lineno,
                                       sparse=o.f.get('sparse'))
        if o.kind == 'instance':
            if attr in o.f['attrs']:
                return o.f['attrs'][attr]
            h = self.hooks.get('instance_attr')
            if h:
                return h(ex, st, ref, attr, n)
        return NOTFOUND

    def setattr(self, ex, st, base, attr, v, s):
        if isinstance(base, Ref):
            o = st.heap[base.oid]
            if o.kind == 'instance':
                h = self.hooks.get('instance_setattr')
                if h and h(ex, st, base, attr, v, s):
                    return
                self.on_mutate(ex, st, base, 'setattr', s)
                o.f['attrs'] = dict(o.f['attrs'])
                o.f['attrs'][attr] = v
                return
            if o.kind == 'matrix' and attr == 'size':
                self.on_mutate(ex, st, base, 'matrix.size=', s)
                if isinstance(v, tuple) and len(v) == 2:
                    o.f['nrows'], o.f['ncols'] = v
                return
        ex.note(st, 'attribute store on unmodelled object')

    def on_mutate(self, ex, st, ref, how, node, arg=None):
        """frame obligation: the mutated object is not owned by the caller"""
        o = st.heap[ref.oid]
        owner = o.meta.get('owner', 'FRESH')
        if o.kind == 'matrix':
            o.f['last_max_step'] = None
        if not st.ghost.get('frame_check', True):
            return
        if owner != 'FRESH':
            ex.oblige(st, 'frame', False, node,
                      '%s does not modify %s' % (how, owner),
                      extra={'owner': owner, 'prop': 'C09'})
        else:
            ex.oblige(st, 'frame', True, node,
                      '%s modifies only solver-owned storage (line %s)' % (
                          how, getattr(node, 'lineno', 0)),
                      extra={'prop': 'C09'})

    # -------------------------------------------------------------- calls
    def call_ext(self, ex, st, name, args, kwargs, n):
        name = self.canon(name)
        h = self.ext.get(name)
        hk = self.hooks.get('pre_call')
        if hk:
            hk(ex, st, name, args, kwargs, n)
        if h is not None:
            return h(ex, st, args, kwargs, n)
        # a function of the module under analysis that is not under contract
        mod, _, fn = name.rpartition('.')
        ex.unmodelled.add(name)
        ex.note(st, 'call of %s has no contract' % name)
        self.havoc_args(ex, st, args, kwargs, n, name)
        return Unknown('result of ' + name)

    def havoc_args(self, ex, st, args, kwargs, n, name):
        for v in list(args) + list(kwargs.values()):
            if isinstance(v, Ref):
                o = st.heap[v.oid]
                if o.kind == 'matrix':
                    ex.oblige(st, 'frame-unknown-callee', o.meta.get(
                        'owner', 'FRESH') == 'FRESH', n,
                        'call of %s without contract receives only '
                        'solver-owned matrices' % name)
                    o.f['sym'] = z3.IntVal(0)

    def call_method(self, ex, st, obj, name, args, kwargs, n):
        if isinstance(obj, Ref):
            o = st.heap[obj.oid]
            hk0 = self.hooks.get('method_kind:' + o.kind)
            if hk0:
                r = hk0(ex, st, obj, name, args, kwargs, n)
                if r is not NOTFOUND:
                    return r
            h = self.methods.get((o.kind, name))
            if h is not None:
                return h(ex, st, obj, args, kwargs, n)
            if o.kind == 'instance':
                hk = self.hooks.get('instance_method')
                if hk:
                    return hk(ex, st, obj, name, args, kwargs, n)
            ex.note(st, 'method %s.%s has no contract' % (o.kind, name))
            ex.unmodelled.add('%s.%s' % (o.kind, name))
            return Unknown('result of .%s' % name)
        if isinstance(obj, str):
            return Unknown('string method')
        if isinstance(obj, Dyn) and name == 'get':
            # options passed by the user: treated as a dict (well-typed input)
            raise Unsupported('method call on scalar of unknown type')
        if isinstance(obj, Unknown):
            h = self.roles.get((obj.role or '') + '.' + name)
            if h is not None:
                return h(ex, st, obj, args, kwargs, n)
            ex.note(st, 'method %s of unknown object' % name)
            self.havoc_args(ex, st, args, kwargs, n, '.' + name)
            return Unknown('result of .%s' % name)
        return Unknown('result of .%s' % name)

    def call_object(self, ex, st, f, args, kwargs, n):
        o = st.heap[f.oid]
        h = self.methods.get((o.kind, '__call__'))
        if h is not None:
            return h(ex, st, f, args, kwargs, n)
        raise PyRaise('TypeError', '%s object is not callable' % o.kind)

    def call_unknown(self, ex, st, f, args, kwargs, n):
        h = self.roles.get(f.role)
        if h is not None:
            return h(ex, st, f, args, kwargs, n)
        ex.note(st, 'call of unknown callable (%s)' % f.why)
        self.havoc_args(ex, st, args, kwargs, n, f.why or 'unknown callable')
        return Unknown('result of unknown callable')

    # -------------------------------------------------------- matrix algebra
    def binop(self, ex, st, op, a, b, n):
        """matrix (+,-,*,/ ...) -> fresh matrix; shapes only"""
        m = a if isinstance(a, Ref) and st.heap[a.oid].kind == 'matrix' else b
        if not (isinstance(m, Ref) and st.heap[m.oid].kind == 'matrix'):
            hk = self.hooks.get('instance_binop')
            if hk:
                return hk(ex, st, op, a, b, n)
            return Unknown('binop on object')
        o = st.heap[m.oid]
        nr, nc = o.f['nrows'], o.f['ncols']
        if op == 'Mult' and isinstance(a, Ref) and isinstance(b, Ref):
            ob = st.heap[b.oid]
            oa = st.heap[a.oid]
            if oa.kind == 'matrix' and ob.kind == 'matrix':
                nr, nc = oa.f['nrows'], ob.f['ncols']
        return self.new_matrix(ex, st, nr, nc, o.f['tc'], site=n.lineno,
                               sparse=o.f.get('sparse'))

    def inplace(self, ex, st, op, cur, v, s):
        o = st.heap[cur.oid]
        hk0 = self.hooks.get('inplace_kind:' + o.kind)
        if hk0:
            return hk0(ex, st, op, cur, v, s)
        if o.kind == 'matrix':
            self.on_mutate(ex, st, cur, 'in-place %s' % op, s)
            o.f['sym'] = z3.IntVal(0)
            return cur
        hk = self.hooks.get('instance_inplace')
        if hk:
            return hk(ex, st, op, cur, v, s)
        return cur

    def list_inplace(self, ex, st, op, cur, v, s):
        o = st.heap[cur.oid]
        self.on_mutate(ex, st, cur, 'list in-place %s' % op, s)
        if op == 'Add' and 'items' in o.f:
            if isinstance(v, Ref) and 'items' in st.heap[v.oid].f:
                o.f['items'] = o.f['items'] + st.heap[v.oid].f['items']
                return cur
            if isinstance(v, tuple):
                o.f['items'] = o.f['items'] + list(v)
                return cur
        o.f.pop('items', None)
        o.f['len'] = ex.fresh_int('len')
        o.f['elem'] = ('unknown',)
        return cur

    def getitem(self, ex, st, ref, idx, n):
        o = st.heap[ref.oid]
        hk0 = self.hooks.get('getitem_kind:' + o.kind)
        if hk0:
            return hk0(ex, st, ref, idx, n)
        if o.kind == 'matrix':
            r = self.matrix_getitem(ex, st, ref, idx, n)
            if st.ghost.get('log_reads') is not None:
                # contract option: element reads are remembered (which
                # matrix, which index, which symbol stands for the value)
                st.ghost['log_reads'] = st.ghost['log_reads'] + [(ref, idx,
                                                                   r)]
            return r
        hk = self.hooks.get('instance_getitem')
        if hk and o.kind == 'instance':
            return hk(ex, st, ref, idx, n)
        return Unknown('item')

    def index_count(self, ex, st, idx, dim, n):
        """number of elements selected by a single index along a dimension of
        size dim (python value or I); None for a scalar integer index"""
        if isinstance(idx, tuple) and idx and idx[0] == 'slice':
            lo, hi, step = idx[1:]
            if lo is None and hi is None and step is None:
                return dim
            if step is None and dim is not None:
                # python slice semantics for nonnegative bounds:
                # count = max(0, min(hi, dim) - min(lo, dim))
                try:
                    kd, td = ex.num(st, dim)
                    tl = ex.num(st, lo)[1] if lo is not None else \
                        z3.IntVal(0)
                    th = ex.num(st, hi)[1] if hi is not None else td
                except Exception:
                    return 'unknown'
                if kd == 'int' and z3.is_int(tl) and z3.is_int(th):
                    nonneg = z3.And(tl >= 0, th >= 0)
                    if ex.decide(st, nonneg) is True:
                        mn = lambda a, b: z3.If(a <= b, a, b)
                        c = mn(th, td) - mn(tl, td)
                        return I(z3.If(c >= 0, c, 0))
            return 'unknown'
        if isinstance(idx, Ref):
            o = st.heap[idx.oid]
            if o.kind == 'list':
                return len(o.f['items']) if 'items' in o.f else o.f['len']
            if o.kind == 'matrix':
                return 'unknown'
        return None

    def matrix_getitem(self, ex, st, ref, idx, n):
        o = st.heap[ref.oid]
        if isinstance(idx, tuple) and not (idx and idx[0] == 'slice'):
            if len(idx) == 2:
                c0 = self.index_count(ex, st, idx[0], o.f['nrows'], n)
                c1 = self.index_count(ex, st, idx[1], o.f['ncols'], n)
                if c0 is None and c1 is None:
                    return self.elem_value(ex, st, o)
                nr = 1 if c0 is None else (ex.fresh_int('nsel') if c0 ==
                                           'unknown' else c0)
                nc = 1 if c1 is None else (ex.fresh_int('nsel') if c1 ==
                                           'unknown' else c1)
                return self.new_matrix(ex, st, nr, nc, o.f['tc'],
                                       site=n.lineno)
        c = self.index_count(ex, st, idx, self.mul(
            ex, st, o.f['nrows'], o.f['ncols']) if isinstance(idx, tuple)
            and idx and idx[0] == 'slice' else None, n)
        if c is None:
            return self.elem_value(ex, st, o)
        if c == 'unknown' or c is None:
            c = ex.fresh_int('nsel')
            ex.axioms.append(c.t >= 0)
        if isinstance(idx, tuple) and idx[0] == 'slice' and idx[1:] == (
                None, None, None):
            nr, nc = o.f['nrows'], o.f['ncols']
            c = self.mul(ex, st, nr, nc)
        r = self.new_matrix(ex, st, c, 1, o.f['tc'], site=n.lineno)
        if isinstance(idx, tuple) and idx and idx[0] == 'slice' and \
                idx[3] is None:
            lo, hi = idx[1], idx[2]
            cl, kl = const_of(lo) if lo is not None else (True, 0)
            rf = st.heap[r.oid].f
            rf['slice_lo'] = kl if cl else None
            rf['slice_src'] = ref.oid
            try:
                rf['slice_lo_t'] = ex.num(st, lo)[1] if lo is not None \
                    else z3.IntVal(0)
                rf['slice_hi_t'] = ex.num(st, hi)[1] if hi is not None \
                    else ex.num(st, self.mul(ex, st, o.f['nrows'],
                                             o.f['ncols']))[1]
            except Exception:
                rf['slice_lo_t'] = rf['slice_hi_t'] = None
        return r

    def mul(self, ex, st, a, b):
        ca, va = const_of(a)
        cb, vb = const_of(b)
        if ca and cb:
            return va * vb
        ka, ta = ex.num(st, a)
        kb, tb = ex.num(st, b)
        return I(ta * tb)

    def elem_value(self, ex, st, o):
        if o.f.get('tc') == 'i':
            return ex.fresh_int('elem')
        if o.f.get('tc') == 'd':
            return ex.fresh_real('elem')
        return Unknown('matrix element')

    def setitem(self, ex, st, base, idx, v, s):
        o = st.heap[base.oid]
        hk0 = self.hooks.get('setitem_kind:' + o.kind)
        if hk0:
            return hk0(ex, st, base, idx, v, s)
        if o.kind == 'matrix':
            hkw = self.hooks.get('matrix_setitem')
            if hkw:
                # contract hook: element stores can carry an obligation
                hkw(ex, st, base, idx, v, s)
            self.on_mutate(ex, st, base, 'indexed assignment', s)
            o.f['sym'] = z3.IntVal(0)
            full = isinstance(idx, tuple) and idx and idx[0] == 'slice' \
                and idx[1:] == (None, None, None)
            if full and isinstance(v, Ref) and st.heap[v.oid].kind == \
                    'matrix' and st.heap[v.oid].f.get('slice_src') is not \
                    None:
                vf = st.heap[v.oid].f
                o.f['content_src'] = (vf['slice_src'], vf.get('slice_lo_t'),
                                      vf.get('slice_hi_t'))
                h = self.hooks.get('block_copy')
                if h:
                    h(ex, st, base, vf['slice_src'], vf.get('slice_lo_t'),
                      vf.get('slice_hi_t'), s)
            return
        hk = self.hooks.get('instance_setitem')
        if hk and o.kind == 'instance':
            return hk(ex, st, base, idx, v, s)
        ex.note(st, 'item store on unmodelled object')

    def delete(self, ex, st, t, fid):
        if isinstance(t, ast.Subscript):
            base = ex.ev(t.value, st, fid)
            idx = ex.ev_index(t.slice, st, fid)
            hk0 = self.hooks.get('delitem')
            if hk0 and hk0(ex, st, base, idx, t):
                return
            if isinstance(base, Ref) and st.heap[base.oid].kind == 'dict':
                o = st.heap[base.oid]
                c, k = const_of(idx)
                if c and isinstance(k, (str, int)):
                    has = ex.dict_has(st, base, k)
                    d = has if isinstance(has, bool) else ex.decide(st, has)
                    if d is False:
                        raise PyRaise('KeyError', k)
                    if d is None:
                        raise NeedFork(has)
                    self.on_mutate(ex, st, base, 'del dict item', t)
                    o.f['items'] = dict(o.f['items'])
                    del o.f['items'][k]
                    if k in o.f.get('present', {}):
                        o.f['present'] = dict(o.f['present'])
                        del o.f['present'][k]
                    return
        ex.note(st, 'del statement on non-name target')

    def unpack(self, ex, st, v, k, s):
        if v is None or isinstance(v, (bool, int, float)):
            raise PyRaise('TypeError', 'cannot unpack non-iterable object')
        if isinstance(v, Unknown):
            return [Unknown('unpacked') for _ in range(k)]
        if isinstance(v, Ref):
            o = st.heap[v.oid]
            if o.kind == 'list':
                return [self.symlist_item(ex, st, v, j, s) for j in range(k)]
        raise Unsupported('unpacking of %r' % (v,))

    # ----------------------------------------------------------------- lists
    def sym_len(self, ex, st, ref):
        o = st.heap[ref.oid]
        if 'items' in o.f:
            return len(o.f['items'])
        return o.f['len']

    def symlist_elem(self, ex, st, ref, k):
        """element k (z3 Int term) of a symbolic list"""
        o = st.heap[ref.oid]
        e = o.f.get('elem', ('unknown',))
        if e[0] == 'fn':
            return I(e[1](k))
        if e[0] == 'const':
            return e[1]
        if e[0] == 'map':
            return e[1](ex, st, k)
        if e[0] == 'objproto':
            proto, kf = e[1], e[2]
            if isinstance(k, int):
                k = z3.IntVal(k)
            key = ('listelem', ref.oid, str(z3.simplify(k)))
            hit = st.ghost.get(key)
            if hit is not None and hit.oid in st.heap:
                return hit
            po = st.heap.get(proto.oid)
            if po is None or po.kind != 'matrix':
                return Unknown('list element')

            def sub(v):
                if isinstance(v, I):
                    return I(z3.substitute(v.t, (kf, k)))
                return v
            m = self.new_matrix(ex, st, sub(po.f['nrows']),
                                sub(po.f['ncols']), po.f['tc'],
                                owner=po.meta.get('owner', 'FRESH'),
                                symval=po.f.get('sym'))
            st.heap[m.oid].f['elem_of'] = (ref.oid, k)
            st.ghost[key] = m
            return m
        return Unknown('list element')

    def symlist_item(self, ex, st, ref, idx, n):
        o = st.heap[ref.oid]
        if 'items' in o.f:
            return ex.list_getitem(st, ref, idx, n)
        kk, t = ex.num(st, idx, n)
        if kk == 'real':
            t = z3.ToInt(t)
        ln = o.f['len'].t
        tt = z3.If(t >= 0, t, ln + t)
        d = ex.decide(st, z3.And(tt >= 0, tt < ln))
        if d is False:
            raise PyRaise('IndexError', 'list index out of range')
        if d is None and ex.cfg.get('fork_on_index_error'):
            raise NeedFork(z3.And(tt >= 0, tt < ln))
        return self.symlist_elem(ex, st, ref, tt)

    def list_slice(self, ex, st, ref, idx, n):
        o = st.heap[ref.oid]
        ex.note(st, 'slice of symbolic list')
        return ex.alloc(st, 'list', {'len': ex.fresh_int('slicelen'),
                                     'elem': ('unknown',)},
                        {'site': n.lineno, 'owner': 'FRESH'})

    def list_setitem_sym(self, ex, st, base, idx, v, s):
        o = st.heap[base.oid]
        if 'items' in o.f:
            o.f['len'] = I(len(o.f['items']))
            del o.f['items']
        o.f['elem'] = ('unknown',)

    def dict_getitem_sym(self, ex, st, ref, idx, n):
        h = self.hooks.get('dict_getitem_sym')
        if h:
            return h(ex, st, ref, idx, n)
        return Unknown('dict item with symbolic key')

    def iter_values(self, ex, st, it, s):
        """concrete list of values to unroll over, or None"""
        if isinstance(it, (tuple, list)):
            return list(it)
        if isinstance(it, Ref):
            o = st.heap[it.oid]
            if o.kind == 'list' and 'items' in o.f:
                return list(o.f['items'])
            if o.kind == 'range':
                lo, hi, step = o.f['lo'], o.f['hi'], o.f['step']
                cl, vl = const_of(lo)
                ch, vh = const_of(hi)
                cs, vs = const_of(step)
                if cl and ch and cs:
                    return list(range(vl, vh, vs))
            if o.kind == 'dict' and not o.f.get('open'):
                return list(o.f['items'].keys())
        return None

    def listcomp(self, ex, st, n, fid):
        """[ elt for x in it if cond ] -- unrolled for concrete iterables,
        mapped symbolically for symbolic lists with a single generator"""
        if len(n.generators) != 1:
            ex.note(st, 'nested comprehension')
            return ex.alloc(st, 'list', {'len': ex.fresh_int('len'),
                                         'elem': ('unknown',)},
                            {'site': n.lineno, 'owner': 'FRESH'})
        g = n.generators[0]
        it = ex.ev(g.iter, st, fid)
        if hasattr(it, 'abs_comp'):
            # abstract sequence: the contract object maps the comprehension
            return it.abs_comp(ex, st, n, g, fid)
        seq = self.iter_values(ex, st, it, n)
        nf = next(ex.fid)
        st.frames[nf] = {}
        st.parent[nf] = fid
        try:
            if seq is not None and len(seq) <= 64:
                out = []
                for v in seq:
                    ex.assign(st, nf, g.target, v, n)
                    keep = True
                    for c in g.ifs:
                        t = ex.truth(st, ex.ev(c, st, nf), c)
                        d = t if isinstance(t, bool) else ex.decide(st, t)
                        if d is None:
                            raise NeedFork(t)
                        keep = keep and d
                    if keep:
                        out.append(ex.ev(n.elt, st, nf))
                return ex.alloc(st, 'list', {'items': out},
                                {'site': n.lineno, 'owner': 'FRESH'})
            if isinstance(it, Ref) and st.heap[it.oid].kind in ('list',
                                                                 'range'):
                return self.symbolic_comp(ex, st, n, g, it, nf)
        finally:
            st.frames.pop(nf, None)
            st.parent.pop(nf, None)
        ex.note(st, 'comprehension over unmodelled iterable')
        return ex.alloc(st, 'list', {'len': ex.fresh_int('len'),
                                     'elem': ('unknown',)},
                        {'site': n.lineno, 'owner': 'FRESH'})

    def symbolic_comp(self, ex, st, n, g, it, nf):
        o = st.heap[it.oid]
        ln = self.iter_len(ex, st, it)
        if g.ifs:
            # filtering comprehension over a symbolic list: used by the
            # solvers only as a truth test ("any element violates ...")
            k = ex.fresh_int('k')
            ex.assign(st, nf, g.target, self.iter_elem(ex, st, it, k.t), n)
            conds = []
            for c in g.ifs:
                t = ex.truth(st, ex.ev(c, st, nf), c)
                conds.append(z3.BoolVal(t) if isinstance(t, bool) else t)
            bad = z3.And(conds)
            nm = ex.fresh('filtered')
            ref = ex.alloc(st, 'list', {'len': ex.fresh_int('len_' + nm),
                                        'elem': ('unknown',)},
                           {'site': n.lineno, 'owner': 'FRESH',
                            'filter_of': (it, k.t, bad, ln)})
            lo = st.heap[ref.oid]
            # nonempty  <=>  some element satisfies the filter
            ex.axioms.append(lo.f['len'].t >= 0)
            st.ghost[('filter', ref.oid)] = (k.t, bad, ln)
            return ref

        def elem(kt, ex=ex, st=st, n=n, g=g, it=it):
            nf2 = next(ex.fid)
            st.frames[nf2] = {}
            st.parent[nf2] = nf
            st.frames.setdefault(nf, {})
            try:
                ex.assign(st, nf2, g.target, self.iter_elem(ex, st, it, kt),
                          n)
                return ex.ev(n.elt, st, nf2)
            finally:
                st.frames.pop(nf2, None)
                st.parent.pop(nf2, None)
        # evaluate once with a fresh index to capture the element expression
        kf = z3.Int(ex.fresh('idx'))
        proto = elem(kf)
        if isinstance(proto, (I, int, bool)):
            pt = ex.num(st, proto)[1]
            def fn(kt, pt=pt, kf=kf):
                if isinstance(kt, int):
                    kt = z3.IntVal(kt)
                if z3.is_real(kt):
                    kt = z3.ToInt(kt)
                return z3.substitute(pt, (kf, kt))
            name = ex.fresh('comp@%d' % n.lineno)
            return ex.alloc(st, 'list', {'len': ln, 'elem': ('fn', fn)},
                            {'site': n.lineno, 'owner': 'FRESH',
                             'name': name, 'src': it, 'proto': (kf, pt)})
        if isinstance(proto, Ref):
            # list of fresh objects (e.g. matrices of per-block sizes)
            po = st.heap[proto.oid]
            return ex.alloc(st, 'list', {'len': ln, 'elem': (
                'objproto', proto, kf)}, {'site': n.lineno,
                                         'owner': 'FRESH'})
        return ex.alloc(st, 'list', {'len': ln, 'elem': ('unknown',)},
                        {'site': n.lineno, 'owner': 'FRESH'})

    def iter_len(self, ex, st, it):
        o = st.heap[it.oid]
        if o.kind == 'range':
            kl, tl = ex.num(st, o.f['lo'])
            kh, th = ex.num(st, o.f['hi'])
            return I(z3.If(th > tl, th - tl, 0))
        if 'items' in o.f:
            return I(len(o.f['items']))
        return o.f['len']

    def iter_elem(self, ex, st, it, kt):
        o = st.heap[it.oid]
        if o.kind == 'range':
            kl, tl = ex.num(st, o.f['lo'])
            return I(tl + kt)
        return self.symlist_elem(ex, st, it, kt)

    # ----------------------------------------------------------------- loops
    def loop_key(self, ex, s):
        return (ex.fname, s.lineno)

    def havoc_for_loop(self, ex, st, fid, body, extra_names=()):
        """havoc everything the loop body may change: names assigned in the
        body (in this frame), ghost facts of solver-owned matrices, contents
        of lists/dicts that are mutated in the body"""
        names = list(assigned_names(body)) + list(extra_names)
        deleted = set()
        for x in ast.walk(ast.Module(body=list(body), type_ignores=[])):
            if isinstance(x, ast.Delete):
                for t in x.targets:
                    if isinstance(t, ast.Name):
                        deleted.add(t.id)
        for nm in names:
            cur = st.frames[fid].get(nm, UNBOUND)
            if cur is UNBOUND or isinstance(cur, MaybeBound):
                # definite assignment: bound at the head of an arbitrary
                # iteration iff the (fresh) flag holds; a variable that was
                # bound stays bound unless the body deletes it
                fl = z3.Bool(ex.fresh('bound(%s)' % nm))
                old = cur.val if isinstance(cur, MaybeBound) else UNBOUND
                st.frames[fid][nm] = MaybeBound(fl, self.havoc_value(
                    ex, st, nm, old))
                if isinstance(cur, MaybeBound) and nm not in deleted:
                    st.pc.append(z3.Implies(cur.flag, fl))
                continue
            st.frames[fid][nm] = self.havoc_value(ex, st, nm, cur)
        for oid, o in st.heap.items():
            if o.kind == 'matrix' and o.meta.get('owner', 'FRESH') == 'FRESH':
                raw = z3.Int(ex.fresh('sym_obj%d' % oid))
                o.f['sym'] = z3.If(raw >= 0, raw, 0)
                if ex.cfg.get('algebra'):
                    # loop-head snapshot: an arbitrary vector
                    o.f['val'] = {ex.fresh('%s@' % (o.meta.get('name') or
                                                    'v%d' % oid)): z3.RealVal(
                        1)}
        return names

    def havoc_value(self, ex, st, nm, cur):
        if isinstance(cur, Ref):
            o = st.heap[cur.oid]
            if o.kind == 'matrix':
                # loop-carried matrix variable: an object of the same shape
                # allocated by the solver (every assignment to a matrix
                # variable inside the solver loops is an allocation; checked
                # by the allocation-site obligation below)
                return cur
            if o.kind == 'closure':
                return cur
            return cur
        if isinstance(cur, bool):
            return ex.fresh_bool(nm)
        if isinstance(cur, int) or isinstance(cur, I):
            return ex.fresh_int(nm)
        if isinstance(cur, (float, R)):
            return ex.fresh_real(nm)
        if cur is UNBOUND:
            return Unknown('loop-assigned ' + nm)
        if isinstance(cur, Dyn) or cur is None:
            return ex.fresh_dyn(nm)
        return Unknown('loop-assigned ' + nm)

    def loop_by_invariant(self, ex, st, s, fid, it):
        if hasattr(it, 'abs_loop'):
            return it.abs_loop(ex, st, s, fid)
        if isinstance(it, Ref):
            hk = self.hooks.get('loop_kind:' + st.heap[it.oid].kind)
            if hk:
                r = hk(ex, st, s, fid, it)
                if r is not None:
                    return r
        if not (isinstance(it, Ref) and st.heap[it.oid].kind in (
                'list', 'range', 'dict')):
            ex.note(st, 'loop over unmodelled iterable at line %d' % s.lineno)
            return self.generic_loop(ex, st, s, fid, None, None, None)
        ln = self.iter_len(ex, st, it) if st.heap[it.oid].kind != 'dict' \
            else ex.fresh_int('ndictkeys')
        return self.generic_loop(ex, st, s, fid, it, ln, None)

    def bound_candidates(self, ex, pre, fid, body, loop=None):
        """candidate invariants `C >= k  ==>  U is bound` for the variables U
        that are unbound when the loop is entered and assigned in its body:
        one candidate for every `C = k` (k a positive literal) that follows an
        assignment of U in the same block.  Guessed here, kept only if
        inductive (Houdini in generic_loop)."""
        fr = pre.frames[fid]
        U = set(nm for nm in assigned_names(body) if fr.get(
            nm, UNBOUND) is UNBOUND or isinstance(fr.get(nm), MaybeBound))
        cands = []
        if not U:
            return cands

        def tnames(t, out):
            if isinstance(t, ast.Name):
                out.add(t.id)
            elif isinstance(t, (ast.Tuple, ast.List)):
                for e in t.elts:
                    tnames(e, out)

        def scan(stmts):
            for i, s_ in enumerate(stmts):
                if isinstance(s_, ast.Assign):
                    tg = set()
                    for t in s_.targets:
                        tnames(t, tg)
                    for u in tg & U:
                        for s2 in stmts[i + 1:]:
                            if isinstance(s2, ast.Assign) and len(
                                    s2.targets) == 1 and isinstance(
                                        s2.targets[0], ast.Name) and \
                                    isinstance(s2.value, ast.Constant) and \
                                    type(s2.value.value) is int and \
                                    s2.value.value > 0:
                                c = (u, s2.targets[0].id, s2.value.value)
                                if c not in cands:
                                    cands.append(c)
                for f_ in ('body', 'orelse', 'finalbody'):
                    b_ = getattr(s_, f_, None)
                    if isinstance(b_, list) and b_ and isinstance(
                            b_[0], ast.stmt):
                        scan(b_)
                for h_ in getattr(s_, 'handlers', []) or []:
                    scan(h_.body)
        scan(list(body))
        # second family: U assigned under `if <loop variable> == 0:` (and
        # possibly further loop-invariant conditions G): candidate
        # "not the first iteration and G  ==>  U is bound"
        first = []
        if isinstance(loop, ast.For) and isinstance(loop.target, ast.Name):
            lv = loop.target.id
            assigned = set(assigned_names(body)) | {lv}

            def is_first(t):
                return (isinstance(t, ast.Compare) and len(t.ops) == 1 and
                        isinstance(t.ops[0], ast.Eq) and isinstance(
                            t.left, ast.Name) and t.left.id == lv and
                        isinstance(t.comparators[0], ast.Constant) and
                        t.comparators[0].value == 0)

            def scan2(stmts, guards):
                for s_ in stmts:
                    if isinstance(s_, ast.Assign) and any(
                            is_first(g) for g in guards):
                        tg = set()
                        for t in s_.targets:
                            tnames(t, tg)
                        others = [g for g in guards if not is_first(g)]
                        free = set()
                        for g in others:
                            for x in ast.walk(g):
                                if isinstance(x, ast.Name):
                                    free.add(x.id)
                        if free & assigned:
                            continue
                        for u in tg & U:
                            cd = ('first', u, tuple(others))
                            if not any(c_[0] == 'first' and c_[1] == u and
                                       [ast.dump(g) for g in c_[2]] ==
                                       [ast.dump(g) for g in others]
                                       for c_ in first):
                                first.append(cd)
                    if isinstance(s_, ast.If):
                        scan2(s_.body, guards + [s_.test])
                    elif isinstance(s_, (ast.For, ast.While, ast.With)):
                        scan2(s_.body, guards)
                    elif isinstance(s_, ast.Try):
                        scan2(s_.body, guards)
            scan2(list(body), [])
        # initiation: C >= k is impossible on entry (U is unbound there)
        keep = list(first)
        for (u, c, k) in cands:
            vc = fr.get(c)
            t = vc.t if isinstance(vc, I) else (
                z3.IntVal(vc) if type(vc) is int else None)
            if t is not None and isinstance(fr.get(u, UNBOUND),
                                            MaybeBound) is False and \
                    ex.check(pre.pc, [t >= k]) == z3.unsat:
                keep.append((u, c, k))
            elif t is not None and isinstance(fr.get(u), MaybeBound) and \
                    ex.check(pre.pc, [t >= k, z3.Not(fr[u].flag)]) == \
                    z3.unsat:
                keep.append((u, c, k))
        return keep

    def guards_formula(self, ex, st, fid, guards):
        """conjunction of the truth values of loop-invariant guard
        expressions in this state; None if they cannot be evaluated without
        side conditions"""
        out = []
        for g in guards:
            try:
                n0 = len(st.pc)
                t = ex.truth(st, ex.ev(g, st, fid), g)
                del st.pc[n0:]
            except Exception:
                return None
            out.append(z3.BoolVal(t) if isinstance(t, bool) else t)
        return z3.And(out) if out else z3.BoolVal(True)

    def assume_bound_cands(self, st, fid, cands, ex=None, k=None):
        fr = st.frames[fid]
        for cd in cands:
            if cd[0] == 'first':
                _, u, guards = cd
                vu = fr.get(u)
                if isinstance(vu, MaybeBound) and ex is not None and \
                        k is not None:
                    g = self.guards_formula(ex, st, fid, guards)
                    if g is not None:
                        st.pc.append(z3.Implies(z3.And(k >= 1, g), vu.flag))
                continue
            (u, c, kk) = cd
            vu, vc = fr.get(u), fr.get(c)
            if isinstance(vu, MaybeBound) and isinstance(vc, I):
                st.pc.append(z3.Implies(vc.t >= kk, vu.flag))

    def generic_loop(self, ex, st, s, fid, it, ln, cond, _cands=None,
                     _st0=None):
        """invariant rule for `for` (it, ln given) and `while` (cond given)"""
        inv = self.find_invariant(ex, s)
        body = s.body
        if _cands is None:
            _cands = self.bound_candidates(ex, st, fid, body, s)
            _st0 = st.copy() if _cands else None
        pre = st
        if inv is not None and hasattr(inv, 'begin'):
            inv.begin(ex, pre, fid, it)
        k = z3.Int(ex.fresh('k@%d' % s.lineno))
        lnt = ln.t if isinstance(ln, I) else (z3.IntVal(ln) if isinstance(
            ln, int) else None)
        # 1. initiation
        if inv is not None:
            for text, g in inv(ex, pre, fid, z3.IntVal(0), it):
                ex.oblige(pre, 'loop-invariant-init', g, s,
                          'loop at line %d: %s holds on entry' % (s.lineno,
                                                                  text))
        # 2. arbitrary iteration
        body_st = pre.copy()
        tnames = assigned_names([ast.Assign(targets=[s.target], value=None)]
                                ) if isinstance(s, ast.For) else []
        self.havoc_for_loop(ex, body_st, fid, body, tnames)
        self.assume_bound_cands(body_st, fid, _cands, ex, k)
        feasible = True
        if lnt is not None:
            rng = z3.And(k >= 0, k < lnt)
            if ex.check(body_st.pc, [rng]) == z3.unsat:
                feasible = False
            body_st.pc.append(rng)
        if inv is not None and feasible:
            for text, g in inv(ex, body_st, fid, k, it):
                body_st.pc.append(g)
        if isinstance(s, ast.For) and feasible:
            if it is not None and st.heap[it.oid].kind != 'dict':
                ex.assign(body_st, fid, s.target, self.iter_elem(
                    ex, body_st, it, k), s)
                self.on_loop_index(ex, body_st, it, k)
            else:
                ex.assign(body_st, fid, s.target, Unknown('loop element'), s)
        body_st.ghost[('loopidx', s.lineno)] = k
        ha = self.hooks.get('loop_assume')
        if ha and feasible:
            ha(ex, body_st, fid, s)
        if not feasible:
            outs = []                 # the loop body is unreachable
        elif cond is not None:
            outs = cond(body_st)      # executes test + body
        else:
            outs = ex.exec_block(body, body_st, fid)
        res = []
        falls = []
        if _cands:
            # Houdini: a guessed `C >= k ==> U bound` that the body does not
            # preserve is dropped and the loop is examined again without it
            bad = []
            for o in outs:
                if o.kind not in ('fall', 'continue'):
                    continue
                fr_ = o.st.frames[fid]
                for cd in _cands:
                    if cd in bad:
                        continue
                    if cd[0] == 'first':
                        vu = fr_.get(cd[1], UNBOUND)
                        bnd = z3.BoolVal(False) if vu is UNBOUND else (
                            vu.flag if isinstance(vu, MaybeBound) else
                            z3.BoolVal(True))
                        g_ = self.guards_formula(ex, o.st, fid, cd[2])
                        if g_ is None or ex.check(o.st.pc, [
                                g_, z3.Not(bnd)]) != z3.unsat:
                            bad.append(cd)
                        continue
                    u_, c_, k_ = cd
                    vu, vc = fr_.get(u_, UNBOUND), fr_.get(c_)
                    bnd = z3.BoolVal(False) if vu is UNBOUND else (
                        vu.flag if isinstance(vu, MaybeBound) else
                        z3.BoolVal(True))
                    tc = vc.t if isinstance(vc, I) else (
                        z3.IntVal(vc) if type(vc) is int else None)
                    if tc is None or ex.check(o.st.pc, [
                            tc >= k_, z3.Not(bnd)]) != z3.unsat:
                        bad.append(cd)
            if bad:
                return self.generic_loop(
                    ex, _st0.copy(), s, fid, it, ln, cond,
                    _cands=[c for c in _cands if c not in bad], _st0=_st0)
        for o in outs:
            if o.kind in ('fall', 'continue'):
                falls.append(o.st)
                if inv is not None:
                    for text, g in inv(ex, o.st, fid, k + 1, it):
                        ex.oblige(o.st, 'loop-invariant-preserved', g, s,
                                  'loop at line %d: %s is preserved' % (
                                      s.lineno, text))
                # obligations recorded on this path must survive although the
                # state itself is dropped
                res.append(Outcome('dropped', o.st))
            elif o.kind == 'break':
                o.st.ghost[('breaked', s.lineno)] = True
                res.append(Outcome('fall', o.st))
            else:
                res.append(o)
        # 3. exit
        exhausted_possible = True
        has_exit = any(isinstance(x, (ast.Return, ast.Raise))
                       for x in ast.walk(ast.Module(body=body,
                                                    type_ignores=[])))
        if lnt is not None and isinstance(s, ast.For) and has_exit:
            # the loop cannot be exhausted if the last iteration never falls
            # through and there is at least one iteration
            can_fall_last = False
            for fs in falls:
                if ex.check(fs.pc, [k == lnt - 1]) != z3.unsat:
                    can_fall_last = True
                    break
            at_least_one = ex.decide(pre, lnt >= 1)
            if not can_fall_last and at_least_one is True:
                exhausted_possible = False
        if exhausted_possible:
            ex_st = pre.copy()
            self.havoc_for_loop(ex, ex_st, fid, body, tnames)
            self.assume_bound_cands(ex_st, fid, _cands, ex,
                                    lnt if lnt is not None else k)
            if lnt is not None:
                kk = lnt
            else:
                kk = k
            if inv is not None:
                for text, g in inv(ex, ex_st, fid, kk if lnt is not None
                                   else k, it):
                    ex_st.pc.append(g)
            # obligations recorded in dropped states are kept by merging the
            # lists into the exit state
            seen = set(id(o) for o in ex_st.obligs)
            for r in res:
                if r.kind == 'dropped':
                    for ob in r.st.obligs:
                        if id(ob) not in seen:
                            seen.add(id(ob))
                            ex_st.obligs.append(ob)
                    for nt in r.st.notes:
                        if nt not in ex_st.notes:
                            ex_st.notes.append(nt)
            if getattr(s, 'orelse', None):
                res.extend(ex.exec_block(s.orelse, ex_st, fid))
            else:
                res.append(Outcome('fall', ex_st))
        out = [r for r in res if r.kind != 'dropped']
        dropped = [r for r in res if r.kind == 'dropped']
        if dropped and not exhausted_possible:
            # keep their obligations alive on some surviving path
            carrier = None
            for r in out:
                carrier = r
                break
            if carrier is not None:
                seen = set(id(o) for o in carrier.st.obligs)
                for r in dropped:
                    for ob in r.st.obligs:
                        if id(ob) not in seen:
                            seen.add(id(ob))
                            carrier.st.obligs.append(ob)
            else:
                ex.orphans = getattr(ex, 'orphans', [])
                for r in dropped:
                    ex.orphans.extend(r.st.obligs)
        return out

    def on_loop_index(self, ex, st, it, k):
        """instantiate prefix-sum axioms at the loop index"""
        h = self.hooks.get('loop_index')
        if h:
            h(ex, st, it, k)

    def find_invariant(self, ex, s):
        f = self.loop_invariants.get((ex.fname, s.lineno))
        if f is not None:
            return f
        for matcher, f in self.loop_invariants.get('*', []):
            if matcher(ex, s):
                return f
        return None

    def while_by_invariant(self, ex, st, s, fid):
        def run(body_st):
            c = ex.truth(body_st, ex.ev(s.test, body_st, fid), s.test)
            outs = []
            d = c if isinstance(c, bool) else ex.decide(body_st, c)
            if d is not False:
                b1 = body_st.copy()
                if d is None:
                    b1.pc.append(c)
                outs.extend(ex.exec_block(s.body, b1, fid))
            return outs
        outs = self.generic_loop(ex, st, s, fid, None, None, run)
        # exit states additionally satisfy the negated test
        res = []
        for o in outs:
            if o.kind == 'fall' and o.st.ghost.pop(('breaked', s.lineno),
                                                   None):
                pass
            elif o.kind == 'fall':
                try:
                    c = ex.truth(o.st, ex.ev(s.test, o.st, fid), s.test)
                    if not isinstance(c, bool):
                        o.st.pc.append(z3.Not(c))
                    elif c is True:
                        pass
                except (PyRaise, NeedFork, Unsupported):
                    pass
            res.append(o)
        return res
