"""pyvc: path-sensitive symbolic executor / VC generator over the Python `ast`
of the real sources under /repo/src/python (DESIGN 2.3).

Values
  python constants (int, float, str, bool, None, tuple)   concrete
  I(z3 Int)  R(z3 Real)  B(z3 Bool)                         symbolic scalars
  Dyn(tag, i, r, s)     value of statically unknown type (user options ...)
  Ref(oid)              reference to a heap object (matrix, dict, list,
                        closure, module, opaque ...)
  Ext(name)             a library function known by its dotted name
  Unknown(why)          anything else (no information)
Integers are unbounded (exact); floats are treated as mathematical reals
(ASSUMPTION, listed in every evidence file).
"""
import ast, itertools, z3, copy, sys, os


class Unsupported(Exception):
    pass


class NeedFork(Exception):
    def __init__(self, cond):
        self.cond = cond


class PyRaise(Exception):
    """a Python exception propagating on the current path"""

    def __init__(self, etype, msg=None, origin=None):
        self.etype = etype
        self.msg = msg
        self.origin = origin


class PathLimit(Exception):
    pass


# ------------------------------------------------------------------ values
class I:
    __slots__ = ('t',)

    def __init__(self, t):
        self.t = z3.IntVal(t) if isinstance(t, int) else t

    def __repr__(self):
        return 'I(%s)' % self.t


class R:
    __slots__ = ('t',)

    def __init__(self, t):
        if isinstance(t, (int, float)):
            from fractions import Fraction
            t = z3.RealVal(Fraction(t))
        self.t = t

    def __repr__(self):
        return 'R(%s)' % self.t


class B:
    __slots__ = ('t',)

    def __init__(self, t):
        self.t = z3.BoolVal(t) if isinstance(t, bool) else t

    def __repr__(self):
        return 'B(%s)' % self.t


TAG_NONE, TAG_BOOL, TAG_INT, TAG_FLOAT, TAG_STR, TAG_OBJ = range(6)
_strids = {}


def strid(s):
    if s not in _strids:
        _strids[s] = len(_strids) + 1
    return _strids[s]


class Dyn:
    """scalar of unknown type: tag in TAG_*, i = value if bool/int, r = value
    if float, s = interned string id if str"""
    __slots__ = ('tag', 'i', 'r', 's', 'name')
    _n = itertools.count()

    def __init__(self, name, tag=None, i=None, r=None, s=None):
        self.name = name
        self.tag = tag if tag is not None else z3.Int('tag(%s)' % name)
        self.i = i if i is not None else z3.Int('int(%s)' % name)
        self.r = r if r is not None else z3.Real('flt(%s)' % name)
        self.s = s if s is not None else z3.Int('str(%s)' % name)

    def __repr__(self):
        return 'Dyn(%s)' % self.name


class Ref:
    __slots__ = ('oid',)

    def __init__(self, oid):
        self.oid = oid

    def __repr__(self):
        return 'Ref(%s)' % self.oid

    def __eq__(self, o):
        return isinstance(o, Ref) and o.oid == self.oid

    def __hash__(self):
        return hash(('ref', self.oid))


class Ext:
    __slots__ = ('name',)

    def __init__(self, name):
        self.name = name

    def __repr__(self):
        return 'Ext(%s)' % self.name


class BoundMethod:
    __slots__ = ('obj', 'name')

    def __init__(self, obj, name):
        self.obj, self.name = obj, name

    def __repr__(self):
        return 'BoundMethod(%r.%s)' % (self.obj, self.name)


class MaybeBound:
    """a local variable that is assigned inside a loop and was unbound when
    the loop was entered: at the head of an arbitrary iteration it is bound
    iff `flag` holds (definite-assignment tracking through loops)"""
    def __init__(self, flag, val):
        self.flag, self.val = flag, val

    def __repr__(self):
        return 'MaybeBound(%s, %r)' % (self.flag, self.val)


class Unknown:
    _n = itertools.count()

    def __init__(self, why='', role=None):
        self.why = why
        self.role = role
        self.uid = next(Unknown._n)

    def __repr__(self):
        return 'Unknown(%s%s)' % (self.why, ':' + self.role if self.role
                                  else '')


class HObj:
    """heap object"""
    __slots__ = ('kind', 'f', 'meta')

    def __init__(self, kind, f=None, meta=None):
        self.kind = kind
        self.f = f if f is not None else {}
        self.meta = meta if meta is not None else {}

    def copy(self):
        f = {}
        for k, v in self.f.items():
            if isinstance(v, (list, dict)):
                v = copy.copy(v)
            f[k] = v
        return HObj(self.kind, f, self.meta)

    def __repr__(self):
        return 'HObj(%s,%s)' % (self.kind, list(self.f))


class Oblig:
    __slots__ = ('site', 'kind', 'pc', 'goal', 'text', 'line', 'status',
                 'extra')

    def __init__(self, site, kind, pc, goal, text, line, extra=None):
        self.site, self.kind, self.pc, self.goal = site, kind, pc, goal
        self.text, self.line = text, line
        self.status = None
        self.extra = extra or {}


class State:
    def __init__(self):
        self.frames = {}      # fid -> {name: value}
        self.parent = {}      # fid -> parent fid (static chain)
        self.heap = {}        # oid -> HObj
        self.pc = []
        self.obligs = []
        self.ghost = {}
        self.visits = {}
        self.choice_seq = 0
        self.handled = []     # exception types caught so far on this path
        self.notes = []

    def copy(self):
        s = State.__new__(State)
        s.frames = {k: dict(v) for k, v in self.frames.items()}
        s.parent = dict(self.parent)
        s.heap = {k: v.copy() for k, v in self.heap.items()}
        s.pc = list(self.pc)
        s.obligs = list(self.obligs)
        s.ghost = dict(self.ghost)
        s.visits = dict(self.visits)
        s.choice_seq = self.choice_seq
        s.handled = list(self.handled)
        s.notes = list(self.notes)
        return s


class Outcome:
    __slots__ = ('kind', 'st', 'val')

    def __init__(self, kind, st, val=None):
        self.kind, self.st, self.val = kind, st, val


EXC_PARENTS = {
    'ZeroDivisionError': 'ArithmeticError', 'OverflowError': 'ArithmeticError',
    'FloatingPointError': 'ArithmeticError', 'ArithmeticError': 'Exception',
    'ValueError': 'Exception', 'TypeError': 'Exception',
    'IndexError': 'LookupError', 'KeyError': 'LookupError',
    'LookupError': 'Exception', 'NameError': 'Exception',
    'UnboundLocalError': 'NameError', 'AttributeError': 'Exception',
    'NotImplementedError': 'RuntimeError', 'RuntimeError': 'Exception',
    'IOError': 'Exception', 'OSError': 'Exception', 'EOFError': 'Exception',
    'StopIteration': 'Exception', 'AssertionError': 'Exception',
    'ImportError': 'Exception', 'SyntaxError': 'Exception',
    'Exception': 'BaseException', 'KeyboardInterrupt': 'BaseException',
}


def exc_subclass(e, parent):
    while e is not None:
        if e == parent:
            return True
        e = EXC_PARENTS.get(e)
    return False


BUILTIN_NAMES = set(EXC_PARENTS) | {
    'len', 'max', 'min', 'sum', 'abs', 'range', 'isinstance', 'int', 'float',
    'complex', 'list', 'tuple', 'dict', 'str', 'type', 'print', 'zip',
    'enumerate', 'sorted', 'reversed', 'any', 'all', 'open', 'hasattr',
    'getattr', 'setattr', 'callable', 'map', 'filter', 'set', 'bool', 'id',
    'repr', 'iter', 'next', 'object', 'slice', 'globals', 'locals', 'round',
    'divmod', 'pow', 'BaseException', 'True', 'False', 'None', 'super',
    'NotImplemented', 'Ellipsis', '__name__', 'issubclass', 'frozenset',
    'bytes', 'chr', 'ord', 'format', 'vars', 'dir', 'input', 'memoryview',
    'property', 'staticmethod', 'classmethod', 'long_'}


def is_sym(v):
    return isinstance(v, (I, R, B, Dyn))


def const_of(v):
    """python constant for a value if it is concrete"""
    if isinstance(v, (bool, int, float, str)) or v is None:
        return True, v
    if isinstance(v, I):
        s = z3.simplify(v.t)
        if z3.is_int_value(s):
            return True, s.as_long()
    if isinstance(v, B):
        s = z3.simplify(v.t)
        if z3.is_true(s):
            return True, True
        if z3.is_false(s):
            return True, False
    return False, None


class Executor:
    MAXPATHS = 3000

    def __init__(self, module_ast, modname, lib, config=None):
        self.mod = module_ast
        self.modname = modname
        self.lib = lib            # contract library (see extlib.py)
        self.cfg = config or {}
        self.solver = z3.Solver()
        self.solver.set('timeout', self.cfg.get('branch_timeout_ms', 3000))
        self.axioms = []
        self.n_ax = 0
        self.oid = itertools.count(1)
        self.fid = itertools.count(1)
        self.names = {}
        self.trusted = set()
        self.unmodelled = set()
        self.solver_time = 0.0
        self.n_checks = 0
        self.cache = {}
        self.fname = '?'
        self.depth = 0
        self.ctx_stack = []
        self.funcs = {n.name: n for n in module_ast.body
                      if isinstance(n, ast.FunctionDef)}
        self.classes = {n.name: n for n in module_ast.body
                        if isinstance(n, ast.ClassDef)}

    # ---------------------------------------------------------------- misc
    def fresh(self, base):
        """fresh symbol name.  Inside a statement the name is a function of
        (statement, visit count on this path, sequence number), so that the
        fork-and-retry of a statement regenerates the same symbols."""
        if self.ctx_stack:
            c = self.ctx_stack[-1]
            c[2] += 1
            return '%s!%d.%d.%d' % (base, c[0], c[1], c[2])
        n = self.names.get(base, 0)
        self.names[base] = n + 1
        return base if n == 0 else '%s#%d' % (base, n)

    def fresh_int(self, base):
        return I(z3.Int(self.fresh(base)))

    def fresh_real(self, base):
        return R(z3.Real(self.fresh(base)))

    def fresh_bool(self, base):
        return B(z3.Bool(self.fresh(base)))

    def fresh_dyn(self, base):
        d = Dyn(self.fresh(base))
        self.axioms.append(z3.And(d.tag >= 0, d.tag <= TAG_OBJ))
        self.axioms.append(z3.Implies(d.tag == TAG_BOOL, z3.Or(d.i == 0,
                                                                d.i == 1)))
        return d

    def alloc(self, st, kind, f=None, meta=None):
        oid = next(self.oid)
        st.heap[oid] = HObj(kind, f, meta)
        return Ref(oid)

    def obj(self, st, ref):
        return st.heap[ref.oid]

    def check(self, pc, extra, timeout=None):
        import time
        from engine import smt
        seeds = set()
        for e in extra:
            seeds |= smt.symbols(e)
        allc = list(self.axioms) + list(pc)
        idx = smt.relevant(allc, seeds)
        s = self.solver
        if timeout:
            s.set('timeout', timeout)
        s.push()
        try:
            for i in sorted(idx):
                s.add(allc[i])
            for e in extra:
                s.add(e)
            t = time.time()
            r = s.check()
            self.solver_time += time.time() - t
            self.n_checks += 1
            return r
        finally:
            s.pop()
            if timeout:
                s.set('timeout', self.cfg.get('branch_timeout_ms', 3000))

    def decide(self, st, c):
        if isinstance(c, bool):
            return c
        c = z3.simplify(c)
        if z3.is_true(c):
            return True
        if z3.is_false(c):
            return False
        from engine import smt
        allc = list(self.axioms) + list(st.pc)
        idx = smt.relevant(allc, smt.symbols(c))
        key = (frozenset(allc[i].get_id() for i in idx), c.get_id())
        hit = self.cache.get(key)
        if hit is not None:
            return hit[0]
        rel = [allc[i] for i in sorted(idx)]
        if self.check_raw(rel, [c]) == z3.unsat:
            res = False
        elif self.check_raw(rel, [z3.Not(c)]) == z3.unsat:
            res = True
        else:
            res = None
        self.cache[key] = (res, rel, c)
        return res

    def check_raw(self, conj, extra, timeout=None):
        import time
        s = self.solver
        if timeout:
            s.set('timeout', timeout)
        s.push()
        try:
            for p in conj:
                s.add(p)
            for e in extra:
                s.add(e)
            t = time.time()
            r = s.check()
            self.solver_time += time.time() - t
            self.n_checks += 1
            return r
        finally:
            s.pop()
            if timeout:
                s.set('timeout', self.cfg.get('branch_timeout_ms', 3000))

    def oblige(self, st, kind, goal, node, text, extra=None):
        if isinstance(goal, bool):
            goal = z3.BoolVal(goal)
        goal = z3.simplify(goal)
        line = getattr(node, 'lineno', 0) if node is not None else 0
        site = '%s:%s:%s' % (self.fname, kind, text)
        st.obligs.append(Oblig(site, kind, None if z3.is_true(goal) else
                               list(st.pc), goal, text, line, extra))

    def note(self, st, msg):
        if msg not in st.notes:
            st.notes.append(msg)

    def choose(self, st, node, what):
        """nondeterministic choice point (e.g. 'this call raises'): returns
        True/False when the path already fixes it, else forks"""
        key = (getattr(node, 'lineno', 0), getattr(node, 'col_offset', 0),
               what, st.visits.get(('choice', id(node), what), 0))
        var = z3.Bool(self.fresh('%s@%s' % (what, key[0])))
        d = self.decide(st, var)
        if d is None:
            raise NeedFork(var)
        st.visits[('choice', id(node), what)] = key[3] + 1
        return d

    # -------------------------------------------------------------- scalars
    def truth(self, st, v, node=None):
        """z3 Bool (or python bool) for the truth value of v"""
        if hasattr(v, 'abs_truth'):
            return v.abs_truth(self, st)
        if isinstance(v, bool):
            return v
        if v is None:
            return False
        if isinstance(v, (int, float)):
            return v != 0
        if isinstance(v, str):
            return len(v) > 0
        if isinstance(v, tuple):
            return len(v) > 0
        if isinstance(v, B):
            return v.t
        if isinstance(v, I):
            return v.t != 0
        if isinstance(v, R):
            return v.t != 0
        if isinstance(v, Dyn):
            return z3.Or(z3.And(z3.Or(v.tag == TAG_BOOL, v.tag == TAG_INT),
                                v.i != 0),
                         z3.And(v.tag == TAG_FLOAT, v.r != 0),
                         z3.And(v.tag == TAG_STR, z3.Bool('nonempty(%s)' %
                                                          v.name)),
                         z3.And(v.tag == TAG_OBJ, z3.Bool('truthy(%s)' %
                                                          v.name)))
        if isinstance(v, Ref):
            o = st.heap[v.oid]
            if o.kind == 'list':
                if 'items' in o.f:
                    return len(o.f['items']) > 0
                return o.f['len'].t > 0
            if o.kind == 'dict':
                if not o.f.get('open'):
                    return len(o.f['items']) > 0
                tb = o.meta.get('truth')
                if tb is None:
                    tb = z3.Bool(self.fresh('nonempty_dict%d' % v.oid))
                    o.meta['truth'] = tb
                return tb
            if o.kind == 'matrix':
                # bool(matrix) is True iff it has a nonzero element; unknown
                tb = z3.Bool(self.fresh('truthy_obj%d' % v.oid))
                return tb
            h = self.lib.hooks.get('truth_kind:' + o.kind) if hasattr(
                self, 'lib') and self.lib is not None else None
            if h is not None:
                return h(self, st, v)
            if o.kind == 'range':
                return self.lib.iter_len(self, st, v).t > 0
            if o.kind in ('closure',):
                return True
            raise Unsupported('truth value of a %s object' % o.kind)
        if isinstance(v, (Ext, BoundMethod)):
            return True
        if isinstance(v, Unknown):
            k = ('truth', v.uid)
            if k not in self.names:
                self.names[k] = z3.Bool(self.fresh('truthy_unknown'))
            return self.names[k]
        raise Unsupported('truth of %r' % (v,))

    def num(self, st, v, node=None, what='operand'):
        """-> ('int', z3 Int) | ('real', z3 Real) ; forks on Dyn tags; raises
        PyRaise(TypeError) for non-numeric"""
        if isinstance(v, bool):
            return 'int', z3.IntVal(int(v))
        if isinstance(v, int):
            return 'int', z3.IntVal(v)
        if isinstance(v, float):
            return 'real', R(v).t
        if isinstance(v, I):
            return 'int', v.t
        if isinstance(v, R):
            return 'real', v.t
        if isinstance(v, B):
            return 'int', z3.If(v.t, 1, 0)
        if isinstance(v, Dyn):
            isint = z3.Or(v.tag == TAG_INT, v.tag == TAG_BOOL)
            isnum = z3.Or(isint, v.tag == TAG_FLOAT)
            d = self.decide(st, isnum)
            if d is False:
                raise PyRaise('TypeError', 'non-numeric %s' % what)
            if d is None:
                raise NeedFork(isnum)
            d = self.decide(st, isint)
            if d is True:
                return 'int', v.i
            if d is False:
                return 'real', v.r
            return 'real', z3.If(isint, z3.ToReal(v.i), v.r)
        if v is None or isinstance(v, (str, tuple)):
            raise PyRaise('TypeError', 'non-numeric %s: %r' % (what, v))
        if isinstance(v, Unknown):
            # unknown scalar: treat as a fresh real (listed as unmodelled)
            k = ('numof', v.uid)
            if k not in self.names:
                self.names[k] = z3.Real(self.fresh('num_' + (v.why or 'u')
                                                   [:20].replace(' ', '_')))
            return 'real', self.names[k]
        raise Unsupported('numeric value of %r' % (v,))

    def wrap_num(self, kind, t):
        return I(t) if kind == 'int' else R(t)

    def arith(self, st, op, a, b, node):
        ca, va = const_of(a)
        cb, vb = const_of(b)
        if ca and cb and not isinstance(va, str) and not isinstance(vb, str) \
                and va is not None and vb is not None:
            try:
                if isinstance(op, ast.Add):
                    return va + vb
                if isinstance(op, ast.Sub):
                    return va - vb
                if isinstance(op, ast.Mult):
                    return va * vb
                if isinstance(op, ast.Div):
                    return va / vb
                if isinstance(op, ast.FloorDiv):
                    return va // vb
                if isinstance(op, ast.Mod):
                    return va % vb
                if isinstance(op, ast.Pow):
                    return va ** vb
            except ZeroDivisionError:
                raise PyRaise('ZeroDivisionError', 'division by zero')
            except TypeError:
                raise PyRaise('TypeError', 'bad operand types')
        if isinstance(a, str) and isinstance(op, ast.Mod):
            return Unknown('formatted string')
        if isinstance(a, str) or isinstance(b, str):
            if isinstance(op, ast.Add) and isinstance(a, str) and \
                    isinstance(b, str):
                return a + b
            return Unknown('string expression')
        ka, ta = self.num(st, a, node)
        kb, tb = self.num(st, b, node)
        real = ka == 'real' or kb == 'real'
        if real:
            if ka == 'int':
                ta = z3.ToReal(ta)
            if kb == 'int':
                tb = z3.ToReal(tb)
        if isinstance(op, ast.Add):
            return self.wrap_num('real' if real else 'int', ta + tb)
        if isinstance(op, ast.Sub):
            return self.wrap_num('real' if real else 'int', ta - tb)
        if isinstance(op, ast.Mult):
            if real and not self.cfg.get('exact_arith'):
                sa, sb = z3.simplify(ta), z3.simplify(tb)
                if not (z3.is_rational_value(sa) or z3.is_rational_value(
                        sb)):
                    # product of two symbolic reals: uninterpreted (the
                    # guard/field obligations compare identical terms; the
                    # exact semantics is only used by the algebra logic)
                    f = z3.Function('fmul', z3.RealSort(), z3.RealSort(),
                                    z3.RealSort())
                    if self.cfg.get('algebra'):
                        self.alg_facts = getattr(self, 'alg_facts', [])
                        self.alg_facts.append(f(ta, tb) == ta * tb)
                    return R(f(ta, tb))
            return self.wrap_num('real' if real else 'int', ta * tb)
        if isinstance(op, ast.Div):
            if not real:
                ta, tb = z3.ToReal(ta), z3.ToReal(tb)
            self.div_check(st, tb, node, real=True)
            if not self.cfg.get('exact_arith') and not z3.is_rational_value(
                    z3.simplify(tb)):
                f = z3.Function('fdiv', z3.RealSort(), z3.RealSort(),
                                z3.RealSort())
                if self.cfg.get('algebra'):
                    self.alg_facts = getattr(self, 'alg_facts', [])
                    self.alg_facts.append(z3.Implies(
                        tb != 0, f(ta, tb) * tb == ta))
                return R(f(ta, tb))
            return R(ta / tb)
        if isinstance(op, ast.FloorDiv):
            self.div_check(st, tb, node)
            if real:
                return R(z3.ToReal(z3.ToInt(ta / tb)))
            # python floor division == z3 div for positive divisor
            return I(z3.If(tb > 0, ta / tb, -((-ta) / (-tb))) if False else
                     z3.If(tb > 0, ta / tb, (-ta) / (-tb)))
        if isinstance(op, ast.Mod):
            self.div_check(st, tb, node)
            if real:
                return R(z3.Real(self.fresh('fmod')))
            return I(z3.If(tb > 0, ta % tb, -((-ta) % (-tb))))
        if isinstance(op, ast.Pow):
            cb, vb = const_of(b)
            if cb and isinstance(vb, int) and 0 <= vb <= 4:
                r = z3.RealVal(1) if real else z3.IntVal(1)
                for _ in range(vb):
                    r = r * ta
                return self.wrap_num('real' if real else 'int', r)
            f = z3.Function('pow', z3.RealSort(), z3.RealSort(),
                            z3.RealSort())
            if not real:
                ta, tb = z3.ToReal(ta), z3.ToReal(tb)
            return R(f(ta, tb))
        raise Unsupported('operator %s' % type(op).__name__)

    def div_check(self, st, tb, node, real=False):
        sb = z3.simplify(tb)
        if z3.is_rational_value(sb) or z3.is_int_value(sb):
            if sb.as_fraction() == 0:
                raise PyRaise('ZeroDivisionError', 'division by zero')
            return
        if real and not self.cfg.get('fork_on_zero_division'):
            # see below: assumed (listed), no solver call needed
            self.trusted.add('assumption: floating-point denominators are '
                             'nonzero on executed paths')
            if not any(p.eq(tb != 0) for p in st.pc[-40:]):
                st.pc.append(tb != 0)
            return
        d = self.decide(st, tb != 0)
        if d is True:
            return
        if d is False:
            raise PyRaise('ZeroDivisionError', 'division by zero')
        if self.cfg.get('fork_on_zero_division'):
            raise NeedFork(tb != 0)
        # floating-point division by zero raises ZeroDivisionError in Python;
        # whether a denominator can vanish is numerical and is assumed away
        # (listed): "denominators on executed paths are nonzero"
        self.trusted.add('assumption: floating-point denominators are '
                         'nonzero on executed paths')
        st.pc.append(tb != 0)

    def compare(self, st, op, a, b, node):
        # abstract objects with overloaded rich comparisons (modeling
        # functions: f <= a builds a constraint object)
        if hasattr(a, 'abs_cmp'):
            return a.abs_cmp(self, st, op, b, node, False)
        if hasattr(b, 'abs_cmp'):
            return b.abs_cmp(self, st, op, a, node, True)
        if isinstance(op, (ast.Is, ast.IsNot)):
            r = self.identical(st, a, b)
            if isinstance(op, ast.IsNot):
                r = (not r) if isinstance(r, bool) else z3.Not(r)
            return r if isinstance(r, bool) else B(r)
        if isinstance(op, (ast.In, ast.NotIn)):
            r = self.contains(st, b, a, node)
            if isinstance(op, ast.NotIn):
                r = (not r) if isinstance(r, bool) else z3.Not(r)
            return r if isinstance(r, bool) else B(r)
        if isinstance(op, (ast.Eq, ast.NotEq)):
            r = self.equal(st, a, b, node)
            if isinstance(op, ast.NotEq):
                r = (not r) if isinstance(r, bool) else z3.Not(r)
            return r if isinstance(r, bool) else B(r)
        ca, va = const_of(a)
        cb, vb = const_of(b)
        if ca and cb:
            try:
                return {ast.Lt: va < vb, ast.LtE: va <= vb, ast.Gt: va > vb,
                        ast.GtE: va >= vb}[type(op)]
            except TypeError:
                raise PyRaise('TypeError', 'unorderable types')
        ka, ta = self.num(st, a, node, 'comparison operand')
        kb, tb = self.num(st, b, node, 'comparison operand')
        if ka != kb:
            if ka == 'int':
                ta = z3.ToReal(ta)
            if kb == 'int':
                tb = z3.ToReal(tb)
        return B({ast.Lt: ta < tb, ast.LtE: ta <= tb, ast.Gt: ta > tb,
                  ast.GtE: ta >= tb}[type(op)])

    def identical(self, st, a, b):
        if hasattr(a, 'abs_is'):
            return a.abs_is(self, st, b)
        if hasattr(b, 'abs_is'):
            return b.abs_is(self, st, a)
        if a is None or b is None:
            x = b if a is None else a
            if x is None:
                return True
            if isinstance(x, Dyn):
                return x.tag == TAG_NONE
            if isinstance(x, Unknown):
                k = ('isnone', x.uid)
                if k not in self.names:
                    self.names[k] = z3.Bool(self.fresh('isnone_' + (
                        x.why or 'u')[:24].replace(' ', '_')))
                return self.names[k]
            return False
        if isinstance(a, Ref) and isinstance(b, Ref):
            return a.oid == b.oid
        if isinstance(a, Ext) and isinstance(b, Ext):
            return self.lib.canon(a.name) == self.lib.canon(b.name)
        if isinstance(a, (Ref, Ext)) or isinstance(b, (Ref, Ext)):
            if isinstance(a, (Dyn, Unknown)) or isinstance(b, (Dyn, Unknown)):
                return z3.Bool(self.fresh('same_object'))
            return False
        ca, va = const_of(a)
        cb, vb = const_of(b)
        if ca and cb:
            return va is vb or (type(va) == type(vb) and va == vb)
        return z3.Bool(self.fresh('same_object'))

    def equal(self, st, a, b, node):
        if hasattr(a, 'abs_eq'):
            return a.abs_eq(self, st, b)
        if hasattr(b, 'abs_eq'):
            return b.abs_eq(self, st, a)
        if a is None or b is None:
            return self.identical(st, a, b)
        if isinstance(a, str) or isinstance(b, str):
            s, o = (a, b) if isinstance(a, str) else (b, a)
            if isinstance(o, str):
                return s == o
            if isinstance(o, Dyn):
                return z3.And(o.tag == TAG_STR, o.s == strid(s))
            if isinstance(o, Unknown):
                return z3.Bool(self.fresh('streq'))
            return False
        if isinstance(a, tuple) and isinstance(b, tuple):
            if len(a) != len(b):
                return False
            rs = [self.equal(st, x, y, node) for x, y in zip(a, b)]
            if all(isinstance(r, bool) for r in rs):
                return all(rs)
            return z3.And([z3.BoolVal(r) if isinstance(r, bool) else r
                           for r in rs])
        if isinstance(a, tuple) or isinstance(b, tuple):
            o = b if isinstance(a, tuple) else a
            if isinstance(o, (Unknown, Dyn)):
                return z3.Bool(self.fresh('tupleeq'))
            return False
        if isinstance(a, Ref) or isinstance(b, Ref):
            if isinstance(a, Ref) and isinstance(b, Ref) and a.oid == b.oid:
                return True
            return z3.Bool(self.fresh('objeq'))
        if isinstance(a, (Ext, BoundMethod)) or isinstance(b, (
                Ext, BoundMethod)):
            if isinstance(a, Ext) and isinstance(b, Ext):
                return self.lib.canon(a.name) == self.lib.canon(b.name)
            return z3.Bool(self.fresh('objeq'))
        if isinstance(a, Unknown) or isinstance(b, Unknown):
            return z3.Bool(self.fresh('eq_unknown'))
        for x, y in ((a, b), (b, a)):
            if isinstance(x, Dyn) and not isinstance(y, Dyn):
                ky, ty = self.num(st, y, node)
                if ky == 'int':
                    return z3.Or(z3.And(z3.Or(x.tag == TAG_INT, x.tag ==
                                              TAG_BOOL), x.i == ty),
                                 z3.And(x.tag == TAG_FLOAT, x.r ==
                                        z3.ToReal(ty)))
                return z3.Or(z3.And(z3.Or(x.tag == TAG_INT, x.tag ==
                                          TAG_BOOL), z3.ToReal(x.i) == ty),
                             z3.And(x.tag == TAG_FLOAT, x.r == ty))
        if isinstance(a, Dyn) and isinstance(b, Dyn):
            return z3.And(a.tag == b.tag, a.i == b.i, a.r == b.r, a.s == b.s)
        ka, ta = self.num(st, a, node)
        kb, tb = self.num(st, b, node)
        if ka != kb:
            if ka == 'int':
                ta = z3.ToReal(ta)
            if kb == 'int':
                tb = z3.ToReal(tb)
        ca, va = const_of(a)
        cb, vb = const_of(b)
        if ca and cb:
            return va == vb
        return ta == tb

    def contains(self, st, container, item, node):
        if hasattr(container, 'abs_contains'):
            return container.abs_contains(self, st, item)
        if isinstance(container, Ref) and self.lib.hooks.get('contains'):
            r = self.lib.hooks['contains'](self, st, container, item, node)
            if r is not NOTFOUND:
                return r
        if isinstance(container, (tuple, list)):
            rs = [self.equal(st, item, x, node) for x in container]
            if any(r is True for r in rs):
                return True
            rs = [r for r in rs if r is not False]
            if not rs:
                return False
            return z3.Or(rs)
        if isinstance(container, str) and isinstance(item, str):
            return item in container
        if isinstance(container, Ref):
            o = st.heap[container.oid]
            if o.kind == 'dict':
                ck, kv = const_of(item)
                if ck and isinstance(kv, str):
                    return self.dict_has(st, container, kv)
                return z3.Bool(self.fresh('in_dict'))
            if o.kind == 'list' and 'items' in o.f:
                return self.contains(st, tuple(o.f['items']), item, node)
        return z3.Bool(self.fresh('contains'))

    # ---------------------------------------------------------------- dicts
    def dict_has(self, st, ref, key):
        o = st.heap[ref.oid]
        if key in o.f['items']:
            p = o.f.get('present', {}).get(key)
            return True if p is None else p
        if not o.f.get('open'):
            return False
        # symbolic dict: lazily create presence bit and value
        p = z3.Bool(self.fresh("has(%s,'%s')" % (o.meta.get('name', 'dict%d'
                                                            % ref.oid), key)))
        v = self.open_dict_value(st, ref, key)
        o.f.setdefault('present', {})[key] = p
        o.f['items'][key] = v
        return p

    def open_dict_value(self, st, ref, key):
        o = st.heap[ref.oid]
        mk = o.meta.get('value_factory')
        if mk is not None:
            return mk(self, st, ref, key)
        return self.fresh_dyn("%s['%s']" % (o.meta.get('name', 'dict'), key))

    def dict_get(self, st, ref, key, node, default=KeyError):
        o = st.heap[ref.oid]
        has = self.dict_has(st, ref, key)
        if has is True:
            return o.f['items'][key]
        if has is False:
            if default is KeyError:
                raise PyRaise('KeyError', key)
            return default
        d = self.decide(st, has)
        if d is True:
            return o.f['items'][key]
        if d is False:
            if default is KeyError:
                raise PyRaise('KeyError', key)
            return default
        if default is KeyError:
            raise NeedFork(has)
        m = self.merge_values(st, has, o.f['items'][key], default)
        if m is None:
            raise NeedFork(has)
        return m

    # --------------------------------------------------------------- merge
    def to_dyn(self, v):
        if isinstance(v, Dyn):
            return v
        z = z3.IntVal(0)
        zr = z3.RealVal(0)
        if v is None:
            return Dyn('c', z3.IntVal(TAG_NONE), z, zr, z)
        if isinstance(v, bool):
            return Dyn('c', z3.IntVal(TAG_BOOL), z3.IntVal(int(v)), zr, z)
        if isinstance(v, int):
            return Dyn('c', z3.IntVal(TAG_INT), z3.IntVal(v), zr, z)
        if isinstance(v, float):
            return Dyn('c', z3.IntVal(TAG_FLOAT), z, R(v).t, z)
        if isinstance(v, str):
            return Dyn('c', z3.IntVal(TAG_STR), z, zr, z3.IntVal(strid(v)))
        if isinstance(v, I):
            return Dyn('c', z3.IntVal(TAG_INT), v.t, zr, z)
        if isinstance(v, R):
            return Dyn('c', z3.IntVal(TAG_FLOAT), z, v.t, z)
        if isinstance(v, B):
            return Dyn('c', z3.IntVal(TAG_BOOL), z3.If(v.t, 1, 0), zr, z)
        return None

    def merge_values(self, st, c, a, b):
        """value equal to a when c holds, else b; None if not mergeable"""
        if a is b:
            return a
        if isinstance(a, MaybeBound) or isinstance(b, MaybeBound) or \
                a is UNBOUND or b is UNBOUND:
            def parts(v):
                if v is UNBOUND:
                    return z3.BoolVal(False), None, False
                if isinstance(v, MaybeBound):
                    return v.flag, v.val, True
                return z3.BoolVal(True), v, True
            fa, va, ha = parts(a)
            fb, vb, hb = parts(b)
            if ha and hb:
                mv = va if va is vb else self.merge_values(st, c, va, vb)
                if mv is None and not (va is None and vb is None):
                    # values that do not merge keep the paths apart (the
                    # precise value matters to the frame obligations)
                    return None
            else:
                mv = va if ha else vb
            return MaybeBound(z3.simplify(z3.If(c, fa, fb)), mv)
        if isinstance(a, Ref) and isinstance(b, Ref):
            return a if a.oid == b.oid else None
        if isinstance(a, Ext) and isinstance(b, Ext):
            return a if a.name == b.name else None
        if isinstance(a, Unknown) and isinstance(b, Unknown):
            if a.role == b.role:
                return Unknown('%s | %s' % (a.why, b.why), role=a.role)
            return None
        ca, va = const_of(a)
        cb, vb = const_of(b)
        if ca and cb and type(va) == type(vb) and va == vb:
            return a
        if isinstance(a, tuple) and isinstance(b, tuple) and len(a) == len(b):
            out = []
            for x, y in zip(a, b):
                m = self.merge_values(st, c, x, y)
                if m is None and not (x is None and y is None):
                    return None
                out.append(m)
            return tuple(out)
        num = (bool, int, float, I, R, B)
        if isinstance(a, num) and isinstance(b, num):
            if isinstance(a, (bool, B)) and isinstance(b, (bool, B)):
                ta = a.t if isinstance(a, B) else z3.BoolVal(a)
                tb = b.t if isinstance(b, B) else z3.BoolVal(b)
                return B(z3.If(c, ta, tb))
            if isinstance(a, (bool, B)) or isinstance(b, (bool, B)):
                da, db = self.to_dyn(a), self.to_dyn(b)
                return self.merge_dyn(c, da, db)
            ka, ta = self.num(st, a)
            kb, tb = self.num(st, b)
            if ka == kb:
                return self.wrap_num(ka, z3.If(c, ta, tb))
            da, db = self.to_dyn(a), self.to_dyn(b)
            return self.merge_dyn(c, da, db)
        da, db = self.to_dyn(a), self.to_dyn(b)
        if da is not None and db is not None:
            return self.merge_dyn(c, da, db)
        return None

    def merge_dyn(self, c, a, b):
        return Dyn(self.fresh('merge'), z3.If(c, a.tag, b.tag),
                   z3.If(c, a.i, b.i), z3.If(c, a.r, b.r),
                   z3.If(c, a.s, b.s))

    def try_merge_states(self, st0, c, a, b):
        """merge two fall-through states of an if/else; None if impossible"""
        if a.frames.keys() != b.frames.keys():
            self.merge_fail = 'reason 1'
            return None
        if a.handled != b.handled:
            self.merge_fail = 'reason 3'
            return None
        m = a.copy()
        for nt in b.notes:
            if nt not in m.notes:
                m.notes.append(nt)
        for fid in a.frames:
            fa, fb = a.frames[fid], b.frames[fid]
            for k in set(fa) | set(fb):
                if k not in fa or k not in fb:
                    self.merge_fail = 'reason 4'
                    return None
                va, vb = fa[k], fb[k]
                if va is vb:
                    continue
                mv = self.merge_values(st0, c, va, vb)
                if mv is None and not (va is None and vb is None):
                    self.merge_fail = 'reason 5'
                    return None
                m.frames[fid][k] = mv
        for oid in b.heap:
            if oid not in a.heap:
                m.heap[oid] = b.heap[oid].copy()
        for oid in a.heap:
            if oid not in b.heap:
                continue
            oa, ob = a.heap[oid], b.heap[oid]
            if oa.kind != ob.kind or oa.f.keys() != ob.f.keys():
                self.merge_fail = 'reason 6'
                return None
            for k in oa.f:
                va, vb = oa.f[k], ob.f[k]
                if va is vb:
                    continue
                if isinstance(va, dict) and isinstance(vb, dict):
                    if va.keys() != vb.keys():
                        self.merge_fail = 'reason 7'
                        return None
                    nd = {}
                    for kk in va:
                        if va[kk] is vb[kk]:
                            nd[kk] = va[kk]
                            continue
                        if z3.is_expr(va[kk]) and z3.is_expr(vb[kk]):
                            nd[kk] = z3.If(c, va[kk], vb[kk])
                            continue
                        mv = self.merge_values(st0, c, va[kk], vb[kk])
                        if mv is None and not (va[kk] is None and vb[kk] is
                                               None):
                            self.merge_fail = 'reason 8'
                            return None
                        nd[kk] = mv
                    m.heap[oid].f[k] = nd
                    continue
                if isinstance(va, list) and isinstance(vb, list):
                    if len(va) != len(vb):
                        self.merge_fail = 'reason 9'
                        return None
                    nl = []
                    for x, y in zip(va, vb):
                        mv = self.merge_values(st0, c, x, y)
                        if mv is None and not (x is None and y is None):
                            self.merge_fail = 'reason 10'
                            return None
                        nl.append(mv)
                    m.heap[oid].f[k] = nl
                    continue
                if z3.is_expr(va) and z3.is_expr(vb):
                    m.heap[oid].f[k] = z3.If(c, va, vb)
                    continue
                mv = self.merge_values(st0, c, va, vb)
                if mv is None and not (va is None and vb is None):
                    self.merge_fail = 'reason 11'
                    return None
                m.heap[oid].f[k] = mv
        n0 = len(st0.pc)
        ea, eb = a.pc[n0:], b.pc[n0:]
        m.pc = st0.pc + [z3.Or(z3.And(ea) if ea else z3.BoolVal(True),
                               z3.And(eb) if eb else z3.BoolVal(True))]
        seen = set()
        m.obligs = []
        for o in a.obligs + b.obligs:
            if id(o) not in seen:
                seen.add(id(o))
                m.obligs.append(o)
        for k in set(a.ghost) | set(b.ghost):
            va, vb = a.ghost.get(k), b.ghost.get(k)
            if va is vb:
                continue
            if z3.is_expr(va) and z3.is_expr(vb) and va.sort() == vb.sort():
                m.ghost[k] = z3.If(c, va, vb)
            elif k[0] == 'choice' if isinstance(k, tuple) else False:
                m.ghost[k] = va if va is not None else vb
            else:
                self.merge_fail = 'reason 12'
                return None
        for k in set(a.visits) | set(b.visits):
            m.visits[k] = max(a.visits.get(k, 0), b.visits.get(k, 0))
        return m

    # ---------------------------------------------------------- name lookup
    def lookup(self, st, fid, name, node):
        f = fid
        while f is not None:
            fr = st.frames[f]
            if name in fr:
                v = fr[name]
                if v is UNBOUND:
                    raise PyRaise('UnboundLocalError', name)
                if isinstance(v, MaybeBound):
                    d = self.decide(st, v.flag)
                    if d is True:
                        return v.val
                    if d is False:
                        raise PyRaise('UnboundLocalError', name)
                    raise NeedFork(v.flag)
                return v
            f = st.parent.get(f)
        g = self.lib.module_global(self, st, self.modname, name)
        if g is not NOTFOUND:
            return g
        if name in BUILTIN_NAMES:
            return Ext('builtins.' + name)
        self.oblige(st, 'name-resolves', False, node,
                    'name %s resolves to a binding' % name,
                    extra={'prop': 'C10'})
        raise PyRaise('NameError', name)

    def store_name(self, st, fid, name, v):
        st.frames[fid][name] = v

    # ---------------------------------------------------------- expressions
    def ev(self, n, st, fid):
        m = getattr(self, 'ev_' + type(n).__name__, None)
        if m is None:
            self.note(st, 'unmodelled expression kind %s' % type(n).__name__)
            return Unknown(type(n).__name__)
        return m(n, st, fid)

    def ev_Constant(self, n, st, fid):
        return n.value

    def ev_Name(self, n, st, fid):
        return self.lookup(st, fid, n.id, n)

    def ev_Tuple(self, n, st, fid):
        return tuple(self.ev(e, st, fid) for e in n.elts)

    def ev_List(self, n, st, fid):
        items = [self.ev(e, st, fid) for e in n.elts]
        return self.alloc(st, 'list', {'items': items},
                          {'site': n.lineno, 'owner': 'FRESH'})

    def ev_Dict(self, n, st, fid):
        items = {}
        opn = False
        for k, v in zip(n.keys, n.values):
            kv = self.ev(k, st, fid) if k is not None else None
            vv = self.ev(v, st, fid)
            ck, kk = const_of(kv)
            if ck and isinstance(kk, (str, int)):
                items[kk] = vv
            else:
                opn = True
        return self.alloc(st, 'dict', {'items': items, 'open': opn},
                          {'site': n.lineno, 'owner': 'FRESH',
                           'literal': True})

    def ev_JoinedStr(self, n, st, fid):
        return Unknown('f-string')

    def ev_UnaryOp(self, n, st, fid):
        v = self.ev(n.operand, st, fid)
        if isinstance(n.op, ast.Not):
            t = self.truth(st, v, n)
            return (not t) if isinstance(t, bool) else B(z3.Not(t))
        if hasattr(v, 'abs_unop'):
            return v.abs_unop(self, st, n.op, n)
        if isinstance(n.op, ast.USub):
            c, k = const_of(v)
            if c and isinstance(k, (int, float)):
                return -k
            if isinstance(v, Ref):
                return self.lib.binop(self, st, 'neg', v, None, n)
            kk, t = self.num(st, v, n)
            return self.wrap_num(kk, -t)
        if isinstance(n.op, ast.UAdd):
            if isinstance(v, Ref):
                return self.lib.binop(self, st, 'pos', v, None, n)
            return v
        return Unknown('unary')

    def ev_BinOp(self, n, st, fid):
        a = self.ev(n.left, st, fid)
        b = self.ev(n.right, st, fid)
        return self.binop(st, n.op, a, b, n)

    def binop(self, st, op, a, b, n):
        if hasattr(a, 'abs_binop'):
            return a.abs_binop(self, st, op, b, n)
        if hasattr(b, 'abs_rbinop'):
            return b.abs_rbinop(self, st, op, a, n)
        if isinstance(a, Ref) or isinstance(b, Ref):
            la = isinstance(a, Ref) and st.heap[a.oid].kind == 'list'
            lb = isinstance(b, Ref) and st.heap[b.oid].kind == 'list'
            if la or lb:
                return self.list_binop(st, op, a, b, n)
            return self.lib.binop(self, st, type(op).__name__, a, b, n)
        if isinstance(a, tuple) and isinstance(b, tuple) and isinstance(
                op, ast.Add):
            return a + b
        if isinstance(a, (Unknown, Ext, BoundMethod)) or isinstance(b, (
                Unknown, Ext, BoundMethod)):
            return Unknown('arith on unknown')
        return self.arith(st, op, a, b, n)

    def list_binop(self, st, op, a, b, n):
        if isinstance(op, ast.Add) and isinstance(a, Ref) and isinstance(
                b, Ref):
            oa, ob = st.heap[a.oid], st.heap[b.oid]
            if 'items' in oa.f and 'items' in ob.f:
                return self.alloc(st, 'list', {'items': oa.f['items'] +
                                               ob.f['items']},
                                  {'site': n.lineno, 'owner': 'FRESH'})
        if isinstance(op, ast.Mult):
            l, k = (a, b) if isinstance(a, Ref) and st.heap[a.oid].kind == \
                'list' else (b, a)
            ol = st.heap[l.oid]
            ck, kv = const_of(k)
            if 'items' in ol.f and ck and isinstance(kv, int) and kv <= 64:
                return self.alloc(st, 'list', {'items': ol.f['items'] * kv},
                                  {'site': n.lineno, 'owner': 'FRESH'})
            if 'items' in ol.f and len(ol.f['items']) == 1:
                kk, kt = self.num(st, k, n)
                nm = self.fresh('replist')
                return self.alloc(st, 'list', {
                    'len': I(z3.If(kt > 0, kt, 0)), 'elem': ('const',
                                                           ol.f['items'][0])},
                    {'site': n.lineno, 'owner': 'FRESH', 'name': nm})
        self.note(st, 'unmodelled list arithmetic')
        return self.alloc(st, 'list', {'len': self.fresh_int('len'),
                                       'elem': ('unknown',)},
                          {'site': n.lineno, 'owner': 'FRESH'})

    def ev_BoolOp(self, n, st, fid):
        """short-circuit; result is the truth value when used as a condition
        and the selected operand otherwise (only the former is modelled
        precisely; `x = a or b` returns a merged value when possible)"""
        is_and = isinstance(n.op, ast.And)
        acc = None      # z3 Bool accumulated
        vals = []
        guard_added = 0
        try:
            for i, e in enumerate(n.values):
                v = self.ev(e, st, fid)
                t = self.truth(st, v, e)
                vals.append((v, t))
                if isinstance(t, bool):
                    if t == (not is_and):
                        # decides the result
                        return self.boolop_result(st, is_and, vals)
                    continue
                d = self.decide(st, t)
                if d is not None:
                    vals[-1] = (v, d)
                    if d == (not is_and):
                        return self.boolop_result(st, is_and, vals)
                    continue
                if i < len(n.values) - 1:
                    # evaluate the rest under the guard
                    st.pc.append(t if is_and else z3.Not(t))
                    guard_added += 1
            return self.boolop_result(st, is_and, vals)
        finally:
            for _ in range(guard_added):
                st.pc.pop()

    def boolop_result(self, st, is_and, vals):
        ts = [t for _, t in vals]
        if all(isinstance(t, bool) for t in ts):
            # python semantics: value of the deciding operand
            for v, t in vals:
                if t == (not is_and):
                    return v
            return vals[-1][0]
        zs = [z3.BoolVal(t) if isinstance(t, bool) else t for t in ts]
        return B(z3.And(zs) if is_and else z3.Or(zs))

    def ev_Compare(self, n, st, fid):
        left = self.ev(n.left, st, fid)
        res = []
        added = 0
        try:
            for op, c in zip(n.ops, n.comparators):
                right = self.ev(c, st, fid)
                r = self.compare(st, op, left, right, n)
                if len(n.ops) == 1 and hasattr(r, 'abs_object'):
                    return r
                if r is False:
                    return False
                if r is not True:
                    t = r.t if isinstance(r, B) else r
                    res.append(t)
                    if len(n.ops) > 1:
                        st.pc.append(t)
                        added += 1
                left = right
        finally:
            for _ in range(added):
                st.pc.pop()
        if not res:
            return True
        return B(z3.And(res) if len(res) > 1 else res[0])

    def ev_IfExp(self, n, st, fid):
        c = self.truth(st, self.ev(n.test, st, fid), n)
        d = c if isinstance(c, bool) else self.decide(st, c)
        if d is True:
            return self.ev(n.body, st, fid)
        if d is False:
            return self.ev(n.orelse, st, fid)
        raise NeedFork(c)

    def ev_Attribute(self, n, st, fid):
        v = self.ev(n.value, st, fid)
        return self.getattr(st, v, n.attr, n)

    def getattr(self, st, v, attr, n):
        if hasattr(v, 'abs_getattr'):
            r = v.abs_getattr(self, st, attr, n)
            if r is not NOTFOUND:
                return r
            return BoundMethod(v, attr)
        if isinstance(v, Ext):
            return self.lib.ext_attr(self, st, v, attr, n)
        if isinstance(v, Ref):
            o = st.heap[v.oid]
            if o.kind == 'module':
                return self.lib.ext_attr(self, st, Ext(o.f['name']), attr, n)
            r = self.lib.obj_attr(self, st, v, attr, n)
            if r is not NOTFOUND:
                return r
            return BoundMethod(v, attr)
        if isinstance(v, (Unknown, Dyn)):
            return BoundMethod(v, attr)
        if isinstance(v, (str, tuple, int, float)):
            return BoundMethod(v, attr)
        if v is None:
            raise PyRaise('AttributeError', "'NoneType' object has no "
                          "attribute '%s'" % attr)
        return BoundMethod(v, attr)

    def ev_Subscript(self, n, st, fid):
        v = self.ev(n.value, st, fid)
        idx = self.ev_index(n.slice, st, fid)
        return self.getitem(st, v, idx, n)

    def ev_index(self, s, st, fid):
        if isinstance(s, ast.Slice):
            return ('slice', self.ev(s.lower, st, fid) if s.lower else None,
                    self.ev(s.upper, st, fid) if s.upper else None,
                    self.ev(s.step, st, fid) if s.step else None)
        if isinstance(s, ast.Tuple):
            return tuple(self.ev_index(e, st, fid) for e in s.elts)
        return self.ev(s, st, fid)

    def getitem(self, st, v, idx, n):
        if hasattr(v, 'abs_getitem'):
            return v.abs_getitem(self, st, idx, n)
        if isinstance(v, tuple):
            c, k = const_of(idx)
            if c and isinstance(k, int):
                try:
                    return v[k]
                except IndexError:
                    raise PyRaise('IndexError', 'tuple index out of range')
            if isinstance(idx, tuple) and idx and idx[0] == 'slice':
                lo, hi, stp = (const_of(x)[1] if x is not None else None
                               for x in idx[1:])
                return v[slice(lo, hi, stp)]
            return Unknown('tuple item')
        if isinstance(v, str):
            return Unknown('string item')
        if v is None:
            raise PyRaise('TypeError', "'NoneType' object is not "
                          "subscriptable")
        if isinstance(v, Ref):
            o = st.heap[v.oid]
            if o.kind == 'dict':
                c, k = const_of(idx)
                if c and isinstance(k, (str, int)):
                    return self.dict_get(st, v, k, n)
                return self.lib.dict_getitem_sym(self, st, v, idx, n)
            if o.kind == 'list':
                return self.list_getitem(st, v, idx, n)
            return self.lib.getitem(self, st, v, idx, n)
        if isinstance(v, Dyn):
            d = self.decide(st, v.tag == TAG_NONE)
            if d is True:
                raise PyRaise('TypeError', "'NoneType' object is not "
                              "subscriptable")
        self.note(st, 'subscript of unknown value')
        return Unknown('item of unknown')

    def list_getitem(self, st, ref, idx, n):
        o = st.heap[ref.oid]
        if isinstance(idx, tuple) and idx and idx[0] == 'slice':
            if 'items' in o.f:
                cs = [const_of(x) if x is not None else (True, None)
                      for x in idx[1:]]
                if all(c for c, _ in cs):
                    sl = slice(*[k for _, k in cs])
                    return self.alloc(st, 'list', {'items': o.f['items'][sl]},
                                      {'site': n.lineno, 'owner': 'FRESH'})
            return self.lib.list_slice(self, st, ref, idx, n)
        if 'items' in o.f:
            c, k = const_of(idx)
            if c and isinstance(k, int):
                try:
                    return o.f['items'][k]
                except IndexError:
                    raise PyRaise('IndexError', 'list index out of range')
            # symbolic index into a concrete list
            kk, t = self.num(st, idx, n)
            items = o.f['items']
            for j in range(len(items)):
                d = self.decide(st, t == j)
                if d is True:
                    return items[j]
            return Unknown('list item at symbolic index')
        return self.lib.symlist_item(self, st, ref, idx, n)

    def ev_Call(self, n, st, fid):
        f = self.ev(n.func, st, fid)
        args = []
        for a in n.args:
            if isinstance(a, ast.Starred):
                v = self.ev(a.value, st, fid)
                if isinstance(v, tuple):
                    args.extend(v)
                elif getattr(v, 'abs_star', False):
                    args.append(v)      # an abstract argument sequence
                elif isinstance(v, Ref) and 'items' in st.heap[v.oid].f:
                    args.extend(st.heap[v.oid].f['items'])
                else:
                    raise Unsupported('*args with symbolic sequence')
            else:
                args.append(self.ev(a, st, fid))
        kwargs = {}
        for k in n.keywords:
            v = self.ev(k.value, st, fid)
            if k.arg is None:
                if isinstance(v, Ref) and st.heap[v.oid].kind == 'dict':
                    o = st.heap[v.oid]
                    if o.f.get('open') or o.f.get('present'):
                        kwargs['**'] = v
                    else:
                        kwargs.update(o.f['items'])
                else:
                    kwargs['**'] = v
            else:
                kwargs[k.arg] = v
        return self.call(st, f, args, kwargs, n, fid)

    def call(self, st, f, args, kwargs, n, fid):
        if isinstance(f, Ref):
            o = st.heap[f.oid]
            if o.kind == 'closure':
                return self.call_closure(st, f, args, kwargs, n)
            return self.lib.call_object(self, st, f, args, kwargs, n)
        if isinstance(f, Ext):
            return self.lib.call_ext(self, st, f.name, args, kwargs, n)
        if isinstance(f, BoundMethod):
            if hasattr(f.obj, 'abs_method'):
                return f.obj.abs_method(self, st, f.name, args, kwargs, n)
            return self.lib.call_method(self, st, f.obj, f.name, args, kwargs,
                                        n)
        if isinstance(f, Unknown):
            return self.lib.call_unknown(self, st, f, args, kwargs, n)
        if hasattr(f, 'abs_call'):
            return f.abs_call(self, st, args, kwargs, n)
        if f is None:
            raise PyRaise('TypeError', "'NoneType' object is not callable")
        if isinstance(f, Dyn):
            return self.lib.call_unknown(self, st, Unknown(f.name), args,
                                         kwargs, n)
        raise Unsupported('call of %r' % (f,))

    def bind_args(self, st, fn, defaults, args, kwargs, n):
        a = fn.args
        names = [x.arg for x in a.posonlyargs + a.args]
        bound = {}
        if len(args) > len(names) and not a.vararg:
            raise PyRaise('TypeError', 'too many positional arguments')
        for nm, v in zip(names, args):
            bound[nm] = v
        if a.vararg:
            bound[a.vararg.arg] = tuple(args[len(names):])
        extra = {}
        for k, v in kwargs.items():
            if k == '**':
                extra['**'] = v
                continue
            if k in names or k in [x.arg for x in a.kwonlyargs]:
                if k in bound:
                    raise PyRaise('TypeError', 'multiple values for ' + k)
                bound[k] = v
            elif a.kwarg:
                extra[k] = v
            else:
                raise PyRaise('TypeError', 'unexpected keyword ' + k)
        nd = len(a.defaults)
        for i, nm in enumerate(names):
            if nm not in bound:
                j = i - (len(names) - nd)
                if j >= 0:
                    bound[nm] = defaults[j]
                else:
                    raise PyRaise('TypeError', 'missing argument ' + nm)
        for x, d in zip(a.kwonlyargs, defaults[nd:]):
            if x.arg not in bound:
                bound[x.arg] = d
        if a.kwarg:
            if '**' in extra:
                # forwarded symbolic keyword dict
                if len(extra) == 1:
                    bound[a.kwarg.arg] = extra['**']
                else:
                    raise Unsupported('mixing **dict with explicit extras')
            else:
                bound[a.kwarg.arg] = self.alloc(st, 'dict', {
                    'items': dict(extra), 'open': False},
                    {'owner': 'FRESH', 'name': 'kwargs'})
        return bound

    def call_closure(self, st, f, args, kwargs, n):
        o = st.heap[f.oid]
        fn = o.f['node']
        if self.depth > self.cfg.get('max_inline_depth', 12):
            raise Unsupported('closure inlining too deep')
        bound = self.bind_args(st, fn, o.f['defaults'], args, kwargs, n)
        nf = next(self.fid)
        st.frames[nf] = dict(bound)
        st.parent[nf] = o.f['env']
        self.declare_locals(st, nf, fn)
        self.depth += 1
        try:
            outs = self.exec_block(fn.body, st, nf)
        finally:
            self.depth -= 1
        # a closure call inside an expression must yield exactly one normal
        # outcome on this path; other outcomes are re-raised / forked
        norm = [o2 for o2 in outs if o2.kind in ('fall', 'return')]
        exc = [o2 for o2 in outs if o2.kind == 'raise']
        if len(outs) == 1:
            o2 = outs[0]
            self.adopt(st, o2.st)
            st.frames.pop(nf, None)
            if o2.kind == 'raise':
                raise PyRaise(*o2.val)
            return o2.val if o2.kind == 'return' else None
        raise MultiOutcome(outs, nf)

    def adopt(self, st, other):
        st.frames = other.frames
        st.parent = other.parent
        st.heap = other.heap
        st.pc = other.pc
        st.obligs = other.obligs
        st.ghost = other.ghost
        st.visits = other.visits
        st.handled = other.handled
        st.notes = other.notes

    def declare_locals(self, st, fid, fn):
        """names assigned in fn (not in nested defs) are locals: unbound
        until assigned"""
        for nm in assigned_names(fn.body):
            if nm not in st.frames[fid]:
                st.frames[fid][nm] = UNBOUND

    def ev_Lambda(self, n, st, fid):
        fn = ast.FunctionDef(name='<lambda>', args=n.args,
                             body=[ast.Return(value=n.body, lineno=n.lineno,
                                              col_offset=0)],
                             decorator_list=[], lineno=n.lineno, col_offset=0)
        defaults = [self.ev(d, st, fid) for d in n.args.defaults] + [
            self.ev(d, st, fid) if d is not None else None
            for d in n.args.kw_defaults]
        return self.alloc(st, 'closure', {'node': fn, 'env': fid,
                                          'defaults': defaults},
                          {'name': '<lambda>'})

    def ev_ListComp(self, n, st, fid):
        return self.lib.listcomp(self, st, n, fid)

    def ev_GeneratorExp(self, n, st, fid):
        return self.lib.listcomp(self, st, n, fid)

    def ev_Starred(self, n, st, fid):
        return self.ev(n.value, st, fid)

    # ----------------------------------------------------------- statements
    def exec_block(self, stmts, st, fid):
        cur = [st]
        done = []
        for s in stmts:
            nxt = []
            for c in cur:
                for o in self.exec_stmt_retry(s, c, fid):
                    if o.kind == 'fall':
                        nxt.append(o.st)
                    else:
                        done.append(o)
            cur = nxt
            if not cur:
                break
            if len(cur) + len(done) > self.MAXPATHS:
                raise PathLimit('more than %d paths in %s' % (
                    self.MAXPATHS, self.fname))
        return [Outcome('fall', c) for c in cur] + done

    def exec_stmt(self, s, st, fid):
        visit = st.visits.get(id(s), 0)
        if self.cfg.get('trace'):
            import time as _t
            print('%s[%.1fs] line %s %s pc=%d checks=%d' % (
                ' ' * len(self.ctx_stack), _t.time() - self.cfg['trace'],
                getattr(s, 'lineno', 0), type(s).__name__, len(st.pc),
                self.n_checks), flush=True)
        self.ctx_stack.append([getattr(s, 'lineno', 0), visit, 0])
        try:
            st1 = st.copy()
            st1.choice_seq = 0
            try:
                outs = self.exec_stmt1(s, st1, fid)
            except PyRaise as e:
                outs = [Outcome('raise', st1, (e.etype, e.msg, getattr(
                    s, 'lineno', 0) if e.origin is None else e.origin))]
            for o in outs:
                o.st.visits[id(s)] = visit + 1
            return outs
        finally:
            self.ctx_stack.pop()

    def exec_stmt_retry(self, s, st, fid):
        """fork-and-retry wrapper"""
        try:
            return self.exec_stmt(s, st, fid)
        except NeedFork as nf:
            outs = []
            if self.cfg.get('trace'):
                print('FORK at line %s on %s' % (getattr(s, 'lineno', 0),
                                                 str(nf.cond)[:150]),
                      flush=True)
            for c in (nf.cond, z3.Not(nf.cond)):
                if self.check(st.pc, [c]) == z3.unsat:
                    continue
                st2 = st.copy()
                st2.pc.append(c)
                outs.extend(self.exec_stmt_retry(s, st2, fid))
            return outs
        except MultiOutcome as mo:
            # a closure called inside this statement produced several
            # outcomes: re-run the statement once per outcome, constrained
            # by that outcome's path condition
            outs = []
            n0 = len(st.pc)
            seen = set()
            for o in mo.outs:
                extra = o.st.pc[n0:]
                key = tuple(e.get_id() for e in extra)
                if key in seen or not extra:
                    continue
                seen.add(key)
                if self.check(st.pc, extra) == z3.unsat:
                    continue
                st2 = st.copy()
                st2.pc.extend(extra)
                outs.extend(self.exec_stmt_retry(s, st2, fid))
            if not seen:
                raise Unsupported('closure with several outcomes under the '
                                  'same path condition (line %s)' %
                                  getattr(s, 'lineno', 0))
            return outs


    def exec_stmt1(self, s, st, fid):
        m = getattr(self, 'st_' + type(s).__name__, None)
        if m is None:
            self.note(st, 'unmodelled statement kind %s' % type(s).__name__)
            for nm in assigned_names([s]):
                st.frames[fid][nm] = Unknown('assigned by unmodelled '
                                             'statement')
            return [Outcome('fall', st)]
        return m(s, st, fid)

    def st_Pass(self, s, st, fid):
        return [Outcome('fall', st)]

    def st_Global(self, s, st, fid):
        self.oblige(st, 'no-global-store', False, s,
                    'no `global` declaration (module state is not written)')
        return [Outcome('fall', st)]

    st_Nonlocal = st_Global

    def st_Expr(self, s, st, fid):
        r = self.stmt_level_call(s.value, st, fid)
        if r is not None:
            return [Outcome('fall', o.st) if o.kind == 'value' else o
                    for o in r]
        self.ev(s.value, st, fid)
        return [Outcome('fall', st)]

    def stmt_level_call(self, e, st, fid):
        """a call of a closure that is the whole expression of a statement is
        executed with all its outcomes (no re-execution): returns a list of
        Outcome('value', st, v) / Outcome('raise', ...) or None if e is not
        such a call"""
        if not isinstance(e, ast.Call):
            return None
        f = self.ev(e.func, st, fid)
        if not (isinstance(f, Ref) and st.heap[f.oid].kind == 'closure'):
            # evaluate normally (the callee value is recomputed; cheap)
            return None
        args = []
        for a in e.args:
            if isinstance(a, ast.Starred):
                return None
            args.append(self.ev(a, st, fid))
        kwargs = {}
        for k in e.keywords:
            if k.arg is None:
                return None
            kwargs[k.arg] = self.ev(k.value, st, fid)
        o = st.heap[f.oid]
        fn = o.f['node']
        if self.depth > self.cfg.get('max_inline_depth', 12):
            raise Unsupported('closure inlining too deep')
        bound = self.bind_args(st, fn, o.f['defaults'], args, kwargs, e)
        nf = next(self.fid)
        st.frames[nf] = dict(bound)
        st.parent[nf] = o.f['env']
        self.declare_locals(st, nf, fn)
        self.depth += 1
        try:
            outs = self.exec_block(fn.body, st, nf)
        finally:
            self.depth -= 1
        res = []
        for o2 in outs:
            o2.st.frames.pop(nf, None)
            o2.st.parent.pop(nf, None)
            if o2.kind == 'raise':
                res.append(o2)
            else:
                res.append(Outcome('value', o2.st, o2.val if o2.kind ==
                                   'return' else None))
        return res

    def st_Import(self, s, st, fid):
        for a in s.names:
            nm = (a.asname or a.name).split('.')[0]
            st.frames[fid][nm] = Ext(a.name if a.asname else
                                     a.name.split('.')[0])
        return [Outcome('fall', st)]

    def st_ImportFrom(self, s, st, fid):
        for a in s.names:
            st.frames[fid][a.asname or a.name] = Ext('%s.%s' % (s.module,
                                                                a.name))
        return [Outcome('fall', st)]

    def st_FunctionDef(self, s, st, fid):
        defaults = [self.ev(d, st, fid) for d in s.args.defaults] + [
            self.ev(d, st, fid) if d is not None else None
            for d in s.args.kw_defaults]
        st.frames[fid][s.name] = self.alloc(
            st, 'closure', {'node': s, 'env': fid, 'defaults': defaults},
            {'name': s.name})
        return [Outcome('fall', st)]

    def st_Return(self, s, st, fid):
        if s.value is not None:
            r = self.stmt_level_call(s.value, st, fid)
            if r is not None:
                return [Outcome('return', o.st, o.val) if o.kind == 'value'
                        else o for o in r]
        v = self.ev(s.value, st, fid) if s.value is not None else None
        return [Outcome('return', st, v)]

    def st_Raise(self, s, st, fid):
        if s.exc is None:
            cur = st.ghost.get('current_exc')
            if cur:
                raise PyRaise(*cur)
            raise PyRaise('RuntimeError', 'no active exception')
        e = s.exc
        etype, msg = None, None
        if isinstance(e, ast.Call):
            f = self.ev(e.func, st, fid)
            if isinstance(f, Ext) and f.name.startswith('builtins.'):
                etype = f.name[len('builtins.'):]
            if e.args and isinstance(e.args[0], ast.Constant):
                msg = e.args[0].value
            elif e.args:
                try:
                    mv = self.ev(e.args[0], st, fid)
                    msg = mv if isinstance(mv, str) else None
                except PyRaise:
                    raise
        else:
            f = self.ev(e, st, fid)
            if isinstance(f, Ext) and f.name.startswith('builtins.'):
                etype = f.name[len('builtins.'):]
        if etype is None:
            etype = 'Exception'
            self.note(st, 'raise of non-builtin exception')
        raise PyRaise(etype, msg, s.lineno)

    def st_Assert(self, s, st, fid):
        return [Outcome('fall', st)]

    def st_Delete(self, s, st, fid):
        for t in s.targets:
            if isinstance(t, ast.Name):
                st.frames[fid][t.id] = UNBOUND
            else:
                self.lib.delete(self, st, t, fid)
        return [Outcome('fall', st)]

    def st_Assign(self, s, st, fid):
        r = self.stmt_level_call(s.value, st, fid)
        if r is not None:
            outs = []
            for o in r:
                if o.kind == 'value':
                    for t in s.targets:
                        self.assign(o.st, fid, t, o.val, s)
                    outs.append(Outcome('fall', o.st))
                else:
                    outs.append(o)
            return outs
        v = self.ev(s.value, st, fid)
        for t in s.targets:
            self.assign(st, fid, t, v, s)
        return [Outcome('fall', st)]

    def st_AnnAssign(self, s, st, fid):
        if s.value is not None:
            self.assign(st, fid, s.target, self.ev(s.value, st, fid), s)
        return [Outcome('fall', st)]

    def assign(self, st, fid, t, v, s):
        if isinstance(t, ast.Name):
            st.frames[fid][t.id] = v
            w = self.cfg.get('watch_assign')
            if w and t.id in w and fid == 1:
                # contract hook: an obligation on every assignment of a
                # named variable of the function under contract
                w[t.id](self, st, fid, v, s)
        elif isinstance(t, (ast.Tuple, ast.List)):
            items = None
            if isinstance(v, tuple):
                items = list(v)
            elif isinstance(v, Ref) and 'items' in st.heap[v.oid].f and \
                    st.heap[v.oid].kind == 'list':
                items = list(st.heap[v.oid].f['items'])
            if items is None:
                items = self.lib.unpack(self, st, v, len(t.elts), s)
            if len(items) != len(t.elts):
                raise PyRaise('ValueError', 'unpack length mismatch')
            for e, x in zip(t.elts, items):
                self.assign(st, fid, e, x, s)
        elif isinstance(t, ast.Subscript):
            base = self.ev(t.value, st, fid)
            idx = self.ev_index(t.slice, st, fid)
            self.setitem(st, base, idx, v, s)
        elif isinstance(t, ast.Attribute):
            base = self.ev(t.value, st, fid)
            self.lib.setattr(self, st, base, t.attr, v, s)
        elif isinstance(t, ast.Starred):
            raise Unsupported('starred assignment')
        else:
            raise Unsupported('assignment target %s' % type(t).__name__)

    def setitem(self, st, base, idx, v, s):
        if hasattr(base, 'abs_setitem'):
            return base.abs_setitem(self, st, idx, v, s)
        if base is None:
            raise PyRaise('TypeError', "'NoneType' object does not support "
                          "item assignment")
        if isinstance(base, Ref):
            o = st.heap[base.oid]
            if o.kind == 'dict':
                c, k = const_of(idx)
                self.lib.on_mutate(self, st, base, 'dict.__setitem__', s)
                if c and isinstance(k, (str, int)):
                    o.f['items'][k] = v
                    if 'present' in o.f and k in o.f['present']:
                        o.f['present'] = dict(o.f['present'])
                        del o.f['present'][k]
                else:
                    o.f['open'] = True
                    self.note(st, 'dict store with symbolic key')
                return
            if o.kind == 'list':
                c, k = const_of(idx)
                self.lib.on_mutate(self, st, base, 'list.__setitem__', s)
                if c and isinstance(k, int) and 'items' in o.f:
                    try:
                        o.f['items'][k] = v
                    except IndexError:
                        raise PyRaise('IndexError', 'list assignment index '
                                      'out of range')
                    return
                return self.lib.list_setitem_sym(self, st, base, idx, v, s)
            return self.lib.setitem(self, st, base, idx, v, s)
        self.note(st, 'item store into unknown value')

    def st_AugAssign(self, s, st, fid):
        t = s.target
        if isinstance(t, ast.Name):
            cur = self.lookup(st, fid, t.id, t)
            v = self.ev(s.value, st, fid)
            if hasattr(cur, 'abs_inplace'):
                # an abstract mutable object: x += v mutates it (all of its
                # aliases see the change) and rebinds the name to the result
                st.frames[fid][t.id] = cur.abs_inplace(self, st, s.op, v, s)
            elif isinstance(cur, Ref) and st.heap[cur.oid].kind not in (
                    'list',):
                r = self.lib.inplace(self, st, type(s.op).__name__, cur, v, s)
                st.frames[fid][t.id] = r
            elif isinstance(cur, Ref):
                r = self.lib.list_inplace(self, st, type(s.op).__name__, cur,
                                          v, s)
                st.frames[fid][t.id] = r
            else:
                st.frames[fid][t.id] = self.binop(st, s.op, cur, v, s)
        elif isinstance(t, ast.Subscript):
            base = self.ev(t.value, st, fid)
            idx = self.ev_index(t.slice, st, fid)
            cur = self.getitem(st, base, idx, t)
            v = self.ev(s.value, st, fid)
            if isinstance(cur, Ref) and st.heap[cur.oid].kind == 'list':
                r = self.lib.list_inplace(self, st, type(s.op).__name__, cur,
                                          v, s)
            elif isinstance(cur, Ref):
                r = self.lib.inplace(self, st, type(s.op).__name__, cur, v, s)
            else:
                r = self.binop(st, s.op, cur, v, s)
            self.setitem(st, base, idx, r, s)
        elif isinstance(t, ast.Attribute):
            base = self.ev(t.value, st, fid)
            cur = self.getattr(st, base, t.attr, t)
            v = self.ev(s.value, st, fid)
            if hasattr(cur, 'abs_inplace'):
                r = cur.abs_inplace(self, st, s.op, v, s)
            elif isinstance(cur, Ref) and st.heap[cur.oid].kind == 'list':
                r = self.lib.list_inplace(self, st, type(s.op).__name__, cur,
                                          v, s)
            elif isinstance(cur, Ref):
                r = self.lib.inplace(self, st, type(s.op).__name__, cur, v, s)
            else:
                r = self.binop(st, s.op, cur, v, s)
            self.lib.setattr(self, st, base, t.attr, r, s)
        else:
            raise Unsupported('augmented assignment target')
        return [Outcome('fall', st)]

    def st_If(self, s, st, fid):
        c = self.truth(st, self.ev(s.test, st, fid), s.test)
        d = c if isinstance(c, bool) else self.decide(st, c)
        if d is True:
            return self.exec_block(s.body, st, fid)
        if d is False:
            return self.exec_block(s.orelse, st, fid)
        sa = st.copy()
        sa.pc.append(c)
        sb = st.copy()
        sb.pc.append(z3.Not(c))
        ra = self.exec_block(s.body, sa, fid)
        rb = self.exec_block(s.orelse, sb, fid)
        fa = [o for o in ra if o.kind == 'fall']
        fb = [o for o in rb if o.kind == 'fall']
        if len(fa) == 1 and len(fb) == 1 and not self.cfg.get('no_merge'):
            # the merge condition must separate the two states: use the
            # branch condition when each arm has a single outcome, else the
            # conjunction of the path-condition suffix of the first state
            n0 = len(st.pc)
            ea = fa[0].st.pc[n0:]
            cm = c if (len(ra) == 1 and len(rb) == 1) else (
                z3.And(ea) if ea else z3.BoolVal(True))
            m = self.try_merge_states(st, cm, fa[0].st, fb[0].st)
            if m is not None:
                rest = [o for o in ra + rb if o.kind != 'fall']
                return [Outcome('fall', m)] + rest
            if self.cfg.get('trace'):
                print('NOMERGE at line %s: %s' % (s.lineno, getattr(
                    self, 'merge_fail', '?')), flush=True)
        elif self.cfg.get('trace'):
            print('SPLIT at line %s: %s / %s' % (s.lineno, [o.kind for o in
                                                            ra], [o.kind for
                                                                  o in rb]),
                  flush=True)
        return ra + rb

    def st_Try(self, s, st, fid):
        outs = self.exec_block(s.body, st, fid)
        res = []
        for o in outs:
            if o.kind == 'raise':
                et = o.val[0]
                handled = False
                for h in s.handlers:
                    types = self.handler_types(h, o.st, fid)
                    if types is None or any(exc_subclass(et, t)
                                            for t in types):
                        st2 = o.st
                        st2.handled = st2.handled + [(et, o.val[2])]
                        if h.name:
                            st2.frames[fid][h.name] = Unknown('exception '
                                                              'object')
                        old = st2.ghost.get('current_exc')
                        st2.ghost['current_exc'] = o.val
                        hres = self.exec_block(h.body, st2, fid)
                        for hr in hres:
                            if old is None:
                                hr.st.ghost.pop('current_exc', None)
                            else:
                                hr.st.ghost['current_exc'] = old
                        res.extend(hres)
                        handled = True
                        break
                if not handled:
                    res.append(o)
            elif o.kind == 'fall' and s.orelse:
                res.extend(self.exec_block(s.orelse, o.st, fid))
            else:
                res.append(o)
        if s.finalbody:
            fin = []
            for o in res:
                for fo in self.exec_block(s.finalbody, o.st, fid):
                    if fo.kind == 'fall':
                        fin.append(Outcome(o.kind, fo.st, o.val))
                    else:
                        fin.append(fo)
            res = fin
        return res

    def handler_types(self, h, st, fid):
        if h.type is None:
            return None
        ts = h.type.elts if isinstance(h.type, ast.Tuple) else [h.type]
        out = []
        for t in ts:
            v = self.ev(t, st, fid)
            if isinstance(v, Ext) and v.name.startswith('builtins.'):
                out.append(v.name[len('builtins.'):])
            else:
                out.append('Exception')
        return out

    def st_With(self, s, st, fid):
        for it in s.items:
            v = self.ev(it.context_expr, st, fid)
            if it.optional_vars is not None:
                self.assign(st, fid, it.optional_vars, Unknown('context'), s)
        return self.exec_block(s.body, st, fid)

    def st_Break(self, s, st, fid):
        return [Outcome('break', st)]

    def st_Continue(self, s, st, fid):
        return [Outcome('continue', st)]

    def st_ClassDef(self, s, st, fid):
        st.frames[fid][s.name] = Unknown('class ' + s.name)
        return [Outcome('fall', st)]

    # ---- loops
    def st_For(self, s, st, fid):
        it = self.ev(s.iter, st, fid)
        seq = self.lib.iter_values(self, st, it, s)
        if seq is not None and len(seq) <= self.cfg.get('unroll', 8):
            return self.unroll(s, st, fid, seq)
        return self.lib.loop_by_invariant(self, st, s, fid, it)

    def unroll(self, s, st, fid, seq):
        cur = [st]
        done = []
        for v in seq:
            nxt = []
            for c in cur:
                self.assign(c, fid, s.target, v, s)
                for o in self.exec_block(s.body, c, fid):
                    if o.kind in ('fall', 'continue'):
                        nxt.append(o.st)
                    elif o.kind == 'break':
                        done.append(Outcome('fall', o.st))
                    else:
                        done.append(o)
            cur = nxt
            if not cur:
                break
        res = []
        for c in cur:
            if s.orelse:
                res.extend(self.exec_block(s.orelse, c, fid))
            else:
                res.append(Outcome('fall', c))
        return res + done

    def st_While(self, s, st, fid):
        return self.lib.while_by_invariant(self, st, s, fid)

    # ------------------------------------------------------------ top level
    def run_function(self, fname, setup):
        """setup(ex, st, fid, fn) binds the parameters (scenario).  Returns
        list of Outcome for the function body."""
        self.fname = fname
        fn = self.find_function(fname)
        st = State()
        root = next(self.fid)
        st.frames[root] = {}
        st.parent[root] = None
        setup(self, st, root, fn)
        self.declare_locals(st, root, fn)
        # contract option: verify a mechanically extracted part of the body
        # (a list of consecutive statements chosen by structural anchors);
        # what precedes it is then represented by the scenario's setup
        sl = self.cfg.get('body_slice')
        body = sl(fn) if sl else fn.body
        outs = self.exec_block(body, st, root)
        res = []
        for o in outs:
            if o.kind == 'fall':
                res.append(Outcome('return', o.st, None))
            else:
                res.append(o)
        return res

    def find_function(self, fname):
        parts = fname.split('.')
        if len(parts) == 1:
            return self.funcs[fname]
        c = self.classes[parts[0]]
        for n in c.body:
            if isinstance(n, ast.FunctionDef) and n.name == parts[1]:
                return n
        # methods defined under a class-level version test
        # (`if sys.version_info[0] < 3: ... else: ...`): the branch that runs
        # under Python 3
        for n in c.body:
            if isinstance(n, ast.If) and 'version_info' in ast.dump(n.test):
                py3 = None
                t = n.test
                if isinstance(t, ast.Compare) and len(t.ops) == 1 and \
                        isinstance(t.comparators[0], ast.Constant) and \
                        t.comparators[0].value == 3:
                    if isinstance(t.ops[0], ast.Lt):
                        py3 = n.orelse
                    elif isinstance(t.ops[0], ast.GtE):
                        py3 = n.body
                for m in py3 or []:
                    if isinstance(m, ast.FunctionDef) and m.name == parts[1]:
                        return m
        raise KeyError(fname)


class MultiOutcome(Exception):
    def __init__(self, outs, fid):
        self.outs = outs
        self.fid = fid


class _Unbound:
    def __repr__(self):
        return 'UNBOUND'


class _NotFound:
    def __repr__(self):
        return 'NOTFOUND'


UNBOUND = _Unbound()
NOTFOUND = _NotFound()


def assigned_names(stmts):
    """names bound by assignment/for/with/def/import in the statements, not
    descending into nested function or class bodies"""
    out = []

    def tgt(t):
        if isinstance(t, ast.Name):
            out.append(t.id)
        elif isinstance(t, (ast.Tuple, ast.List)):
            for e in t.elts:
                tgt(e)
        elif isinstance(t, ast.Starred):
            tgt(t.value)

    def walk(s):
        if isinstance(s, (ast.FunctionDef, ast.ClassDef)):
            out.append(s.name)
            return
        if isinstance(s, ast.Assign):
            for t in s.targets:
                tgt(t)
        elif isinstance(s, (ast.AugAssign, ast.AnnAssign)):
            tgt(s.target)
        elif isinstance(s, ast.For):
            tgt(s.target)
        elif isinstance(s, ast.With):
            for it in s.items:
                if it.optional_vars is not None:
                    tgt(it.optional_vars)
        elif isinstance(s, (ast.Import, ast.ImportFrom)):
            for a in s.names:
                out.append((a.asname or a.name).split('.')[0])
        elif isinstance(s, ast.ExceptHandler):
            if s.name:
                out.append(s.name)
        for f in ('body', 'orelse', 'finalbody', 'handlers'):
            for c in getattr(s, f, []) or []:
                if isinstance(c, ast.AST):
                    walk(c)
    for s in stmts:
        walk(s)
    seen = []
    for n in out:
        if n not in seen:
            seen.append(n)
    return seen
