"""Run pyvc on one function / scenario, discharge obligations, return a plain
report (picklable)."""
import ast, os, time, traceback, z3
from .core import (Executor, Unsupported, PathLimit, Oblig, PyRaise,
                   NeedFork, MultiOutcome)

REPO = os.environ.get('VERIF_REPO', '/repo')
_AST_CACHE = {}


def load_module(pyfile, repo=None):
    path = os.path.join(repo or REPO, 'src/python', pyfile)
    key = (path, os.path.getmtime(path), os.path.getsize(path))
    if key not in _AST_CACHE:
        src = open(path).read()
        _AST_CACHE[key] = (ast.parse(src, filename=path), src)
    return _AST_CACHE[key]


def discharge(ex, ob, timeout_ms):
    if ob.pc is None:
        ob.status = 'proved'
        ob.extra['by'] = 'simplifier'
        return
    g = ob.goal
    if ob.kind == 'field-recomputed' and not z3.is_false(g):
        # algebra obligation: the definitions of inner products, products,
        # quotients and square roots (kept out of the path conditions) are
        # added as hypotheses; nonlinear real arithmetic (z3 nlsat)
        from engine import smt
        fl = list(getattr(ex, 'alg_facts', []))
        allc = list(ex.axioms) + list(ob.pc) + fl
        neg = z3.Not(g)
        idx = smt.relevant(allc, smt.symbols(neg))
        s2 = z3.Solver()
        s2.set('timeout', int(os.environ.get('VERIF_NRA_MS', '0')) or max(timeout_ms, 60000))
        for i in sorted(idx):
            s2.add(allc[i])
        s2.add(neg)
        r = s2.check()
        ob.status = 'proved' if r == z3.unsat else (
            'refuted' if r == z3.sat else 'undecided')
        ob.extra['by'] = 'z3 (NRA)'
        return
    if z3.is_false(g):
        # reachability of the path decides
        r = ex.check(ob.pc, [], timeout=timeout_ms)
    else:
        r = ex.check(ob.pc, [z3.Not(g)], timeout=timeout_ms)
    if r == z3.unsat:
        ob.status = 'proved'
        ob.extra['by'] = 'z3'
        if os.environ.get('VERIF_CROSSCHECK'):
            # thorough tier: second opinion from cvc5 on the same query
            from engine import smt
            r3 = smt.cross_check(list(ex.axioms) + list(ob.pc),
                                 z3.BoolVal(True) if z3.is_false(g)
                                 else z3.Not(g), timeout_s=20)
            ob.extra['cvc5'] = r3
            if r3 == 'unsat':
                ob.extra['by'] = 'z3+cvc5'
            elif r3 == 'sat':
                ob.status = 'undecided'
                ob.extra['by'] = 'z3 says proved, cvc5 says refuted'
    elif r == z3.sat:
        ob.status = 'refuted'
    else:
        r2 = ex.check(ob.pc, [] if z3.is_false(g) else [z3.Not(g)],
                      timeout=max(6 * timeout_ms, 60000))
        if r2 == z3.unsat:
            ob.status = 'proved'
            ob.extra['by'] = 'z3 (retry)'
        elif r2 == z3.sat:
            ob.status = 'refuted'
        else:
            ob.status = 'undecided'


def model_for(ex, ob, timeout_ms):
    s = z3.Solver()
    s.set('timeout', timeout_ms)
    for a in ex.axioms:
        s.add(a)
    for p in ob.pc or []:
        s.add(p)
    s.add(z3.Not(ob.goal))
    if s.check() != z3.sat:
        return None
    m = s.model()
    out = {}
    for d in m.decls():
        if d.arity() == 0:
            v = m[d]
            if d.name().startswith(('sym_obj', 'tag(c)', 'int(c)')):
                continue
            if z3.is_int_value(v):
                out[d.name()] = v.as_long()
            elif z3.is_true(v) or z3.is_false(v):
                out[d.name()] = z3.is_true(v)
            elif z3.is_rational_value(v):
                fr = v.as_fraction()
                out[d.name()] = float(fr) if fr.denominator != 1 else int(fr)
            elif z3.is_algebraic_value(v):
                out[d.name()] = float(v.approx(8).as_fraction())
    return out


def verify(pyfile, fname, lib, setup, on_outcomes, config=None,
           timeout_ms=10000, scenario='default', repo=None):
    """setup(ex, st, fid, fn): binds parameters.
    on_outcomes(ex, outcomes): adds obligations (via ex.oblige on the outcome
    states) and returns a summary dict."""
    t0 = time.time()
    rep = {'function': fname, 'file': pyfile, 'scenario': scenario,
           'status': 'ok', 'obligations': [], 'paths': 0, 'trusted': [],
           'summary': None, 'reason': None, 'notes': [], 'unmodelled': []}
    try:
        tree, src = load_module(pyfile, repo)
    except Exception as e:
        rep['status'] = 'error'
        rep['reason'] = 'cannot parse %s: %r' % (pyfile, e)
        return rep
    ex = Executor(tree, 'cvxopt.' + pyfile[:-3], lib, config)
    try:
        ex.find_function(fname)
    except KeyError:
        rep['status'] = 'missing'
        rep['reason'] = 'function %s not found in %s' % (fname, pyfile)
        return rep
    try:
        outs = ex.run_function(fname, setup)
        rep['paths'] = len(outs)
        if on_outcomes is not None:
            rep['summary'] = on_outcomes(ex, outs)
    except (Unsupported, PathLimit) as e:
        rep['status'] = 'unsupported'
        rep['reason'] = '%s: %s' % (type(e).__name__, e)
        rep['wall_s'] = time.time() - t0
        return rep
    except (NeedFork, MultiOutcome, PyRaise) as e:
        rep['status'] = 'error'
        rep['reason'] = 'escaped control exception ' + traceback.format_exc(
        )[-1500:]
        rep['wall_s'] = time.time() - t0
        return rep
    except Exception:
        rep['status'] = 'error'
        rep['reason'] = traceback.format_exc()[-2500:]
        rep['wall_s'] = time.time() - t0
        return rep
    seen = {}
    notes = []
    for o in outs:
        for ob in o.st.obligs:
            seen[id(ob)] = ob
        for nt in o.st.notes:
            if nt not in notes:
                notes.append(nt)
    for ob in getattr(ex, 'orphans', []):
        seen[id(ob)] = ob
    uniq = {}
    for ob in seen.values():
        key = (ob.site, ob.goal.get_id(), tuple(p.get_id() for p in ob.pc)
               if ob.pc is not None else None)
        uniq.setdefault(key, ob)
    sites = {}
    for ob in uniq.values():
        t_ob = time.time()
        discharge(ex, ob, timeout_ms)
        dt_ob = round(time.time() - t_ob, 2)
        s = sites.setdefault(ob.site, {
            'site': ob.site, 'kind': ob.kind, 'text': ob.text,
            'line': ob.line, 'instances': 0, 'proved': 0, 'refuted': 0,
            'undecided': 0, 'model': None, 'by': set(), 'lines': set(),
            'prop': ob.extra.get('prop')})
        s['instances'] += 1
        s[ob.status] += 1
        s['max_solve_s'] = max(s.get('max_solve_s', 0.0), dt_ob)
        s['lines'].add(ob.line)
        if ob.status == 'proved':
            s['by'].add(ob.extra.get('by', 'z3'))
        if ob.status == 'refuted' and s['model'] is None:
            s['model'] = model_for(ex, ob, timeout_ms) or {}
            s['line'] = ob.line
    for s in sites.values():
        s['status'] = 'refuted' if s['refuted'] else (
            'undecided' if s['undecided'] else 'proved')
        s['by'] = sorted(s['by'])
        s['lines'] = sorted(s['lines'])
        rep['obligations'].append(s)
    rep['obligations'].sort(key=lambda s: (s['line'], s['site']))
    rep['trusted'] = sorted(ex.trusted)
    rep['notes'] = notes
    rep['unmodelled'] = sorted(ex.unmodelled)
    rep['solver_s'] = ex.solver_time
    rep['checks'] = ex.n_checks
    rep['wall_s'] = time.time() - t0
    return rep
