"""Shared SMT helpers: cone-of-influence slicing of path conditions.

check(pc /\ extra) is decided on the conjuncts of pc (and of the axioms) that
share an uninterpreted symbol, transitively, with `extra`.  Because every path
condition is kept satisfiable (each conjunct is added only after a feasibility
check), the dropped conjuncts are an independent satisfiable set and the
sliced query is equisatisfiable with the full one.
"""
import z3

_SYMS = {}


def symbols(e):
    """frozenset of names of the uninterpreted constants / functions in e"""
    k = id(e)
    hit = _SYMS.get(k)
    if hit is not None and hit[1] is e:
        return hit[0]
    out = set()
    seen = set()
    stack = [e]
    while stack:
        x = stack.pop()
        i = x.get_id()
        if i in seen:
            continue
        seen.add(i)
        if z3.is_quantifier(x):
            stack.append(x.body())
            continue
        if z3.is_app(x):
            d = x.decl()
            if d.kind() == z3.Z3_OP_UNINTERPRETED:
                out.add(d.name())
            for c in x.children():
                stack.append(c)
    fs = frozenset(out)
    _SYMS[k] = (fs, e)      # keep e alive: python ids are recycled otherwise
    return fs


def relevant(conjuncts, seeds):
    """indices of the conjuncts connected to the seed symbol set"""
    syms = [symbols(c) for c in conjuncts]
    cur = set(seeds)
    chosen = set()
    changed = True
    while changed:
        changed = False
        for i, s in enumerate(syms):
            if i in chosen:
                continue
            if not s or (s & cur):
                chosen.add(i)
                if not s <= cur:
                    cur |= s
                    changed = True
    return chosen


# ------------------------------------------------------------ second opinion
def cross_check(conjuncts, neg_goal, timeout_s=10, exe='/usr/bin/cvc5'):
    """Ask cvc5 (CLI, SMT-LIB 2 text produced by z3) whether
    conjuncts /\\ neg_goal is satisfiable.  Returns 'unsat' | 'sat' |
    'unknown' | 'error'.  Used in the thorough tier: a `proved` verdict of z3
    that cvc5 contradicts with `sat` is reported as a checker error."""
    import subprocess, tempfile, os
    idx = relevant(list(conjuncts), symbols(neg_goal))
    s = z3.Solver()
    for i in sorted(idx):
        s.add(conjuncts[i])
    s.add(neg_goal)
    text = s.to_smt2()
    logic = '(set-logic ALL)\n'
    fd, path = tempfile.mkstemp(suffix='.smt2')
    try:
        with os.fdopen(fd, 'w') as f:
            f.write(logic + text)
        try:
            p = subprocess.run([exe, '--lang', 'smt2', '--tlimit=%d' % (
                timeout_s * 1000), path], capture_output=True, text=True,
                timeout=timeout_s + 5)
        except subprocess.TimeoutExpired:
            return 'unknown'
        out = (p.stdout or '').strip().split('\n')[0].strip()
        if out in ('sat', 'unsat', 'unknown'):
            return out
        if 'interrupted' in (p.stdout + p.stderr) or 'timeout' in (
                p.stdout + p.stderr).lower():
            return 'unknown'
        return 'error'
    finally:
        try:
            os.remove(path)
        except OSError:
            pass
