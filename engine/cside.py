"""C-side verification runs: a pool of processes, one function per task."""
import os, sys, time, traceback
import multiprocessing as mp

ROOT = os.path.dirname(os.path.dirname(os.path.abspath(__file__)))
if ROOT not in sys.path:
    sys.path.insert(0, ROOT)


def _externs_for(cfile):
    from contracts.c import extern_cpython, extern_blas
    ext = {}
    ext.update(extern_cpython.EXTERNS)
    ext.update(extern_blas.EXTERNS)
    if cfile in ('lapack.c', 'misc_solvers.c'):
        from contracts.c import extern_lapack
        ext.update(extern_lapack.externs())
    return ext


def run_task(task):
    """task: dict(cfile, fn, mode, timeout_ms)"""
    try:
        from engine.cvc import cast, driver, wrapspec
        cfile, fn, mode = task['cfile'], task['fn'], task['mode']
        tu = cast.load_tu(cfile)
        ext = _externs_for(cfile)
        post = None
        init = driver.pycfunction_init
        cfg = {}
        if mode == 'lapack-wrapper':
            from contracts.c import blas_spec, lapack_spec
            ext.update(blas_spec.LOCAL_EXTERNS)
            post = lapack_spec.post
        elif mode == 'blas-wrapper':
            from contracts.c import blas_spec
            ext.update(blas_spec.LOCAL_EXTERNS)
            if fn in blas_spec.ROWS:
                row, kw = blas_spec.ROWS[fn], blas_spec.KW[fn]
                vp = getattr(blas_spec, 'VALUE_POSTS', {}).get(fn)

                def post(ex, fin, obs, row=row, kw=kw, vp=vp):
                    r = wrapspec.check_wrapper(ex, fin, row, obs, kw)
                    if vp is not None:
                        vp(ex, fin, obs)
                    return r
        elif mode == 'spec':
            import importlib
            m = importlib.import_module(task['module'])
            spec = m.FUNCS[fn]
            ext.update(getattr(m, 'LOCAL_EXTERNS', {}))
            ext.update(spec.get('externs', {}))
            post = spec.get('post')
            init = spec.get('init', init)
            cfg = spec.get('config', {})
        rep = driver.verify_function(tu, fn, ext, init=init, config=cfg,
                                     post=post,
                                     timeout_ms=task.get('timeout_ms', 10000))
        rep['mode'] = mode
        rep['has_spec'] = post is not None
        return rep
    except Exception:
        return {'function': task.get('fn'), 'file': task.get('cfile'),
                'status': 'error', 'reason': traceback.format_exc(),
                'obligations': [], 'paths': 0, 'trusted': [], 'post': None}


def preload(cfiles):
    """parse each translation unit once (fills the AST cache) before the
    workers start"""
    from engine.cvc import cast
    for c in cfiles:
        cast.load_tu(c)


def _engine_hash():
    import hashlib, glob
    h = hashlib.sha1()
    files = sorted(glob.glob(os.path.join(ROOT, 'engine/cvc/*.py')))
    files += sorted(glob.glob(os.path.join(ROOT, 'contracts/c/*.py')))
    files += [os.path.join(ROOT, 'contracts/py/extern_cvxopt.py'),
              os.path.join(ROOT, 'contracts/py/algebra.py'),
              os.path.join(ROOT, 'engine/smt.py'),
              os.path.join(ROOT, 'engine/cside.py')]
    for f in files:
        h.update(f.encode())
        try:
            h.update(open(f, 'rb').read())
        except OSError:
            pass
    return h.hexdigest()


def _source_hash(cfile):
    import hashlib, glob
    from engine.cvc import cast
    d = os.path.join(cast.REPO, 'src/C')
    h = hashlib.sha1()
    for f in [os.path.join(d, cfile)] + sorted(glob.glob(os.path.join(
            d, '*.h'))):
        h.update(open(f, 'rb').read())
    return h.hexdigest()


def run_tasks(tasks, procs=None):
    """runs the tasks in a process pool; per-task reports are cached under
    .cache/cvc-reports keyed by the SHA-1 of every input (the translation
    unit and its headers, the engine, the contracts, the task), so that the
    several properties served by the same functions do not repeat the same
    symbolic execution within one tree state"""
    import hashlib, json
    procs = procs or min(16, os.cpu_count() or 4)
    cdir = os.path.join(ROOT, '.cache', 'cvc-reports')
    os.makedirs(cdir, exist_ok=True)
    eh = _engine_hash() + os.environ.get('VERIF_CROSSCHECK', '')
    sh = {}
    out = [None] * len(tasks)
    todo = []
    for i, t in enumerate(tasks):
        c = t['cfile']
        if c not in sh:
            sh[c] = _source_hash(c)
        key = hashlib.sha1((eh + sh[c] + json.dumps(t, sort_keys=True)
                            ).encode()).hexdigest()
        cp = os.path.join(cdir, key + '.json')
        if os.path.exists(cp) and not os.environ.get('VERIF_NOCACHE'):
            try:
                out[i] = json.load(open(cp))
                continue
            except Exception:
                pass
        todo.append((i, t, cp))
    if todo:
        reps = _run_tasks([t for _, t, _ in todo], procs)
        for (i, t, cp), r in zip(todo, reps):
            out[i] = r
            if r.get('status') in ('ok',):
                try:
                    tmp = cp + '.%d' % os.getpid()
                    with open(tmp, 'w') as f:
                        json.dump(r, f, default=str)
                    os.replace(tmp, cp)
                except Exception:
                    pass
    return out


def _run_tasks(tasks, procs):
    cfiles = sorted(set(t['cfile'] for t in tasks))
    # AST extraction in parallel first (one process per TU)
    ctx = mp.get_context('fork')
    with ctx.Pool(min(len(cfiles), procs)) as pool:
        pool.map(_preload_one, cfiles)
    with ctx.Pool(procs) as pool:
        reps = pool.map(run_task, tasks, chunksize=1)
    return reps


def _preload_one(c):
    from engine.cvc import cast
    cast.load_tu(c)
    return True
