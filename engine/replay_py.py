"""Run-time confirmation of Python-side refutations: the replay battery
(engine/replay/py_battery.py) is executed against an overlay build of the
current tree; a refuted obligation of kind K in function F is confirmed when
the battery reports a failure of oracle K that names F."""
import os, json, subprocess, tempfile, shutil
from engine import overlay

ROOT = os.path.dirname(os.path.dirname(os.path.abspath(__file__)))
KIND_MAP = {
    'loop-invariant-preserved': ['symmetric-s-blocks'],
    'loop-invariant-init': ['symmetric-s-blocks'],
    'frame-unknown-callee': ['frame'],
    'returns-dict': ['exception-type'],
    'name-resolves': ['exception-type'],
    'start-point-interior': ['start-point-validated', 'exception-type'],
}


class Battery:
    def __init__(self, extra_modules=()):
        self.result = None
        self.err = None
        self.extra = list(extra_modules)

    def run(self):
        if self.result is not None or self.err is not None:
            return
        d = tempfile.mkdtemp(prefix='cvxverif-py-')
        try:
            ok, log = overlay.build(d)
            if not ok:
                self.err = 'overlay build failed: ' + log[-1500:]
                return
            env = dict(os.environ)
            env['PYTHONPATH'] = d + ':' + os.path.join(ROOT, 'engine',
                                                       'replay')
            env['CVXOPT_VERIF'] = '1'
            p = subprocess.run(['/venv/bin/python', os.path.join(
                ROOT, 'engine', 'replay', 'py_battery.py')] + self.extra,
                capture_output=True, text=True, timeout=1500, env=env, cwd=d)
            for line in p.stdout.splitlines():
                if line.startswith('BATTERY-JSON '):
                    self.result = json.loads(line[len('BATTERY-JSON '):])
            if self.result is None:
                self.err = 'battery produced no result: ' + (
                    p.stderr or p.stdout)[-1500:]
        except Exception as e:
            self.err = repr(e)
        finally:
            shutil.rmtree(d, ignore_errors=True)


def make_replayer(extra_modules=()):
    bat = Battery(extra_modules)

    def replayer(ob, base):
        bat.run()
        if bat.err:
            return False, {'error': bat.err}
        parts = ob.oid.split(':')
        fn = parts[1] if len(parts) > 1 else ''
        kinds = [ob.kind] + KIND_MAP.get(ob.kind, [])
        hits = []
        for k in kinds:
            for f in bat.result.get(k, []):
                if fn.split('.')[-1] in f or (
                        '.' in fn and f.startswith(fn.split('.')[0] + ':')):
                    hits.append(f)
        info = {'battery': 'engine/replay/py_battery.py on an overlay build '
                'of the current tree', 'oracle': kinds,
                'failures_observed': hits,
                'how_to_rerun': 'D=$(mktemp -d); python3 /verif/engine/'
                'overlay.py $D; PYTHONPATH=$D:/verif/engine/replay '
                '/venv/bin/python /verif/engine/replay/py_battery.py'}
        return bool(hits), info
    return replayer
