"""Python-side verification runs: (function, scenario) tasks in a process
pool, with a content-addressed cache of the per-task reports (key = SHA-1 of
every input: the repository's Python sources, the engine and the contract
files), so that the several properties served by the same functions do not
redo the same symbolic execution within one tree state."""
import os, sys, json, hashlib, glob, importlib, traceback
import multiprocessing as mp

ROOT = os.path.dirname(os.path.dirname(os.path.abspath(__file__)))
if ROOT not in sys.path:
    sys.path.insert(0, ROOT)
REPO = os.environ.get('VERIF_REPO', '/repo')
CACHE = os.path.join(ROOT, '.cache', 'pyvc')


def tree_hash():
    h = hashlib.sha1()
    files = sorted(glob.glob(os.path.join(REPO, 'src/python/*.py')))
    files += sorted(glob.glob(os.path.join(ROOT, 'engine/pyvc/*.py')))
    files += sorted(glob.glob(os.path.join(ROOT, 'contracts/py/*.py')))
    files += [os.path.join(ROOT, 'engine/smt.py')]
    for f in files:
        h.update(f.encode())
        h.update(open(f, 'rb').read())
    return h.hexdigest()


def run_task(task):
    sys.setrecursionlimit(20000)
    try:
        from engine.pyvc import driver
        m = importlib.import_module(task['module'])
        spec = m.FUNCS[task['fn']]
        sc = spec['scenarios'][task['scenario']]
        cfg = dict(spec.get('config') or {})
        rep = driver.verify(task['pyfile'], spec.get('function', task['fn']),
                            m.L,
                            spec['setup'](sc), spec['on_outcomes'],
                            config=cfg, scenario=task['scenario'],
                            timeout_ms=task.get('timeout_ms', 10000))
        return rep
    except Exception:
        return {'function': task.get('fn'), 'file': task.get('pyfile'),
                'scenario': task.get('scenario'), 'status': 'error',
                'reason': traceback.format_exc()[-2000:], 'obligations': [],
                'paths': 0, 'trusted': [], 'notes': [], 'unmodelled': []}


def run_tasks(tasks, procs=None):
    procs = procs or min(16, os.cpu_count() or 4)
    th = tree_hash()
    os.makedirs(CACHE, exist_ok=True)
    out = [None] * len(tasks)
    todo = []
    for i, t in enumerate(tasks):
        key = hashlib.sha1((th + os.environ.get('VERIF_CROSSCHECK', '') +
                            json.dumps(t, sort_keys=True)).encode()
                           ).hexdigest()
        cp = os.path.join(CACHE, key + '.json')
        t['_cache'] = cp
        if os.path.exists(cp) and not os.environ.get('VERIF_NOCACHE'):
            try:
                out[i] = json.load(open(cp))
                continue
            except Exception:
                pass
        todo.append(i)
    if todo:
        ctx = mp.get_context('fork')
        with ctx.Pool(min(procs, len(todo))) as pool:
            reps = pool.map(run_task, [{k: v for k, v in tasks[i].items()
                                        if k != '_cache'} for i in todo],
                            chunksize=1)
        for i, r in zip(todo, reps):
            out[i] = r
            if r.get('status') in ('ok',):
                tmp = tasks[i]['_cache'] + '.%d' % os.getpid()
                with open(tmp, 'w') as f:
                    json.dump(r, f, default=str)
                os.replace(tmp, tasks[i]['_cache'])
        # prune stale cache entries (other tree states)
        keep = set(t['_cache'] for t in tasks)
        for f in glob.glob(os.path.join(CACHE, '*.json')):
            if f not in keep and os.path.getmtime(f) < \
                    __import__('time').time() - 6 * 3600:
                try:
                    os.remove(f)
                except OSError:
                    pass
    return out
