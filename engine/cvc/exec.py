"""cvc: symbolic executor / VC generator over the clang AST of one C function.

Integer values are *mathematical* integers (z3 Int).  Every signed arithmetic
operation and every narrowing conversion emits a `nooverflow` obligation (the
value lies in the range of its C type), so that
    all nooverflow obligations of a function proved
        ==> mathematical semantics == machine semantics on every path,
and the safety obligations (`footprint`, `deref`, `field-guard`, `divzero`,
`extern-requires`, ...) are stated against the mathematical values (O_math of
DESIGN 2.4).  O_wrap = O_math /\ nooverflow.
"""
import os
import z3, itertools, copy, sys
from . import cast as cast_mod


class Unsupported(Exception):
    pass


class NeedFork(Exception):
    def __init__(self, cond):
        self.cond = cond


class Impure(Exception):
    pass


class PathLimit(Exception):
    pass


# --------------------------------------------------------------- C types
INT_RANGES = {
    ('int', True): (-2**31, 2**31 - 1), ('int', False): (0, 2**32 - 1),
    ('long', True): (-2**63, 2**63 - 1), ('long', False): (0, 2**64 - 1),
    ('char', True): (-128, 127), ('char', False): (0, 255),
    ('short', True): (-2**15, 2**15 - 1), ('short', False): (0, 2**16 - 1),
}
TYPEDEF_INT = {
    'Py_ssize_t': 'long', 'int_t': 'long', 'ssize_t': 'long',
    'size_t': 'unsigned long', 'Py_UCS4': 'unsigned int', 'uint32_t':
    'unsigned int', 'Py_hash_t': 'long', 'long long': 'long',
    'unsigned long long': 'unsigned long', 'unsigned char': 'unsigned char',
    '_Bool': 'unsigned char', 'signed char': 'char',
}


class CT:
    """A C type, parsed from clang's (desugared) type string."""
    __slots__ = ('s', 'kind', 'base', 'signed', 'pointee', 'n')

    def __init__(self, s):
        s = (s or 'void').strip()
        for q in ('const ', 'volatile ', 'restrict ', 'static ', 'struct '):
            s = s.replace(q, '')
        s = s.replace(' const', '').replace('*restrict', '*').strip()
        self.s = s
        self.pointee = None
        self.signed = True
        self.base = None
        self.n = None
        if s.endswith(']'):
            self.kind = 'array'
            i = s.rindex('[')
            self.pointee = s[:i].strip()
            try:
                self.n = int(s[i + 1:-1])
            except ValueError:
                self.n = None
        elif '(*)' in s or (s.endswith(')') and '(' in s):
            self.kind = 'func'
        elif s.endswith('*'):
            self.kind = 'ptr'
            self.pointee = s[:-1].strip()
        else:
            b = TYPEDEF_INT.get(s, s)
            if b.startswith('unsigned'):
                self.signed = False
                b = b[len('unsigned'):].strip() or 'int'
            if b in ('int', 'long', 'char', 'short'):
                self.kind = 'int'
                self.base = b
            elif b.startswith('enum'):
                self.kind = 'int'
                self.base = 'int'
                self.signed = False
            elif b in ('double', 'float', 'long double'):
                self.kind = 'float'
            elif 'Complex' in b or b in ('complex_t',):
                self.kind = 'complex'
            elif b == 'void':
                self.kind = 'void'
            else:
                self.kind = 'struct'
                self.base = b

    def rng(self):
        return INT_RANGES[(self.base, self.signed)]

    def __repr__(self):
        return 'CT(%s)' % self.s


SIZEOF = {'Py_buffer': 80, 'PyObject': 16, 'matrix': 80, 'double': 8, 'float': 4, 'int': 4, 'long': 8, 'char': 1,
          'short': 2, 'unsigned int': 4, 'unsigned long': 8, 'void': 1,
          'number': 16, 'double _Complex': 16, 'complex_t': 16,
          '_Complex double': 16, 'unsigned char': 1,
          # sparse.c: (key, value) pairs used for sorting index lists
          'int_list': 16, 'double_list': 16, 'complex_list': 24}


def sizeof_type(s):
    t = CT(s)
    if t.kind == 'ptr' or t.kind == 'func':
        return 8
    if t.kind == 'int':
        return {'int': 4, 'long': 8, 'char': 1, 'short': 2}[t.base]
    if t.kind == 'float':
        return 8 if 'double' in t.s else 4
    if t.kind == 'complex':
        return 16
    if t.kind == 'void':
        return 1
    if t.kind == 'array' and t.n is not None:
        return t.n * sizeof_type(t.pointee)
    if t.s in SIZEOF:
        return SIZEOF[t.s]
    raise Unsupported('sizeof(%s)' % s)


# --------------------------------------------------------------- values
class IntV:
    __slots__ = ('t', 'ty')

    def __init__(self, t, ty='int'):
        if isinstance(t, bool):
            t = int(t)
        if isinstance(t, int):
            t = z3.IntVal(t)
        self.t = t
        self.ty = ty if isinstance(ty, str) else ty.s

    def __repr__(self):
        return 'IntV(%s:%s)' % (self.t, self.ty)


class BoolV:
    __slots__ = ('b',)

    def __init__(self, b):
        if isinstance(b, bool):
            b = z3.BoolVal(b)
        self.b = b

    def __repr__(self):
        return 'BoolV(%s)' % self.b


class FltV:
    """A floating or complex value: an opaque z3 Real term (no arithmetic is
    interpreted beyond literals and negation)."""
    __slots__ = ('t', 'ty')

    def __init__(self, t, ty='double'):
        self.t = t
        self.ty = ty

    def __repr__(self):
        return 'FltV(%s)' % self.t


class Region:
    """A block of memory.  size is a z3 Int term (bytes) or None (unknown,
    assumed large enough -- listed as trusted)."""
    _n = itertools.count()

    def __init__(self, kind, name, size=None, owner=None, elsize=None):
        self.kind = kind      # 'matbuf','local','malloc','string','global','obj','unknown'
        self.name = name
        self.size = size
        self.owner = owner
        self.elsize = elsize
        self.uid = next(Region._n)
        self.freed = False

    def __repr__(self):
        return 'Region(%s:%s)' % (self.kind, self.name)


class PtrV:
    __slots__ = ('region', 'off', 'ty', 'null', 'obj')

    def __init__(self, region, off=0, ty='void', null=None, obj=None):
        self.region = region
        self.off = z3.IntVal(off) if isinstance(off, int) else off
        self.ty = ty          # pointee type string
        self.null = null      # z3 Bool: pointer is NULL (None = definitely not)
        self.obj = obj        # PyObj this pointer designates, if any

    def __repr__(self):
        return 'PtrV(%s+%s:%s%s)' % (self.region, self.off, self.ty,
                                     ' null?' if self.null is not None else '')


NULL = None


class PyObj:
    """A Python object handed to the function (or created by a callee).
    Ghost predicates are z3 constants named after the object."""
    _n = itertools.count()

    def __init__(self, name, fresh=False):
        self.name = name
        self.uid = next(PyObj._n)
        self.ismat = z3.Bool('ismat(%s)' % name)
        self.issp = z3.Bool('issp(%s)' % name)
        self.nrows = z3.Int('%s.nrows' % name)
        self.ncols = z3.Int('%s.ncols' % name)
        self.id = z3.Int('%s.id' % name)
        self.sp_nrows = z3.Int('%s.obj.nrows' % name)
        self.sp_ncols = z3.Int('%s.obj.ncols' % name)
        self.sp_id = z3.Int('%s.obj.id' % name)
        self.sp_nnz = z3.Int('%s.obj.nnz' % name)
        self.buf = None
        self.fresh = fresh
        self.extra = {}

    def valid_axioms(self):
        """Type invariant of a dense matrix (proved for Matrix_New in the
        dense.c contracts, assumed on entry elsewhere) and of a sparse one."""
        m = z3.Implies(self.ismat, z3.And(
            self.nrows >= 0, self.ncols >= 0,
            self.nrows <= 2**31 - 1, self.ncols <= 2**31 - 1,
            self.nrows * self.ncols <= 2**31 - 1,
            self.id >= 0, self.id <= 2, z3.Not(self.issp)))
        s = z3.Implies(self.issp, z3.And(
            self.sp_nrows >= 0, self.sp_ncols >= 0, self.sp_nnz >= 0,
            self.sp_id >= 1, self.sp_id <= 2, z3.Not(self.ismat)))
        return [m, s]

    def buffer_region(self):
        if self.buf is None:
            esz = z3.If(self.id == 2, 16, 8)
            self.buf = Region('matbuf', self.name + '.buffer',
                              self.nrows * self.ncols * esz, owner=self)
        return self.buf

    def __repr__(self):
        return 'PyObj(%s)' % self.name


class StructV:
    def __init__(self, ty, fields=None):
        self.ty = ty
        self.fields = fields or {}

    def copy(self):
        return StructV(self.ty, dict(self.fields))

    def __repr__(self):
        return 'StructV(%s,%s)' % (self.ty, self.fields)


class StrV:
    def __init__(self, s):
        self.s = s

    def __repr__(self):
        return 'StrV(%r)' % self.s


class ArrV:
    def __init__(self, items, ty=None):
        self.items = items
        self.ty = ty

    def __repr__(self):
        return 'ArrV(%s)' % self.items


class FuncV:
    def __init__(self, name):
        self.name = name

    def __repr__(self):
        return 'FuncV(%s)' % self.name


class Opaque:
    """Value we know nothing about."""
    _n = itertools.count()

    def __init__(self, why=''):
        self.why = why
        self.uid = next(Opaque._n)

    def __repr__(self):
        return 'Opaque(%s)' % self.why


# locations
class LVar:
    __slots__ = ('key', 'name', 'ty')

    def __init__(self, key, name, ty):
        self.key, self.name, self.ty = key, name, ty


class LField:
    __slots__ = ('base', 'name', 'ty')

    def __init__(self, base, name, ty):
        self.base, self.name, self.ty = base, name, ty


class LDeref:
    __slots__ = ('ptr', 'ty')

    def __init__(self, ptr, ty):
        self.ptr, self.ty = ptr, ty


class LObjField:
    """field of a Python object reached through a typed pointer"""
    __slots__ = ('obj', 'name', 'ty', 'sp')

    def __init__(self, obj, name, ty, sp=False):
        self.obj, self.name, self.ty, self.sp = obj, name, ty, sp


# --------------------------------------------------------------- state
class Oblig:
    __slots__ = ('site', 'kind', 'pc', 'goal', 'text', 'line', 'status',
                 'model', 'extra')

    def __init__(self, site, kind, pc, goal, text, line, extra=None):
        self.site, self.kind, self.pc, self.goal = site, kind, pc, goal
        self.text, self.line = text, line
        self.status = None
        self.model = None
        self.extra = extra or {}


class CallRec:
    def __init__(self, name, args, pc, line, ret=None):
        self.name, self.args, self.pc, self.line = name, args, pc, line
        self.ret = ret

    def __repr__(self):
        return 'CallRec(%s)' % self.name


class State:
    def __init__(self):
        self.vars = {}        # decl id -> value
        self.pc = []          # list of z3 Bool
        self.guards = []      # extra guards inside pure sub-evaluation
        self.exc = None       # name of exception set, e.g. 'PyExc_TypeError'
        self.calls = []       # CallRec list (external routines reached)
        self.obligs = []
        self.mem = {}         # region uid -> value stored (scalars / structs)
        self.ghost = {}       # misc ghost facts (gil_released, ...)
        self.stores = []      # writes into matrix buffers etc.
        self.pure = 0

    def copy(self):
        s = State.__new__(State)
        s.vars = dict(self.vars)
        s.pc = list(self.pc)
        s.guards = list(self.guards)
        s.exc = self.exc
        s.calls = list(self.calls)
        s.obligs = list(self.obligs)
        s.mem = dict(self.mem)
        s.ghost = dict(self.ghost)
        s.stores = list(self.stores)
        s.pure = self.pure
        return s

    def path(self):
        return self.pc + self.guards


class Outcome:
    def __init__(self, kind, st, val=None):
        self.kind = kind      # 'fall','return','break','continue'
        self.st = st
        self.val = val


def tobool(v):
    if isinstance(v, BoolV):
        return v.b
    if isinstance(v, IntV):
        return v.t != 0
    if isinstance(v, PtrV):
        if v.null is None:
            return z3.BoolVal(v.region is not None or v.obj is not None)
        return z3.Not(v.null)
    if isinstance(v, FltV):
        return v.t != 0
    if v is NULL:
        return z3.BoolVal(False)
    if isinstance(v, FuncV):
        return z3.BoolVal(True)
    raise Unsupported('truth value of %r' % (v,))


def toint(v, ty='int'):
    if isinstance(v, IntV):
        return v
    if isinstance(v, BoolV):
        return IntV(z3.If(v.b, 1, 0), ty)
    raise Unsupported('integer value of %r' % (v,))


def cdiv(a, b):
    """C truncating division on mathematical integers (b != 0)."""
    q = z3.If(a >= 0,
              z3.If(b > 0, a / b, -(a / (-b))),
              z3.If(b > 0, -((-a) / b), (-a) / (-b)))
    return q


def crem(a, b):
    return a - b * cdiv(a, b)


class Executor:
    MAXPATHS = 4000

    def __init__(self, tu, fname, externs, config=None):
        self.tu = tu
        self.fname = fname
        self.fn = tu['funcs'][fname]
        self.externs = externs
        self.cfg = config or {}
        self.solver = z3.Solver()
        self.solver.set('timeout', self.cfg.get('branch_timeout_ms', 3000))
        self.axioms = []
        self.objs = {}
        self.site_counts = {}
        self.finished = []    # (state, kind, value)
        self.npaths = 0
        self.trusted = set()
        self.feas_cache = {}
        self.undecided = []
        self.inline_depth = 0
        self.frames = []
        self.solver_time = 0.0
        self.n_axioms_asserted = 0
        self.n_checks = 0
        # sidecar loop contracts (cfg['loop_invariants']) and loop summaries
        self.declname = {}    # decl id -> source name
        self.loop_ord = {}    # loop node id -> ordinal (source order)
        self.loop_log = []    # summaries of the loops executed (final runs)
        self._probing = 0
        self._index_fn(self.fn)

    # ---------------------------------------------------------- utilities
    def _index_fn(self, n):
        k = n.get('kind')
        if k in ('VarDecl', 'ParmVarDecl') and n.get('id') and n.get('name'):
            self.declname[n['id']] = n['name']
        if k in ('ForStmt', 'WhileStmt', 'DoStmt') and n.get('id'):
            self.loop_ord[n['id']] = len(self.loop_ord)
        for c in n.get('inner', []) or []:
            if isinstance(c, dict):
                self._index_fn(c)

    def env(self, st):
        """source name -> value of the local variables / parameters"""
        return {self.declname[r]: v for r, v in st.vars.items()
                if r in self.declname}

    def sidecar_invariants(self, s, st):
        """[(label, z3 Bool)] given by the contract for this loop in this
        state; an anchor that does not resolve (a variable the contract
        names no longer exists) is reported as an undecided obligation"""
        f = self.cfg.get('loop_invariants')
        if f is None:
            return []
        o = self.loop_ord.get(s.get('id'))
        try:
            return list(f(self, o, self.env(st), st) or [])
        except (KeyError, AttributeError, TypeError) as e:
            ob = Oblig('%s:loop-invariant:anchor of loop %s' % (self.fname, o),
                       'loop-invariant', [], z3.BoolVal(False),
                       'the invariant of loop %s can be evaluated (%s: %s)' %
                       (o, type(e).__name__, e), s.get('line', 0),
                       {'force': 'undecided'})
            st.obligs.append(ob)
            return []

    def inv_oblig(self, s, st, label, goal, phase):
        o = self.loop_ord.get(s.get('id'))
        text = 'invariant `%s` of loop %s %s' % (
            label, o, 'holds on entry' if phase == 'entry'
            else 'is preserved by the body')
        st.obligs.append(Oblig('%s:loop-invariant:%s' % (self.fname, text),
                               'loop-invariant', list(st.path()),
                               z3.simplify(goal), text, s.get('line', 0)))

    def fresh_int(self, name, ty='int', constrain=True):
        n = self.site_counts.get(('fresh', name), 0)
        self.site_counts[('fresh', name)] = n + 1
        v = z3.Int(name if n == 0 else '%s#%d' % (name, n))
        log = self.__dict__.get('_fresh_log')
        if log is not None:
            log.add(v.decl().name())
        if constrain:
            lo, hi = CT(ty).rng()
            self.axioms.append(z3.And(v >= lo, v <= hi))
        return IntV(v, ty)

    def fresh_real(self, name):
        n = self.site_counts.get(('fresh', name), 0)
        self.site_counts[('fresh', name)] = n + 1
        log = self.__dict__.get('_fresh_log')
        if log is not None:
            log.add(name if n == 0 else '%s#%d' % (name, n))
        return z3.Real(name if n == 0 else '%s#%d' % (name, n))

    def fresh_bool(self, name):
        n = self.site_counts.get(('fresh', name), 0)
        self.site_counts[('fresh', name)] = n + 1
        return z3.Bool(name if n == 0 else '%s#%d' % (name, n))

    def new_obj(self, name, fresh=False):
        n = self.site_counts.get(('obj', name), 0)
        self.site_counts[('obj', name)] = n + 1
        o = PyObj(name if n == 0 else '%s#%d' % (name, n), fresh=fresh)
        self.objs[o.name] = o
        self.axioms.extend(o.valid_axioms())
        return o

    def check(self, pc, extra, timeout=None):
        """sat-check of axioms /\ pc /\ extra; returns z3 result"""
        import time
        s = self.solver
        # axioms are asserted once, at the base level of the solver
        while self.n_axioms_asserted < len(self.axioms):
            s.add(self.axioms[self.n_axioms_asserted])
            self.n_axioms_asserted += 1
        if timeout:
            s.set('timeout', timeout)
        s.push()
        try:
            for p in pc:
                s.add(p)
            for e in extra:
                s.add(e)
            t = time.time()
            r = s.check()
            self.solver_time += time.time() - t
            self.n_checks += 1
            return r
        finally:
            s.pop()
            if timeout:
                s.set('timeout', self.cfg.get('branch_timeout_ms', 3000))

    def decide(self, st, c):
        """Returns True / False when the path condition decides c, else None."""
        c = z3.simplify(c)
        if z3.is_true(c):
            return True
        if z3.is_false(c):
            return False
        path = st.path()
        key = (tuple(p.get_id() for p in path), c.get_id())
        if key in self.feas_cache:
            return self.feas_cache[key][0]
        r1 = self.check(st.path(), [c])
        if r1 == z3.unsat:
            res = False
        else:
            r2 = self.check(st.path(), [z3.Not(c)])
            if r2 == z3.unsat:
                res = True
            else:
                res = None
        # keep the terms alive: z3 AST ids are recycled after collection
        self.feas_cache[key] = (res, path, c)
        return res

    def site(self, kind, text):
        base = '%s:%s:%s' % (self.fname, kind, text)
        return base

    def oblige(self, st, kind, goal, node, text=None, extra=None):
        text = text if text is not None else cast_mod.src_of(self.tu, node)
        goal = z3.simplify(goal)
        off = node.get('off')
        if off and kind == 'nooverflow':
            # the exact lines of the expression, from its source offsets (the
            # AST only gives the line of the enclosing statement for nested
            # nodes); the sanitizer reports the line of the operator
            extra = dict(extra or {})
            nl = self.__dict__.get('_nl')
            if nl is None:
                import bisect
                src = self.tu['src'].encode('utf-8', 'replace')
                nl = [i for i, c in enumerate(src) if c == 10]
                self._nl = nl
            import bisect
            extra['line_start'] = bisect.bisect_left(nl, off[0]) + 1
            extra['line_end'] = bisect.bisect_left(nl, off[1]) + 1
        if z3.is_true(goal):
            # trivially true obligations are still counted (as discharged by
            # simplification) so that coverage numbers are honest
            st.obligs.append(Oblig(self.site(kind, text), kind, None, goal,
                                   text, node.get('line', 0), extra))
            return
        st.obligs.append(Oblig(self.site(kind, text), kind, list(st.path()),
                               goal, text, node.get('line', 0), extra))
        if kind in ('nooverflow', 'divzero'):
            # assert-then-assume: later obligations (and later overflow
            # checks) are examined on executions in which this operation did
            # not overflow, i.e. where mathematical and machine semantics
            # still agree.  Hence every refuted nooverflow obligation is a
            # *first* overflow on some path.
            if st.guards:
                st.pc.append(z3.Implies(z3.And(st.guards), goal))
            else:
                st.pc.append(goal)

    # ---------------------------------------------------------- expressions
    def ev(self, n, st):
        k = n['kind']
        m = getattr(self, 'ev_' + k, None)
        if m is None:
            raise Unsupported('expression kind %s (line %s)' % (k, n.get(
                'line')))
        return m(n, st)

    def ev_ParenExpr(self, n, st):
        return self.ev(n['inner'][0], st)

    def ev_StmtExpr(self, n, st):
        """GNU statement expression ({ ...; value; })"""
        body = n['inner'][0].get('inner', [])
        if not body:
            return Opaque('void')
        for s_ in body[:-1]:
            outs = self.exec_stmt1(s_, st)
            if len(outs) != 1 or outs[0].kind != 'fall':
                raise Unsupported('control flow inside statement expression')
        last = body[-1]
        if last.get('kind', '').endswith('Stmt') and last['kind'] not in (
                'NullStmt',):
            self.exec_stmt1(last, st)
            return Opaque('void')
        return self.ev(last, st)

    def ev_ConstantExpr(self, n, st):
        return self.ev(n['inner'][0], st)

    def ev_IntegerLiteral(self, n, st):
        return IntV(int(n['value']), n['ty'])

    def ev_CharacterLiteral(self, n, st):
        return IntV(int(n['value']), n['ty'])

    def ev_FloatingLiteral(self, n, st):
        try:
            from fractions import Fraction
            fr = Fraction(n['value'])
            return FltV(z3.RealVal(fr), n['ty'])
        except Exception:
            return FltV(self.fresh_real('flit'), n['ty'])

    def ev_ImaginaryLiteral(self, n, st):
        return FltV(z3.Real('_Complex_I'), n['ty'])

    def ev_StringLiteral(self, n, st):
        v = n.get('value', '""')
        try:
            import json
            s = json.loads(v)
        except Exception:
            s = v.strip('"')
        return StrV(s)

    def ev_InitListExpr(self, n, st):
        return ArrV([self.ev(c, st) for c in n.get('inner', [])], n['ty'])

    def ev_ImplicitValueInitExpr(self, n, st):
        return self.default_value(n['ty'])

    def ev_UnaryExprOrTypeTraitExpr(self, n, st):
        if n.get('name') == 'sizeof':
            if 'argType' in n:
                return IntV(sizeof_type(n['argType']), 'unsigned long')
            if n.get('inner'):
                return IntV(sizeof_type(n['inner'][0]['ty']), 'unsigned long')
        raise Unsupported('sizeof form')

    def ev_DeclRefExpr(self, n, st):
        rk = n.get('refkind')
        if rk == 'FunctionDecl':
            return FuncV(n['ref'])
        if rk == 'EnumConstantDecl':
            raise Unsupported('enum constant %s' % n['ref'])
        if n.get('valueCategory') == 'lvalue':
            return self.read(self.lv(n, st), st, n)
        raise Unsupported('DeclRefExpr rvalue %s' % n.get('ref'))

    def ev_MemberExpr(self, n, st):
        return self.read(self.lv(n, st), st, n)

    def ev_ArraySubscriptExpr(self, n, st):
        return self.read(self.lv(n, st), st, n)

    def default_value(self, ty):
        t = CT(ty)
        if t.kind == 'int':
            return IntV(0, ty)
        if t.kind in ('float', 'complex'):
            return FltV(z3.RealVal(0), ty)
        if t.kind == 'ptr':
            return NULL
        return Opaque('default ' + ty)

    def uninit_value(self, ty, name):
        t = CT(ty)
        if t.kind == 'int':
            return self.fresh_int('uninit_' + name, t.s if t.s in (
                'int', 'long', 'char') else (TYPEDEF_INT.get(t.s, 'int')))
        if t.kind in ('float', 'complex'):
            return FltV(self.fresh_real('uninit_' + name), ty)
        if t.kind == 'struct':
            return StructV(ty)
        if t.kind == 'ptr':
            return PtrV(Region('unknown', 'uninit_' + name), 0, t.pointee,
                        null=self.fresh_bool('uninit_null_' + name))
        if t.kind == 'array':
            return ArrV([], ty)
        return Opaque('uninit ' + name)

    # ------- lvalues
    def lv(self, n, st):
        k = n['kind']
        if k == 'ParenExpr':
            return self.lv(n['inner'][0], st)
        if k == 'DeclRefExpr':
            rid = n.get('refid')
            if rid in st.vars or n.get('refkind') in ('ParmVarDecl',):
                return LVar(rid, n['ref'], n['ty'])
            # global variable
            return LVar(('global', n['ref']), n['ref'], n['ty'])
        if k == 'MemberExpr':
            base = n['inner'][0]
            if n.get('isArrow'):
                p = self.ev(base, st)
                return self.field_of_ptr(p, n['name'], n['ty'], st, n)
            b = self.lv(base, st)
            return LField(b, n['name'], n['ty'])
        if k == 'UnaryOperator' and n['opcode'] == '*':
            p = self.ev(n['inner'][0], st)
            return self.deref(p, n['ty'], st, n)
        if k == 'ArraySubscriptExpr':
            a, i = n['inner']
            p = self.ev(a, st)
            iv = toint(self.ev(i, st))
            if isinstance(p, ArrV):
                return ('arr', p, iv)
            if isinstance(p, TupleItems):
                return ('tupleitem', p.obj, iv)
            if isinstance(p, FieldArr):
                return ('fieldarr', p.obj, p.name, iv)
            q = self.ptr_add(p, iv, st, n)
            return self.deref(q, n['ty'], st, n)
        if k == 'ImplicitCastExpr' and n.get('castKind') == 'NoOp':
            return self.lv(n['inner'][0], st)
        raise Unsupported('lvalue kind %s' % k)

    def field_of_ptr(self, p, name, ty, st, n):
        if isinstance(p, PtrV) and p.obj is not None:
            o = p.obj
            pt = CT(p.ty).s
            if pt == 'matrix':
                self.oblige(st, 'field-guard', o.ismat, n,
                            text='%s->%s requires Matrix_Check(%s)' % (
                                o.name, name, o.name))
                return LObjField(o, name, ty)
            if pt == 'spmatrix':
                if name == 'obj':
                    self.oblige(st, 'field-guard', o.issp, n,
                                text='%s->obj requires SpMatrix_Check(%s)' % (
                                    o.name, o.name))
                    return LObjField(o, 'obj', ty, sp=True)
            if pt == 'ccs':
                return LObjField(o, name, ty, sp=True)
            if pt in ('PyObject', '_object'):
                return LObjField(o, 'py.' + name, ty)
            if pt in ('PyTupleObject', 'PyListObject') and name == 'ob_item':
                return LObjField(o, 'ob_item', ty)
            if pt == 'matrix' or True:
                pass
        if isinstance(p, PtrV) and p.region is not None and p.region.kind in (
                'local', 'malloc', 'struct'):
            return LField(LDeref(p, p.ty), name, ty)
        raise Unsupported('field %s of %r' % (name, p))

    def deref(self, p, ty, st, n):
        if p is NULL:
            self.oblige(st, 'deref', z3.BoolVal(False), n,
                        text='dereference of NULL: ' + cast_mod.src_of(
                            self.tu, n))
            raise Unsupported('NULL dereference')
        if not isinstance(p, PtrV):
            raise Unsupported('deref of %r' % (p,))
        return LDeref(p, ty)

    def bounds_oblig(self, p, nbytes, st, n, what):
        """pointer p must address nbytes (z3 Int or int) inside its region"""
        r = p.region
        if p.null is not None:
            self.oblige(st, 'deref', z3.Not(p.null), n,
                        text='non-NULL for ' + what)
        if r is None:
            raise Unsupported('access through unknown pointer: ' + what)
        if r.size is None:
            self.trusted.add('region %s of unknown size assumed large enough'
                             % r.name)
            return
        nb = z3.IntVal(nbytes) if isinstance(nbytes, int) else nbytes
        goal = z3.Or(nb <= 0, z3.And(p.off >= 0, p.off + nb <= r.size))
        self.oblige(st, 'footprint', goal, n, text=what,
                    extra={'region': r.name})

    def read(self, loc, st, n):
        if isinstance(loc, tuple) and loc[0] == 'tupleitem':
            _, o, iv = loc
            i = z3.simplify(iv.t)
            if not z3.is_int_value(i):
                # an item at a symbolic position of a list/tuple: some object
                # (named by the site and by how often the path has been
                # there), provided the position is inside the sequence
                ln = o.extra.get('seqlen')
                if ln is None:
                    ln = o.extra.setdefault('tuplen', z3.Int('len(%s)' %
                                                             o.name))
                self.oblige(st, 'deref', z3.And(iv.t >= 0, iv.t < ln), n,
                            text='item index inside the sequence: ' +
                            cast_mod.src_of(self.tu, n))
                key = ('seqitem', o.name, n.get('line'),
                       (n.get('off') or (0, 0))[0])
                cnt = st.ghost.get(key, 0)
                st.ghost[key] = cnt + 1
                nm = '%s[@%s.%s#%d]' % (o.name, key[2], key[3], cnt)
                it = self.objs.get(nm) or self.new_obj(nm)
                return PtrV(None, 0, 'PyObject', obj=it)
            key = 'item%d' % i.as_long()
            it = o.extra.get(key)
            if it is None:
                it = self.new_obj('%s[%d]' % (o.name, i.as_long()))
                o.extra[key] = it
            ln = o.extra.setdefault('tuplen', z3.Int('len(%s)' % o.name))
            self.oblige(st, 'deref', ln > i.as_long(), n,
                        text='tuple item %d exists' % i.as_long())
            return PtrV(None, 0, 'PyObject', obj=it)
        if isinstance(loc, tuple) and loc[0] == 'fieldarr':
            _, o, nm, iv = loc
            arr = st.ghost.get(('arrfield', o.name, nm)) or []
            i = z3.simplify(iv.t)
            if z3.is_int_value(i) and i.as_long() < len(arr):
                return arr[i.as_long()]
            return self.fresh_int('%s.%s' % (o.name, nm), 'long')
        if isinstance(loc, tuple) and loc[0] == 'arr':
            _, arr, iv = loc
            i = z3.simplify(iv.t)
            if z3.is_int_value(i) and 0 <= i.as_long() < len(arr.items):
                return arr.items[i.as_long()]
            if arr.items and all(isinstance(x, IntV) for x in arr.items):
                self.oblige(st, 'deref', z3.And(iv.t >= 0, iv.t < len(
                    arr.items)), n, text='index into %d-element table: %s'
                    % (len(arr.items), cast_mod.src_of(self.tu, n)))
                acc = arr.items[-1].t
                for j in range(len(arr.items) - 2, -1, -1):
                    acc = z3.If(iv.t == j, arr.items[j].t, acc)
                return IntV(acc, arr.items[0].ty)
            if arr.items:
                self.oblige(st, 'deref', z3.And(iv.t >= 0, iv.t < len(
                    arr.items)), n, text='index into %d-element table: %s'
                    % (len(arr.items), cast_mod.src_of(self.tu, n)))
                return Opaque('table entry')
            raise Unsupported('symbolic index into local array')
        if isinstance(loc, LVar):
            if loc.key in st.vars:
                v = st.vars[loc.key]
                return v
            if isinstance(loc.key, tuple):
                return self.read_global(loc, st, n)
            raise Unsupported('read of unknown variable %s' % loc.name)
        if isinstance(loc, LField):
            b = self.read(loc.base, st, n)
            if isinstance(b, StructV):
                if loc.name in b.fields:
                    return b.fields[loc.name]
                if CT(b.ty).s == 'number' and loc.name == 'd' and \
                        isinstance(b.fields.get('z'), FltV):
                    # union punning: the real part of the complex member
                    return FltV(b.fields['z'].t, 'double')
                v = self.uninit_value(loc.ty, loc.name)
                b.fields[loc.name] = v
                return v
            raise Unsupported('field read on %r' % (b,))
        if isinstance(loc, LObjField):
            return self.read_objfield(loc, st, n)
        if isinstance(loc, LDeref):
            return self.read_mem(loc, st, n)
        raise Unsupported('read loc %r' % (loc,))

    def read_global(self, loc, st, n):
        h = self.externs.get('global:' + loc.name)
        if h:
            return h(self, st, n)
        c = self.global_const(loc.name)
        if c is not None:
            return IntV(z3.IntVal(c), loc.ty)
        t = CT(loc.ty)
        if t.kind == 'ptr' and loc.name.startswith('PyExc_'):
            return PtrV(None, 0, 'PyObject', obj=self.exc_obj(loc.name))
        raise Unsupported('global %s' % loc.name)

    def exc_obj(self, name):
        key = 'exc:' + name
        if key not in self.objs:
            o = PyObj(name)
            o.extra['exc'] = name
            self.objs[key] = o
        return self.objs[key]

    def read_objfield(self, loc, st, n):
        o, f = loc.obj, loc.name
        ov = st.ghost.get(('field', o.name, f, loc.sp))
        if ov is not None:
            return ov
        if not loc.sp:
            if f == 'nrows':
                return IntV(o.nrows, 'int')
            if f == 'ncols':
                return IntV(o.ncols, 'int')
            if f == 'id':
                return IntV(o.id, 'int')
            if f == 'buffer':
                if o.extra.get('buffer_override') is not None:
                    return o.extra['buffer_override']
                return PtrV(o.buffer_region(), 0, 'void')
            if f == 'ob_exports':
                return IntV(o.extra.setdefault('ob_exports', z3.Int(
                    o.name + '.ob_exports')), 'long')
        else:
            if f == 'obj':
                return PtrV(None, 0, 'ccs', obj=o)
            if f == 'nrows':
                return IntV(o.sp_nrows, 'long')
            if f == 'ncols':
                return IntV(o.sp_ncols, 'long')
            if f == 'id':
                return IntV(o.sp_id, 'int')
            if f in ('colptr', 'rowind', 'values'):
                return self.sp_array(o, f)
        if f == 'ob_item':
            return TupleItems(o)
        if f in ('shape', 'strides') and not loc.sp:
            return FieldArr(o, f)
        h = self.externs.get('field:' + f)
        if h:
            return h(self, st, o, n)
        raise Unsupported('object field %s' % f)

    def sp_array(self, o, f):
        key = 'sp_' + f
        if key not in o.extra:
            if f == 'colptr':
                size = (o.sp_ncols + 1) * 8
                ty = 'long'
            elif f == 'rowind':
                size = o.sp_nnz * 8
                ty = 'long'
            else:
                size = o.sp_nnz * z3.If(o.sp_id == 2, 16, 8)
                ty = 'void'
            o.extra[key] = (Region('spbuf', '%s.%s' % (o.name, f), size,
                                   owner=o), ty)
        r, ty = o.extra[key]
        return PtrV(r, 0, ty)

    def read_mem(self, loc, st, n):
        p = loc.ptr
        sz = sizeof_type(loc.ty)
        self.bounds_oblig(p, sz, st, n, 'read ' + cast_mod.src_of(self.tu, n))
        r = p.region
        if r.kind in ('local', 'struct', 'malloc') and r.uid in st.mem:
            off = z3.simplify(p.off)
            if z3.is_int_value(off) and off.as_long() == 0:
                return st.mem[r.uid]
        if r.kind == 'local' and r.owner is not None and r.owner in st.vars:
            # *(&v): the current value of the variable
            off = z3.simplify(p.off) if isinstance(p.off, z3.ExprRef) else p.off
            if (isinstance(off, int) and off == 0) or (
                    isinstance(off, z3.ExprRef) and z3.is_int_value(off) and
                    off.as_long() == 0):
                return st.vars[r.owner]
        h = self.externs.get('read:' + r.kind)
        if h:
            return h(self, st, p, loc.ty, n)
        t = CT(loc.ty)
        # a load is named by its location (region, offset, number of stores
        # to the region so far): two loads of the same location with no store
        # in between give the same value (CWRAP(x[i], m) loads x[i] twice), and
        # a statement re-executed after a fork regenerates the same symbol
        ver = sum(1 for s_ in st.stores if s_[0] is r)
        import hashlib
        offs = z3.simplify(p.off).sexpr() if isinstance(
            p.off, z3.ExprRef) else str(p.off)
        tag = hashlib.md5(offs.encode()).hexdigest()[:10]
        lname = 'mem_%s.%d[%s]v%d' % (r.name, r.uid, tag, ver)
        if t.kind == 'int':
            ck = ('memval', r.uid, offs, sz, ver)
            hit = st.ghost.get(ck)
            if hit is not None:
                return hit
            ity = t.s if t.s in ('int', 'long', 'char') else \
                TYPEDEF_INT.get(t.s, 'int')
            v = IntV(z3.Int(lname), ity)
            lo, hi = CT(ity).rng()
            self.axioms.append(z3.And(v.t >= lo, v.t <= hi))
            st.ghost[ck] = v
            st.ghost[('loadrec', len([k_ for k_ in st.ghost if isinstance(
                k_, tuple) and k_ and k_[0] == 'loadrec']))] = (
                    r, p.off, sz, v.t)
            inv = st.ghost.get(('elem_inv', r.uid))
            if inv is not None:
                # a contract established a property of every element of this
                # buffer (e.g. an index list checked against a dimension)
                st.pc.append(inv(v.t))
                st.ghost[('last_load', r.uid)] = v.t
            return v
        if t.kind in ('float', 'complex'):
            fv = FltV(z3.Real(lname), loc.ty)
            st.ghost[('floadrec', lname)] = (r, p.off, sz, fv.t)
            return fv
        return Opaque('mem ' + r.name)

    def write(self, loc, v, st, n):
        if st.pure:
            raise Impure()
        if isinstance(loc, tuple) and loc[0] == 'fieldarr':
            _, o, nm, iv = loc
            i = z3.simplify(iv.t)
            if not z3.is_int_value(i) or not 0 <= i.as_long() < 2:
                self.oblige(st, 'deref', z3.And(iv.t >= 0, iv.t < 2), n,
                            text='index into %s->%s[2]' % (o.name, nm))
                return
            arr = list(st.ghost.get(('arrfield', o.name, nm)) or [None, None])
            arr[i.as_long()] = toint(v)
            st.ghost[('arrfield', o.name, nm)] = arr
            return
        if isinstance(loc, tuple) and loc[0] == 'arr':
            _, arr, iv = loc
            i = z3.simplify(iv.t)
            if z3.is_int_value(i):
                j = i.as_long()
                while len(arr.items) <= j:
                    arr.items.append(Opaque('arr'))
                arr.items[j] = v
                return
            raise Unsupported('symbolic index store into local array')
        if isinstance(loc, LVar):
            st.vars[loc.key] = v
            return
        if isinstance(loc, LField):
            b = self.read(loc.base, st, n)
            if isinstance(b, StructV):
                b2 = b.copy()
                b2.fields[loc.name] = v
                # union semantics for `number`: other members become unknown
                if CT(b.ty).s == 'number':
                    b2.fields = {loc.name: v}
                self.write(loc.base, b2, st, n)
                return
            raise Unsupported('field write on %r' % (b,))
        if isinstance(loc, LObjField):
            h = self.externs.get('writefield')
            if h:
                h(self, st, loc, v, n)
            st.ghost[('field', loc.obj.name, loc.name, loc.sp)] = v
            st.stores.append((Region('objfield', '%s.%s' % (
                loc.obj.name, loc.name), None, owner=loc.obj), 0, 0,
                list(st.path()), n.get('line'), 'field'))
            return
        if isinstance(loc, LDeref):
            p = loc.ptr
            sz = sizeof_type(loc.ty)
            self.bounds_oblig(p, sz, st, n, 'write ' + cast_mod.src_of(
                self.tu, n))
            r = p.region
            if r.kind in ('local', 'struct'):
                off = z3.simplify(p.off)
                if z3.is_int_value(off) and off.as_long() == 0:
                    if r.owner is not None:
                        st.vars[r.owner] = v
                    st.mem[r.uid] = v
                    return
            hw = self.externs.get('write:' + r.kind)
            if hw:
                hw(self, st, p, v, loc.ty, n)
            st.stores.append((r, p.off, sz, list(st.path()), n.get('line')))
            if isinstance(v, (IntV, BoolV)):
                # integer stores are remembered with their value (element
                # facts of loops and post-conditions on index lists)
                st.ghost[('storerec', len(st.stores))] = (
                    r, p.off, sz, toint(v).t, list(st.path()))
            elif isinstance(v, FltV) and z3.is_expr(v.t):
                # real-valued stores too (kernel definitions: y[ip] /= c)
                st.ghost[('fstorerec', len(st.stores))] = (
                    r, p.off, sz, v.t, list(st.path()), n.get('line'),
                    [g_ for k_, g_ in st.ghost.items() if isinstance(
                        k_, tuple) and k_ and k_[0] == 'floadrec'])
            return
        raise Unsupported('write loc %r' % (loc,))

    # ------- pointers
    def ptr_add(self, p, iv, st, n, sign=1):
        if p is NULL:
            raise Unsupported('arithmetic on NULL')
        if isinstance(p, ArrV):
            raise Unsupported('pointer arithmetic on local array')
        if not isinstance(p, PtrV):
            raise Unsupported('pointer arithmetic on %r' % (p,))
        es = sizeof_type(p.ty)
        d = iv.t * es
        return PtrV(p.region, p.off + d if sign > 0 else p.off - d, p.ty,
                    p.null, p.obj)

    def addr_of(self, n, st):
        loc = self.lv(n, st)
        if isinstance(loc, LVar):
            key = ('addr', loc.key)
            r = st.ghost.get(key)
            if r is None:
                try:
                    sz = z3.IntVal(sizeof_type(loc.ty))
                except Unsupported:
                    sz = None
                r = Region('local', loc.name, sz, owner=loc.key)
                st.ghost[key] = r
            t = CT(loc.ty)
            if t.kind == 'array':
                return PtrV(r, 0, t.pointee)
            return PtrV(r, 0, loc.ty)
        if isinstance(loc, LField):
            # address of a struct member of a local (e.g. &a.d)
            base = loc.base
            if isinstance(base, LVar):
                key = ('addr', base.key, loc.name)
                r = st.ghost.get(key)
                if r is None:
                    r = Region('localfield', '%s.%s' % (base.name, loc.name),
                               z3.IntVal(sizeof_type(loc.ty)), owner=(
                                   base.key, loc.name))
                    st.ghost[key] = r
                return PtrV(r, 0, loc.ty)
        if isinstance(loc, LDeref):
            return loc.ptr
        if isinstance(loc, LObjField):
            r = Region('objfield', '%s.%s' % (loc.obj.name, loc.name),
                       z3.IntVal(8), owner=loc)
            return PtrV(r, 0, loc.ty)
        if isinstance(loc, tuple) and loc[0] == 'arr':
            return PtrV(Region('global', 'table element', None), 0,
                        n.get('ty', 'void'))
        raise Unsupported('address-of %r' % (loc,))

    def global_const(self, name):
        """value of a global integer variable that has a literal initialiser
        and is never assigned, incremented or decremented anywhere in its
        translation unit (e.g. `int intOne = 1;` whose address is passed to
        BLAS); None otherwise"""
        cache = self.__dict__.setdefault('_gconst', {})
        if name in cache:
            return cache[name]
        val = None
        g = self.tu.get('globals', {}).get(name)
        if g is not None and CT(g.get('ty', '')).kind == 'int':
            e = (g.get('inner') or [None])[0]
            while e is not None and e.get('kind') in (
                    'ImplicitCastExpr', 'ParenExpr') and e.get('inner'):
                e = e['inner'][0]
            if e is not None and e.get('kind') == 'IntegerLiteral':
                import re
                src = self.tu['src']
                writes = re.findall(
                    r'(?<![\w.>])%s\s*(?:=(?!=)|\+\+|--|[-+*/%%&|^]=|<<=|>>=)'
                    r'|(?:\+\+|--)\s*%s\b' % (re.escape(name),
                                                re.escape(name)), src)
                if len(writes) <= 1:      # the initialiser itself
                    val = int(e['value'])
        cache[name] = val
        return val

    def load_through(self, p, st, n):
        """value currently stored in the object p points to (for externs that
        read their by-reference scalar arguments)."""
        if isinstance(p, PtrV) and p.region is not None:
            r = p.region
            if r.kind == 'local' and r.owner in st.vars:
                return st.vars[r.owner]
            if r.kind == 'local' and isinstance(r.owner, tuple) and \
                    r.owner[0] == 'global':
                c = self.global_const(r.owner[1])
                if c is not None:
                    return IntV(z3.IntVal(c), 'int')
            if r.kind == 'localfield':
                key, fld = r.owner
                b = st.vars.get(key)
                if isinstance(b, StructV):
                    if fld in b.fields:
                        return b.fields[fld]
                    v = self.uninit_value(p.ty, fld)
                    b.fields[fld] = v
                    return v
            if r.kind == 'objfield':
                return self.read(r.owner, st, n)
        return self.read(LDeref(p, p.ty), st, n)

    def store_through(self, p, v, st, n):
        if st.pure:
            raise Impure()
        if isinstance(p, PtrV) and p.region is not None:
            r = p.region
            if r.kind == 'local':
                st.vars[r.owner] = v
                return
            if r.kind == 'localfield':
                key, fld = r.owner
                b = st.vars.get(key)
                b2 = b.copy() if isinstance(b, StructV) else StructV('?')
                if CT(b2.ty).s == 'number':
                    b2.fields = {}
                b2.fields[fld] = v
                st.vars[key] = b2
                return
        self.write(LDeref(p, p.ty), v, st, n)

    # ------- operators
    def ev_UnaryOperator(self, n, st):
        op = n['opcode']
        a = n['inner'][0]
        if op == '&':
            if a['kind'] == 'DeclRefExpr' and a.get('refkind') == \
                    'FunctionDecl':
                return FuncV(a['ref'])
            return self.addr_of(a, st)
        if op == '*':
            p = self.ev(a, st)
            if isinstance(p, FuncV):
                return p
            return self.read(self.deref(p, n['ty'], st, n), st, n)
        if op == '!':
            return BoolV(z3.Not(tobool(self.ev(a, st))))
        if op == '-':
            v = self.ev(a, st)
            if isinstance(v, FltV):
                return FltV(-v.t, v.ty)
            v = toint(v)
            r = IntV(-v.t, n['ty'])
            self.arith_oblig(r, n, st)
            return r
        if op == '+' or op == '__extension__':
            return self.ev(a, st)
        if op in ('__real', '__imag'):
            v = self.ev(a, st)
            f = z3.Function(op.strip('_'), z3.RealSort(), z3.RealSort())
            return FltV(f(v.t), n['ty']) if isinstance(v, FltV) else v
        if op == '~':
            raise Unsupported('bitwise not')
        if op in ('++', '--'):
            loc = self.lv(a, st)
            old = self.read(loc, st, n)
            d = 1 if op == '++' else -1
            if isinstance(old, PtrV):
                new = self.ptr_add(old, IntV(d), st, n)
            else:
                old = toint(old)
                new = IntV(old.t + d, n['ty'])
                self.arith_oblig(new, n, st)
            self.write(loc, new, st, n)
            return old if n.get('isPostfix') else new
        raise Unsupported('unary %s' % op)

    def arith_oblig(self, r, n, st):
        t = CT(r.ty)
        if t.kind != 'int':
            return
        if not t.signed:
            # unsigned arithmetic wraps by definition; we keep mathematical
            # values and require them to be representable (no wrap), which is
            # what every size computation in this code base intends
            lo, hi = t.rng()
            self.oblige(st, 'nooverflow', z3.And(r.t >= lo, r.t <= hi), n,
                        extra={'ctype': r.ty})
            return
        if t.base == 'char':
            return
        if t.base == 'long' and not self.cfg.get('check_long_overflow'):
            # 64-bit arithmetic: index/size expressions cannot reach 2^63 for
            # objects that fit in memory, and element arithmetic on 'i'
            # matrices is value-level (not claimed); only 32-bit int
            # arithmetic, narrowing casts and size_t products are checked
            return
        lo, hi = t.rng()
        self.oblige(st, 'nooverflow', z3.And(r.t >= lo, r.t <= hi), n,
                    extra={'ctype': r.ty})

    def ev_BinaryOperator(self, n, st):
        op = n['opcode']
        l, r = n['inner']
        if op == '=':
            v = self.ev(r, st)
            loc = self.lv(l, st)
            v = self.coerce_store(v, l['ty'])
            self.write(loc, v, st, n)
            return v
        if op == ',':
            self.ev(l, st)
            return self.ev(r, st)
        if op in ('&&', '||'):
            return self.shortcircuit(op, l, r, st)
        a = self.ev(l, st)
        b = self.ev(r, st)
        return self.binop(op, a, b, n, st)

    def coerce_store(self, v, ty):
        t = CT(ty)
        if isinstance(v, BoolV) and t.kind == 'int':
            return toint(v, t.s)
        if isinstance(v, IntV) and t.kind in ('float', 'complex'):
            return FltV(z3.ToReal(v.t), ty)
        if isinstance(v, IntV) and t.kind == 'ptr':
            if z3.is_int_value(z3.simplify(v.t)) and z3.simplify(
                    v.t).as_long() == 0:
                return NULL
        return v

    def shortcircuit(self, op, l, r, st):
        a = tobool(self.ev(l, st))
        d = self.decide(st, a)
        if op == '&&':
            if d is False:
                return BoolV(False)
            if d is True:
                return BoolV(tobool(self.ev(r, st)))
            guard = a
        else:
            if d is True:
                return BoolV(True)
            if d is False:
                return BoolV(tobool(self.ev(r, st)))
            guard = z3.Not(a)
        # undecided: evaluate rhs purely under the guard, else fork
        st.guards.append(guard)
        st.pure += 1
        try:
            b = tobool(self.ev(r, st))
        except Impure:
            raise NeedFork(a)
        finally:
            st.pure -= 1
            st.guards.pop()
        return BoolV(z3.And(a, b) if op == '&&' else z3.Or(a, b))

    def ev_ConditionalOperator(self, n, st):
        c, x, y = n['inner']
        cb = tobool(self.ev(c, st))
        d = self.decide(st, cb)
        if d is True:
            return self.ev(x, st)
        if d is False:
            return self.ev(y, st)
        st.pure += 1
        try:
            st.guards.append(cb)
            try:
                vx = self.ev(x, st)
            finally:
                st.guards.pop()
            st.guards.append(z3.Not(cb))
            try:
                vy = self.ev(y, st)
            finally:
                st.guards.pop()
        except Impure:
            raise NeedFork(cb)
        finally:
            st.pure -= 1
        if isinstance(vx, (IntV, BoolV)) and isinstance(vy, (IntV, BoolV)):
            if isinstance(vx, BoolV) and isinstance(vy, BoolV):
                return BoolV(z3.If(cb, vx.b, vy.b))
            vx, vy = toint(vx), toint(vy)
            return IntV(z3.If(cb, vx.t, vy.t), n['ty'])
        if isinstance(vx, FltV) and isinstance(vy, FltV):
            return FltV(z3.If(cb, vx.t, vy.t), n['ty'])
        raise NeedFork(cb)

    def binop(self, op, a, b, n, st):
        cmpops = {'<': lambda x, y: x < y, '<=': lambda x, y: x <= y,
                  '>': lambda x, y: x > y, '>=': lambda x, y: x >= y,
                  '==': lambda x, y: x == y, '!=': lambda x, y: x != y}
        if isinstance(a, PtrV) or isinstance(b, PtrV) or a is NULL or \
                b is NULL:
            return self.ptr_binop(op, a, b, n, st)
        if isinstance(a, FltV) or isinstance(b, FltV):
            fa = a.t if isinstance(a, FltV) else z3.ToReal(toint(a).t)
            fb = b.t if isinstance(b, FltV) else z3.ToReal(toint(b).t)
            if op in cmpops:
                return BoolV(cmpops[op](fa, fb))
            # floating arithmetic is not interpreted
            f = z3.Function('f' + {'+': 'add', '-': 'sub', '*': 'mul',
                                   '/': 'div'}.get(op, 'op'),
                            z3.RealSort(), z3.RealSort(), z3.RealSort())
            return FltV(f(fa, fb), n['ty'])
        a, b = toint(a), toint(b)
        if op in cmpops:
            return BoolV(cmpops[op](a.t, b.t))
        ty = n['ty']
        if op == '+':
            r = IntV(a.t + b.t, ty)
        elif op == '-':
            r = IntV(a.t - b.t, ty)
        elif op == '*':
            r = IntV(a.t * b.t, ty)
        elif op in ('/', '%'):
            self.oblige(st, 'divzero', b.t != 0, n)
            r = IntV(cdiv(a.t, b.t) if op == '/' else crem(a.t, b.t), ty)
        elif op in ('<<', '>>', '&', '|', '^'):
            sa, sb = z3.simplify(a.t), z3.simplify(b.t)
            if z3.is_int_value(sa) and z3.is_int_value(sb):
                x, y = sa.as_long(), sb.as_long()
                return IntV({'<<': x << y, '>>': x >> y, '&': x & y,
                             '|': x | y, '^': x ^ y}[op], ty)
            if op == '<<' and z3.is_int_value(sb):
                r = IntV(a.t * (2 ** sb.as_long()), ty)
            elif op == '>>' and z3.is_int_value(sb):
                r = IntV(a.t / (2 ** sb.as_long()), ty)
            else:
                return self.fresh_int('bitop', TYPEDEF_INT.get(CT(ty).s, CT(
                    ty).s) if CT(ty).kind == 'int' else 'int')
        else:
            raise Unsupported('binary %s' % op)
        self.arith_oblig(r, n, st)
        return r

    def ptr_binop(self, op, a, b, n, st):
        if op in ('==', '!='):
            def isnull(v):
                if v is NULL:
                    return z3.BoolVal(True)
                if isinstance(v, IntV):
                    return v.t == 0
                if isinstance(v, PtrV):
                    return v.null if v.null is not None else z3.BoolVal(False)
                raise Unsupported('pointer comparison operand')
            if a is NULL or b is NULL or isinstance(a, IntV) or isinstance(
                    b, IntV):
                e = isnull(a) if (b is NULL or isinstance(b, IntV)) else \
                    isnull(b)
                return BoolV(e if op == '==' else z3.Not(e))
            if isinstance(a, PtrV) and isinstance(b, PtrV):
                if a.obj is not None and b.obj is not None:
                    same = a.obj is b.obj
                    if same:
                        return BoolV(op == '==')
                    e = self.alias_bool(a.obj, b.obj)
                    return BoolV(e if op == '==' else z3.Not(e))
                if a.region is b.region and a.region is not None:
                    e = a.off == b.off
                    return BoolV(e if op == '==' else z3.Not(e))
            return BoolV(self.fresh_bool('ptrcmp'))
        if op == '+':
            if isinstance(a, PtrV):
                return self.ptr_add(a, toint(b), st, n)
            return self.ptr_add(b, toint(a), st, n)
        if op == '-':
            if isinstance(a, PtrV) and isinstance(b, PtrV):
                if a.region is b.region:
                    return IntV((a.off - b.off) / sizeof_type(a.ty), 'long')
                raise Unsupported('difference of unrelated pointers')
            return self.ptr_add(a, toint(b), st, n, sign=-1)
        if op in ('<', '<=', '>', '>='):
            if isinstance(a, PtrV) and isinstance(b, PtrV) and \
                    a.region is b.region:
                return self.binop(op, IntV(a.off, 'long'), IntV(b.off, 'long'),
                                  n, st)
        raise Unsupported('pointer op %s' % op)

    def alias_bool(self, o1, o2):
        if getattr(o1, 'fresh', False) or getattr(o2, 'fresh', False):
            # an object allocated during the call is distinct from every
            # other object
            return z3.BoolVal(False)
        key = tuple(sorted((o1.name, o2.name)))
        k = ('alias', key)
        if k not in self.site_counts:
            self.site_counts[k] = z3.Bool('same(%s,%s)' % key)
        return self.site_counts[k]

    def ev_CompoundAssignOperator(self, n, st):
        op = n['opcode'][:-1]
        l, r = n['inner']
        loc = self.lv(l, st)
        a = self.read(loc, st, n)
        b = self.ev(r, st)
        if isinstance(a, (IntV, BoolV)) and isinstance(b, (IntV, BoolV)):
            # the operation is carried out in the computation type, then
            # converted back to the type of the left operand
            n2 = dict(n)
            lt, rt = CT(l['ty']), CT(r['ty'])
            n2['ty'] = 'long' if 'long' in (TYPEDEF_INT.get(lt.s, lt.s),
                                            TYPEDEF_INT.get(rt.s, rt.s)) \
                else l['ty']
            v = self.binop(op, a, b, n2, st)
            v = self.int_cast(v, l['ty'], n, st)
        else:
            v = self.binop(op, a, b, n, st)
        self.write(loc, v, st, n)
        return v

    def int_cast(self, v, ty, n, st, explicit=False):
        t = CT(ty)
        if isinstance(v, BoolV):
            v = toint(v)
        if t.kind != 'int':
            return v
        lo, hi = t.rng()
        s = z3.simplify(v.t)
        if z3.is_int_value(s) and lo <= s.as_long() <= hi:
            return IntV(v.t, ty)
        src = CT(v.ty)
        if src.kind == 'int':
            slo, shi = src.rng()
            if lo <= slo and shi <= hi:
                return IntV(v.t, ty)   # widening: value preserved
        if t.base == 'char':
            # narrowing to char: wraps; not a memory-safety matter.  Model as
            # a fresh char equal to the source whenever that fits.
            c = self.fresh_int('char_of', 'char')
            self.axioms.append(z3.Implies(z3.And(v.t >= lo, v.t <= hi),
                                          c.t == v.t))
            return IntV(c.t, ty)
        self.oblige(st, 'nooverflow', z3.And(v.t >= lo, v.t <= hi), n,
                    text='(%s) %s' % (t.s, cast_mod.src_of(self.tu, n)),
                    extra={'ctype': ty, 'cast': True})
        return IntV(v.t, ty)

    def ev_ImplicitCastExpr(self, n, st):
        ck = n.get('castKind')
        a = n['inner'][0]
        if ck == 'LValueToRValue':
            return self.ev(a, st)
        if ck in ('NoOp', 'FunctionToPointerDecay', 'BuiltinFnToFnPtr',
                  'AtomicToNonAtomic'):
            return self.ev(a, st)
        if ck == 'ArrayToPointerDecay':
            if a['kind'] == 'StringLiteral':
                return self.ev(a, st)
            v = self.ev_array_decay(a, st)
            return v
        if ck == 'NullToPointer':
            return NULL
        if ck == 'IntegralCast':
            return self.int_cast(self.ev(a, st), n['ty'], n, st)
        if ck == 'IntegralToBoolean':
            return BoolV(tobool(self.ev(a, st)))
        if ck == 'PointerToBoolean':
            return BoolV(tobool(self.ev(a, st)))
        if ck == 'IntegralToFloating':
            v = self.ev(a, st)
            return FltV(z3.ToReal(toint(v).t), n['ty'])
        if ck in ('FloatingCast', 'FloatingRealToComplex',
                  'FloatingComplexCast', 'IntegralRealToComplex',
                  'IntegralComplexToReal', 'FloatingComplexToReal'):
            v = self.ev(a, st)
            if isinstance(v, (IntV, BoolV)):
                return FltV(z3.ToReal(toint(v).t), n['ty'])
            return FltV(v.t, n['ty']) if isinstance(v, FltV) else v
        if ck == 'FloatingToIntegral':
            v = self.ev(a, st)
            t = CT(n['ty'])
            r = self.fresh_int('f2i', t.s if t.s in ('int', 'long') else
                               TYPEDEF_INT.get(t.s, 'int'), constrain=False)
            # conversion of an out-of-range double is undefined behaviour;
            # the result is only known when the callee contract bounds it
            if isinstance(v, FltV):
                self.axioms.append(z3.And(z3.ToReal(r.t) <= v.t,
                                          v.t < z3.ToReal(r.t) + 1) if False
                                   else z3.BoolVal(True))
                st.ghost[('f2i', r.t.get_id())] = v.t
            self.last_f2i = (r, v)
            lo, hi = t.rng()
            self.f2i_oblig(r, v, lo, hi, n, st)
            return IntV(r.t, n['ty'])
        if ck == 'BitCast':
            v = self.ev(a, st)
            return self.retype_ptr(v, n['ty'])
        if ck == 'IntegralToPointer':
            v = self.ev(a, st)
            return self.coerce_store(v, n['ty'])
        if ck == 'PointerToIntegral':
            return self.fresh_int('ptr2int', 'long')
        raise Unsupported('implicit cast %s' % ck)

    def f2i_oblig(self, r, v, lo, hi, n, st):
        # value-range obligation for double -> int conversions: needs a known
        # bound on the double (supplied by extern contracts through axioms on
        # the Real term); stated over the Real value
        if isinstance(v, FltV):
            goal = z3.And(v.t >= lo, v.t < hi + 1)
            self.axioms.append(z3.Implies(goal, z3.And(
                z3.ToReal(r.t) <= v.t, v.t < z3.ToReal(r.t) + 1)))
            self.oblige(st, 'nooverflow', goal, n, text='(int) ' +
                        cast_mod.src_of(self.tu, n), extra={'cast': True,
                                                            'f2i': True})

    def ev_array_decay(self, a, st):
        loc = self.lv(a, st)
        if isinstance(loc, LVar):
            v = st.vars.get(loc.key)
            if isinstance(v, ArrV):
                return v
            if isinstance(loc.key, tuple) and loc.key[0] == 'global':
                h = self.externs.get('global:' + loc.name)
                if h:
                    return h(self, st, a)
            return self.addr_of(a, st)
        if isinstance(loc, LObjField):
            return self.read_objfield(loc, st, a)
        if isinstance(loc, tuple) and loc[0] == 'arr':
            return self.read(loc, st, a)
        raise Unsupported('array decay of %r' % (loc,))

    def retype_ptr(self, v, ty):
        t = CT(ty)
        if isinstance(v, PtrV) and t.kind == 'ptr':
            return PtrV(v.region, v.off, t.pointee, v.null, v.obj)
        return v

    def ev_CStyleCastExpr(self, n, st):
        ck = n.get('castKind')
        a = n['inner'][0]
        if ck == 'ToVoid':
            self.ev(a, st)
            return Opaque('void')
        if ck in ('NoOp', 'BitCast', 'LValueToRValue'):
            v = self.ev(a, st)
            return self.retype_ptr(v, n['ty'])
        n2 = dict(n)
        return self.ev_ImplicitCastExpr(n2, st)

    # ------- calls
    def callee_name(self, f):
        while f['kind'] in ('ImplicitCastExpr', 'ParenExpr'):
            f = f['inner'][0]
        if f['kind'] == 'DeclRefExpr':
            return f.get('ref')
        # (*(T)cvxopt_API[k])
        if f['kind'] == 'UnaryOperator' and f['opcode'] == '*':
            g = f['inner'][0]
            while g['kind'] in ('ImplicitCastExpr', 'ParenExpr',
                                'CStyleCastExpr'):
                g = g['inner'][0]
            if g['kind'] == 'ArraySubscriptExpr':
                b, i = g['inner']
                while b['kind'] in ('ImplicitCastExpr', 'ParenExpr'):
                    b = b['inner'][0]
                if b['kind'] == 'DeclRefExpr' and b.get('ref') == \
                        'cvxopt_API' and i['kind'] == 'IntegerLiteral':
                    return 'cvxopt_API[%s]' % i['value']
            if g['kind'] == 'DeclRefExpr':
                return g.get('ref')
        if f['kind'] == 'ArraySubscriptExpr':
            b = f['inner'][0]
            while b['kind'] in ('ImplicitCastExpr', 'ParenExpr'):
                b = b['inner'][0]
            if b['kind'] == 'DeclRefExpr':
                return b.get('ref') + '[]'
        if f['kind'] == 'MemberExpr':
            return '.' + f.get('name', '?')
        return None

    def ev_CallExpr(self, n, st):
        f = n['inner'][0]
        args = n['inner'][1:]
        name = self.callee_name(f)
        if name is None:
            v = self.ev(f, st)
            if isinstance(v, FuncV):
                name = v.name
            else:
                raise Unsupported('indirect call (line %s)' % n.get('line'))
        h = self.externs.get(name)
        if h is not None:
            if name.endswith('[]'):
                g = f
                while g['kind'] in ('ImplicitCastExpr', 'ParenExpr'):
                    g = g['inner'][0]
                return h(self, st, n, [g['inner'][1]] + list(args))
            return h(self, st, n, args)
        if name in self.tu['funcs'] and name in self.cfg.get('inline', ()):
            return self.inline_call(name, n, args, st)
        hd = self.externs.get('*default*')
        if hd is not None:
            return hd(self, st, n, args, name)
        raise Unsupported('call to %s without contract' % name)

    def inline_call(self, name, n, args, st):
        raise NeedInline(name)

    # ---------------------------------------------------------- statements
    def run(self, init):
        """init(ex, st) prepares parameters.  Returns list of finished paths
        [(state, kind, value)]"""
        st = State()
        body = [c for c in self.fn['inner'] if c['kind'] == 'CompoundStmt'][0]
        params = [c for c in self.fn['inner'] if c['kind'] == 'ParmVarDecl']
        init(self, st, params)
        outs = self.exec_stmt(body, st)
        for o in outs:
            self.finish(o)
        return self.finished

    def finish(self, o):
        if o.kind == 'abandoned':
            # keep the obligations generated before the unsupported construct
            self.orphans = getattr(self, 'orphans', [])
            self.orphans.extend(o.st.obligs)
            return
        self.finished.append((o.st, o.kind, o.val))

    def exec_block(self, stmts, st):
        cur = [st]
        done = []
        for s in stmts:
            nxt = []
            for c in cur:
                for o in self.exec_stmt(s, c):
                    if o.kind == 'fall':
                        nxt.append(o.st)
                    else:
                        done.append(o)
            cur = nxt
            if not cur:
                break
            if len(cur) + len(done) > self.MAXPATHS:
                raise PathLimit('more than %d paths' % self.MAXPATHS)
        return [Outcome('fall', c) for c in cur] + done

    def exec_stmt(self, s, st):
        """fork-and-retry wrapper around exec_stmt1"""
        try:
            st1 = st.copy()
            return self.exec_stmt1(s, st1)
        except Unsupported as u:
            allow = self.cfg.get('allow_unsupported')
            if allow and any(a in str(u) for a in allow):
                self.abandoned = getattr(self, 'abandoned', [])
                self.abandoned.append((s.get('line'), str(u)))
                return [Outcome('abandoned', st)]
            raise
        except NeedFork as nf:
            outs = []
            for c in (nf.cond, z3.Not(nf.cond)):
                r = self.check(st.path(), [c])
                if r == z3.unsat:
                    continue
                st2 = st.copy()
                st2.pc.append(c)
                outs.extend(self.exec_stmt(s, st2))
            return outs

    def exec_stmt1(self, s, st):
        k = s['kind']
        if k == 'CompoundStmt':
            return self.exec_block(s.get('inner', []), st)
        if k == 'NullStmt':
            return [Outcome('fall', st)]
        if k == 'DeclStmt':
            for d in s.get('inner', []):
                if d['kind'] != 'VarDecl':
                    continue
                init = [c for c in d.get('inner', []) if 'kind' in c]
                if d.get('storageClass') == 'static':
                    st.vars[d['id']] = Opaque('static ' + d['name'])
                    if init:
                        try:
                            st.vars[d['id']] = self.ev(init[0], st)
                        except Unsupported:
                            pass
                    continue
                if init and 'init' in d:
                    v = self.ev(init[0], st)
                    v = self.coerce_store(v, d['ty'])
                else:
                    v = self.uninit_value(d['ty'], d['name'])
                st.vars[d['id']] = v
            return [Outcome('fall', st)]
        if k == 'ReturnStmt':
            v = None
            if s.get('inner'):
                v = self.ev(s['inner'][0], st)
            return [Outcome('return', st, v)]
        if k == 'BreakStmt':
            return [Outcome('break', st)]
        if k == 'ContinueStmt':
            return [Outcome('continue', st)]
        if k == 'IfStmt':
            return self.exec_if(s, st)
        if k == 'SwitchStmt':
            return self.exec_switch(s, st)
        if k in ('ForStmt', 'WhileStmt', 'DoStmt'):
            return self.exec_loop(s, st)
        if k in ('CaseStmt', 'DefaultStmt'):
            sub = s['inner'][-1]
            return self.exec_stmt(sub, st)
        if k == 'LabelStmt':
            return self.exec_stmt(s['inner'][-1], st)
        if k == 'GotoStmt':
            raise Unsupported('goto')
        # expression statement
        self.ev(s, st)
        return [Outcome('fall', st)]

    def exec_if(self, s, st):
        inner = s['inner']
        cond, then = inner[0], inner[1]
        els = inner[2] if len(inner) > 2 else None
        c = tobool(self.ev(cond, st))
        d = self.decide(st, c)
        outs = []
        branches = []
        if d is not False:
            branches.append((c, then))
        if d is not True:
            branches.append((z3.Not(c), els))
        results = []
        for bc, body in branches:
            st2 = st.copy()
            if d is None:
                st2.pc.append(bc)
            if body is None:
                results.append([Outcome('fall', st2)])
            else:
                results.append(self.exec_stmt(body, st2))
        if len(results) == 2:
            m = self.try_merge(st, results[0], results[1])
            if m is not None:
                return m
        for r in results:
            outs.extend(r)
        return outs

    def try_merge(self, st0, r1, r2):
        """merge two single fall-through states that differ only in scalar
        locals (if/else that just assigns defaults)"""
        if len(r1) != 1 or len(r2) != 1:
            return None
        o1, o2 = r1[0], r2[0]
        if o1.kind != 'fall' or o2.kind != 'fall':
            return None
        a, b = o1.st, o2.st
        if len(a.calls) != len(st0.calls) or len(b.calls) != len(st0.calls):
            return None
        if a.exc != b.exc or a.stores != b.stores:
            return None
        if a.mem.keys() != b.mem.keys() or a.ghost.keys() != b.ghost.keys():
            return None
        n0 = len(st0.pc)
        ea, eb = a.pc[n0:], b.pc[n0:]
        if not ea or not eb:
            return None
        ca = ea[0]
        newvars = dict(a.vars)
        for k in set(a.vars) | set(b.vars):
            va, vb = a.vars.get(k), b.vars.get(k)
            if va is vb:
                continue
            if va is None or vb is None:
                # declared in only one arm (block-local): drop
                newvars.pop(k, None)
                continue
            if isinstance(va, (IntV, BoolV)) and isinstance(vb, (IntV, BoolV)):
                if isinstance(va, BoolV) and isinstance(vb, BoolV):
                    newvars[k] = BoolV(z3.If(ca, va.b, vb.b))
                else:
                    ia, ib = toint(va), toint(vb)
                    if ia.t.eq(ib.t):
                        newvars[k] = ia
                    else:
                        newvars[k] = IntV(z3.If(ca, ia.t, ib.t), ia.ty)
            elif isinstance(va, FltV) and isinstance(vb, FltV):
                newvars[k] = va if va.t.eq(vb.t) else FltV(
                    z3.If(ca, va.t, vb.t), va.ty)
            else:
                return None
        for k in a.mem:
            if a.mem[k] is not b.mem[k]:
                return None
        for k in a.ghost:
            if a.ghost[k] is not b.ghost[k]:
                return None
        m = st0.copy()
        m.vars = newvars
        m.pc = st0.pc + [z3.Or(z3.And(*ea) if len(ea) > 1 else ea[0],
                               z3.And(*eb) if len(eb) > 1 else eb[0])]
        seen = set(id(o) for o in st0.obligs)
        m.obligs = list(st0.obligs)
        for o in a.obligs + b.obligs:
            if id(o) not in seen:
                seen.add(id(o))
                m.obligs.append(o)
        m.mem = a.mem
        m.ghost = a.ghost
        return [Outcome('fall', m)]

    def exec_switch(self, s, st):
        cond = s['inner'][0]
        body = s['inner'][-1]
        v = toint(self.ev(cond, st))
        # flatten the body into a sequence of (labels, stmt)
        seq = []

        def add(stmt, labels):
            if stmt['kind'] == 'CaseStmt':
                val = stmt['inner'][0]
                lv = toint(self.ev(val, State())).t
                add(stmt['inner'][-1], labels + [lv])
            elif stmt['kind'] == 'DefaultStmt':
                add(stmt['inner'][-1], labels + ['default'])
            else:
                seq.append((labels, stmt))
        for c in body.get('inner', []):
            add(c, [])
        allvals = [l for labs, _ in seq for l in labs if not isinstance(l, str)]
        outs = []
        entries = []
        for i, (labs, _) in enumerate(seq):
            for l in labs:
                if isinstance(l, str):
                    c = z3.And([v.t != x for x in allvals]) if allvals else \
                        z3.BoolVal(True)
                else:
                    c = v.t == l
                entries.append((c, i))
        has_default = any(isinstance(l, str) for labs, _ in seq for l in labs)
        if not has_default:
            c = z3.And([v.t != x for x in allvals]) if allvals else \
                z3.BoolVal(True)
            entries.append((c, len(seq)))
        for c, i in entries:
            d = self.decide(st, c)
            if d is False:
                continue
            st2 = st.copy()
            if d is None:
                st2.pc.append(c)
            res = self.exec_block([stm for _, stm in seq[i:]], st2)
            for o in res:
                if o.kind == 'break':
                    outs.append(Outcome('fall', o.st))
                else:
                    outs.append(o)
        return outs

    def exec_loop(self, s, st):
        h = self.cfg.get('loop_handler')
        if h is not None:
            r = h(self, s, st)
            if r is not None:
                return r
        return self.default_loop(s, st)

    def assigned_in(self, node, out):
        k = node.get('kind')
        if k in ('BinaryOperator', 'CompoundAssignOperator') and (
                k == 'CompoundAssignOperator' or node.get('opcode') == '='):
            self.lhs_vars(node['inner'][0], out)
        if k == 'UnaryOperator' and node.get('opcode') in ('++', '--'):
            self.lhs_vars(node['inner'][0], out)
        if k == 'UnaryOperator' and node.get('opcode') == '&':
            # address taken: the callee may write through it
            self.lhs_vars(node['inner'][0], out)
        for c in node.get('inner', []) or []:
            if isinstance(c, dict):
                self.assigned_in(c, out)

    def lhs_vars(self, n, out):
        while n.get('kind') in ('ParenExpr', 'ImplicitCastExpr'):
            n = n['inner'][0]
        if n.get('kind') == 'DeclRefExpr' and n.get('refkind') in (
                'VarDecl', 'ParmVarDecl'):
            out[n['refid']] = (n['ref'], n['ty'])
        elif n.get('kind') == 'MemberExpr' and not n.get('isArrow'):
            self.lhs_vars(n['inner'][0], out)

    def default_loop(self, s, st, links=None, probe=True, drop=(),
                     bounds=(), keep=()):
        """Invariant rule with automatic invariants.  Everything assigned in
        the loop is havoced.  Counting loops `for (c = a; c < b; c++)` whose
        counter is not assigned in the body get a <= c (c < b in the body,
        c == max(a, b) at the exit through the condition).  Linked induction
        variables: a variable v whose net change over one iteration is the
        same loop-invariant term d on every path through the body (guessed
        from one symbolic execution of the body, then CHECKED to be preserved
        in the run whose obligations count) gets v == v0 + (c - a) * d.  A
        guess that is not preserved is dropped, never reported.  No
        termination claim."""
        kind = s['kind']
        inner = s['inner']
        s0, st0 = s, st.copy()
        mark = len(self.loop_log)
        if kind == 'ForStmt':
            init, cond, inc, body = inner[0], inner[2], inner[3], inner[4]
        elif kind == 'WhileStmt':
            init, cond, inc, body = None, inner[-2], None, inner[-1]
        else:
            raise Unsupported('do-while loop at line %s' % s.get('line'))
        if init is not None and init.get('kind') != 'NullStmt':
            outs = self.exec_stmt(init, st)
            if len(outs) != 1 or outs[0].kind != 'fall':
                raise Unsupported('loop initialiser with control flow')
            st = outs[0].st
        # sidecar invariants (contract): must hold on entry
        for lb_, iv_ in self.sidecar_invariants(s0, st):
            self.inv_oblig(s0, st, lb_, iv_, 'entry')
        assigned = {}
        self.assigned_in(body, assigned)
        if inc is not None:
            self.assigned_in(inc, assigned)
        # counting-loop detection
        lows = {}
        for rid, (nm, ty) in assigned.items():
            v = st.vars.get(rid)
            if isinstance(v, IntV) and inc is not None and \
                    self.is_increment_of(inc, rid):
                body_assigned = {}
                self.assigned_in(body, body_assigned)
                if rid not in body_assigned:
                    lows[rid] = v.t

        # counters that only go down (c-- / c -= k): c <= its start value
        highs = {}
        for rid, (nm, ty) in assigned.items():
            v = st.vars.get(rid)
            if isinstance(v, IntV) and inc is not None and \
                    self.is_decrement_of(inc, rid):
                body_assigned = {}
                self.assigned_in(body, body_assigned)
                if rid not in body_assigned:
                    highs[rid] = v.t
        # the unit counter of the loop, if any: c++ / c += 1 in the increment
        counter = None
        for rid in lows:
            if inc is not None and self.is_increment_of(inc, rid, unit=True):
                counter = rid
                break
        links = dict(links or {})     # rid -> (start term, per-iteration delta)
        fstart = {}                   # rid -> fresh real symbol at the head

        def havoc(state, syms=None):
            new = {}
            # facts about memory that the body invalidates (found by the
            # probe) do not hold at the head of an arbitrary iteration
            for k_ in drop:
                state.ghost.pop(k_, None)
            # cached loads are not valid across iterations
            for k_ in [k_ for k_ in state.ghost if isinstance(k_, tuple) and
                       k_ and k_[0] in ('memval', 'last_load')]:
                del state.ghost[k_]
            for rid, (nm, ty) in assigned.items():
                if rid in state.vars:
                    old = state.vars[rid]
                    if isinstance(old, (IntV, BoolV)):
                        nv = self.fresh_int('loop_' + nm, CT(ty).s if CT(
                            ty).s in ('int', 'long', 'char') else
                            TYPEDEF_INT.get(CT(ty).s, 'int'))
                        state.vars[rid] = IntV(nv.t, ty)
                        new[rid] = nv.t
                        if syms is not None:
                            syms.add(nv.t.decl().name())
                        if rid in lows:
                            state.pc.append(nv.t >= lows[rid])
                        if rid in highs:
                            state.pc.append(nv.t <= highs[rid])
                    elif isinstance(old, FltV):
                        if rid in keep:
                            # real-valued variable that no path through the
                            # body changes (guessed by the probe, checked
                            # below): e.g. a constant passed by reference
                            continue
                        state.vars[rid] = FltV(self.fresh_real(
                            'loop_' + nm), old.ty)
                        fstart[rid] = state.vars[rid].t
                    elif isinstance(old, StructV):
                        state.vars[rid] = StructV(old.ty)
                    elif isinstance(old, PtrV):
                        state.vars[rid] = PtrV(old.region, self.fresh_int(
                            'loop_off_' + nm, 'long').t, old.ty, old.null,
                            old.obj)
                        if syms is not None:
                            syms.add(state.vars[rid].off.decl().name())
            if counter is not None and counter in new:
                for rid, (v0, d) in links.items():
                    if rid in new and rid != counter:
                        # the linked variable IS this term (no fresh symbol,
                        # so that an enclosing loop can see its net change)
                        t_ = v0 + (new[counter] - lows[counter]) * d
                        state.vars[rid] = IntV(t_, state.vars[rid].ty)
                        new[rid] = t_
            for (rid, op_, K) in bounds:
                if rid in new:
                    state.pc.append(new[rid] >= K if op_ == 'ge'
                                    else new[rid] <= K)
            if counter is not None and counter in new:
                # universally quantified facts registered by contracts are
                # instantiated at the iteration number (a hint: the facts
                # themselves are in the path condition)
                kk = new[counter] - lows[counter]
                for f_ in state.ghost.get('forall', ()):
                    try:
                        state.pc.append(f_(kk))
                    except Exception:
                        pass
            # sidecar invariants are assumed at the head of the arbitrary
            # iteration and at the exit (they are checked on entry and at the
            # end of the body)
            for lb_, iv_ in self.sidecar_invariants(s0, state):
                state.pc.append(iv_)
            return new

        if links is None or probe:
            pass
        if probe and not links and (counter is not None or
                                    self.has_call(body)):
            self._fkeep = set()
            self._fstart = fstart
            guess, dropped = self.probe_links(st, assigned, lows, counter,
                                              havoc, cond, body, inc)
            fk = tuple(sorted(self._fkeep))
            bnds = self.probe_bounds(st, assigned, lows, counter, guess,
                                     dropped, cond, body, inc, s0, st0)
            if guess or dropped or bnds or fk:
                del self.loop_log[mark:]
                return self.default_loop(s0, st0, links=guess, probe=False,
                                         drop=dropped, bounds=bnds, keep=fk)
        results = []
        # arbitrary iteration
        b = st.copy()
        start = havoc(b)
        c = tobool(self.ev(cond, b)) if cond.get('kind') != 'NullStmt' \
            else z3.BoolVal(True)
        log = {'ord': self.loop_ord.get(s0.get('id')), 'line': s0.get('line'),
               'counter': self.declname.get(counter), 'lo': lows.get(counter),
               'entry_pc': list(st.path()), 'entry_env': self.env(st),
               'head_env': self.env(b), 'cond': c, 'body': [],
               'exit_env': None, 'exit_pc': None, 'node': s0}
        log['head_pc'] = list(b.path())
        if self.check(b.path(), [c]) != z3.unsat:
            b.pc.append(c)
            for o in self.exec_stmt(body, b):
                log['body'].append({
                    'kind': o.kind, 'pc': list(o.st.path()),
                    'calls': o.st.calls[len(b.calls):],
                    'stores': o.st.stores[len(b.stores):],
                    'fstores': [v_ for k_, v_ in o.st.ghost.items()
                                if isinstance(k_, tuple) and k_ and
                                k_[0] == 'fstorerec' and k_ not in b.ghost],
                    'env': self.env(o.st)})
                if o.kind in ('fall', 'continue'):
                    # obligations of the iteration are kept; the state is
                    # summarised by the exit state below
                    if inc is not None and inc.get('kind') != 'NullStmt':
                        try:
                            self.ev(inc, o.st)
                        except NeedFork:
                            pass
                    log['body'][-1]['env_end'] = self.env(o.st)
                    for rid in keep:
                        v0_, ve_ = st.vars.get(rid), o.st.vars.get(rid)
                        if not (isinstance(v0_, FltV) and isinstance(
                                ve_, FltV) and z3.is_expr(v0_.t) and
                                z3.is_expr(ve_.t) and z3.eq(v0_.t, ve_.t)):
                            del self.loop_log[mark:]
                            return self.default_loop(
                                s0, st0, links=links, probe=False, drop=drop,
                                bounds=bounds, keep=tuple(
                                    k_ for k_ in keep if k_ != rid))
                    for lb_, iv_ in self.sidecar_invariants(s0, o.st):
                        self.inv_oblig(s0, o.st, lb_, iv_, 'preserved')
                    if (links and counter in start) or bounds:
                        # the guessed invariants must be preserved
                        for rid, (v0, d) in (links.items() if counter in
                                             start else ()):
                            ve = o.st.vars.get(rid)
                            ce = o.st.vars.get(counter)
                            if rid == counter or not isinstance(ve, IntV) \
                                    or not isinstance(ce, IntV):
                                continue
                            inv = ve.t == v0 + (ce.t - lows[counter]) * d
                            if self.check(o.st.path(), [z3.Not(inv)]) != \
                                    z3.unsat:
                                bad = dict(links)
                                del bad[rid]
                                del self.loop_log[mark:]
                                return self.default_loop(
                                    s0, st0, links=bad, probe=False,
                                    drop=drop, bounds=bounds, keep=keep)
                        for (rid, op_, K) in bounds:
                            ve = o.st.vars.get(rid)
                            if not isinstance(ve, IntV):
                                continue
                            inv = ve.t >= K if op_ == 'ge' else ve.t <= K
                            if self.check(o.st.path(), [z3.Not(inv)]) != \
                                    z3.unsat:
                                del self.loop_log[mark:]
                                return self.default_loop(
                                    s0, st0, links=links, probe=False,
                                    drop=drop, bounds=tuple(
                                        b_ for b_ in bounds
                                        if b_ != (rid, op_, K)), keep=keep)
                    results.append(Outcome('dropped', o.st))
                elif o.kind == 'break':
                    results.append(Outcome('fall', o.st))
                else:
                    results.append(o)
        # element facts: a loop that, in iteration c, loads (or stores) the
        # element c of a buffer and falls through only when a condition P on
        # it holds, establishes P for the elements [c0, c_exit) -- provided
        # the body does not store into that buffer otherwise
        efacts = []
        if counter is not None and counter in start:
            efacts = self.element_facts(st, start, counter, lows, results)
        # exit
        e = st.copy()
        havoc(e)
        ce = tobool(self.ev(cond, e)) if cond.get('kind') != 'NullStmt' \
            else z3.BoolVal(True)
        if self.check(e.path(), [z3.Not(ce)]) != z3.unsat:
            e.pc.append(z3.Not(ce))
            if counter is not None:
                bnd = self.upper_bound_of(cond, counter, e, assigned)
                cv = e.vars.get(counter)
                if bnd is not None and isinstance(cv, IntV):
                    # the counter went up by one from its start until the
                    # condition c < b failed
                    lo = lows[counter]
                    cend = z3.If(bnd >= lo, bnd, lo)
                    e.pc.append(cv.t == cend)
                    e.vars[counter] = IntV(cend, cv.ty)
                    for rid, (v0, d) in links.items():
                        if rid != counter and isinstance(e.vars.get(rid),
                                                         IntV):
                            e.vars[rid] = IntV(v0 + (cend - lo) * d,
                                               e.vars[rid].ty)
            seen = set(id(o) for o in e.obligs)
            for r in results:
                if r.kind == 'dropped':
                    for ob in r.st.obligs:
                        if id(ob) not in seen:
                            seen.add(id(ob))
                            e.obligs.append(ob)
                    for cr in r.st.calls:
                        if cr not in e.calls:
                            e.calls.append(cr)
                    for sr in r.st.stores:
                        if sr not in e.stores:
                            e.stores.append(sr)
            cvx = e.vars.get(counter) if counter is not None else None
            if efacts and isinstance(cvx, IntV):
                for (reg, base, sz_, kind_, pred) in efacts:
                    fl = list(e.ghost.get(('elem_facts', reg.uid), ()))
                    fl.append({'lo': lows[counter], 'hi': cvx.t, 'base': base,
                               'sz': sz_, 'pred': pred, 'how': kind_,
                               'nstores': sum(1 for s_ in e.stores
                                              if s_[0] is reg),
                               'iter_stores': 1 if kind_ == 'written' else 0
                               })
                    e.ghost[('elem_facts', reg.uid)] = tuple(fl)
            log['exit_env'] = self.env(e)
            log['exit_pc'] = list(e.path())
            results.append(Outcome('fall', e))
        else:
            self.orphans = getattr(self, 'orphans', [])
            for r in results:
                if r.kind == 'dropped':
                    self.orphans.extend(r.st.obligs)
        if not self._probing:
            self.loop_log.append(log)
        return [r for r in results if r.kind != 'dropped']

    def element_facts(self, st, start, counter, lows, results):
        """-> [(region, base offset, element size, 'checked'|'written',
        pred)] where pred(e) is what the loop body guarantees about element
        number c (loaded and tested, or stored) whenever an iteration falls
        through"""
        from engine.smt import symbols
        csym = start[counter]
        if not z3.is_const(csym):
            return []
        cname = csym.decl().name()
        outs = [r.st for r in results if r.kind == 'dropped']
        if not outs:
            return []
        head_loads = set(k_ for k_ in st.ghost if isinstance(k_, tuple) and
                         k_ and k_[0] == 'loadrec')
        head_stores = len(st.stores)
        npc = len(st.pc)
        per_out = []
        for o in outs:
            facts = {}
            new_stores = o.stores[head_stores:]
            stored_regions = {}
            for srec in new_stores:
                stored_regions.setdefault(srec[0].uid, []).append(srec)
            # loads of element c that the body tested
            for k_, rec_ in list(o.ghost.items()):
                if not (isinstance(k_, tuple) and k_ and k_[0] == 'loadrec')\
                        or k_ in head_loads:
                    continue
                reg, off, sz, val = rec_
                if reg.uid in stored_regions or not z3.is_const(val):
                    continue
                base = z3.simplify(off - csym * sz)
                if cname in symbols(base):
                    continue
                vname = val.decl().name()
                conj = [c_ for c_ in o.pc[npc:] if vname in symbols(c_)]
                if not conj:
                    continue
                others = set()
                for c_ in conj:
                    others |= symbols(c_)
                # only the element and loop-invariant symbols may occur
                if any(n_.startswith('loop_') and n_ != vname
                       for n_ in others) or cname in others:
                    continue
                body = z3.And(conj)
                facts[('checked', reg.uid)] = (
                    reg, base, sz, 'checked',
                    (lambda e_, body=body, val=val: z3.substitute(
                        body, (val, e_))))
            # a store of element c
            for k_, rec in list(o.ghost.items()):
                if not (isinstance(k_, tuple) and k_ and k_[0] == 'storerec')\
                        or k_[1] <= head_stores:
                    continue
                reg, off, sz, val, spc = rec
                if len(stored_regions.get(reg.uid, [])) != 1:
                    continue
                base = z3.simplify(off - csym * sz)
                if cname in symbols(base):
                    continue
                facts[('written', reg.uid)] = (
                    reg, base, sz, 'written',
                    (lambda e_, val=val, csym=csym: ('value', val, csym)))
            per_out.append(facts)
        if os.environ.get('VERIF_DEBUG_EFACTS'):
            print('EFACTS', cname, [sorted(f_) for f_ in per_out],
                  len(outs), head_stores, [len(o.stores) for o in outs])
        common = set(per_out[0])
        for f_ in per_out[1:]:
            common &= set(f_)
        # with several fall-through paths only facts present on all of them
        # (and, for simplicity, only when there is one path) are kept
        if len(per_out) != 1:
            return []
        return [per_out[0][k_] for k_ in sorted(common)]

    def upper_bound_of(self, cond, counter, st, assigned):
        """b when cond is `counter < b` with b not assigned in the loop"""
        n = cond
        while n.get('kind') in ('ParenExpr', 'ImplicitCastExpr'):
            n = n['inner'][0]
        if n.get('kind') != 'BinaryOperator' or n.get('opcode') != '<':
            return None
        l, r = n['inner']
        while l.get('kind') in ('ParenExpr', 'ImplicitCastExpr'):
            l = l['inner'][0]
        if l.get('kind') != 'DeclRefExpr' or l.get('refid') != counter:
            return None
        used = {}
        self.refs_in(r, used)
        if any(k in assigned for k in used):
            return None
        if self.has_call(r):
            return None
        try:
            st.pure += 1
            try:
                v = self.ev(r, st)
            finally:
                st.pure -= 1
        except (Unsupported, Impure, NeedFork):
            return None
        return toint(v).t if isinstance(v, (IntV, BoolV)) else None

    def refs_in(self, n, out):
        if n.get('kind') == 'DeclRefExpr' and n.get('refid'):
            out[n['refid']] = True
        for c in n.get('inner', []) or []:
            if isinstance(c, dict):
                self.refs_in(c, out)

    def has_call(self, n):
        if n.get('kind') == 'CallExpr':
            return True
        return any(self.has_call(c) for c in (n.get('inner') or [])
                   if isinstance(c, dict))

    def probe_links(self, st, assigned, lows, counter, havoc, cond, body,
                    inc):
        """one symbolic execution of the loop body whose obligations are
        thrown away: returns {rid: (start term, delta)} for the variables
        whose change over the iteration is the same loop-invariant term on
        every path"""
        from engine.smt import symbols
        saved = (len(getattr(self, 'orphans', []) or []),
                 len(getattr(self, 'abandoned', []) or []))
        old_log = self.__dict__.get('_fresh_log')
        self._fresh_log = syms = set() if old_log is None else old_log
        self._probing += 1
        try:
            b = st.copy()
            start = havoc(b, syms)
            c = tobool(self.ev(cond, b)) if cond.get('kind') != 'NullStmt' \
                else z3.BoolVal(True)
            if self.check(b.path(), [c]) == z3.unsat:
                return {}, ()
            b.pc.append(c)
            deltas = {}
            n_out = 0
            dropped = set()
            fst = dict(getattr(self, '_fstart', {}) or {})
            funch = set(fst)
            facts = [k_ for k_ in st.ghost if isinstance(k_, tuple) and k_
                     and k_[0] == 'elem_inv']
            for o in self.exec_stmt(body, b):
                if o.kind not in ('fall', 'continue'):
                    continue
                n_out += 1
                for k_ in facts:
                    if k_ not in o.st.ghost:
                        dropped.add(k_)
                if inc is not None and inc.get('kind') != 'NullStmt':
                    self.ev(inc, o.st)
                for rid, t0f in fst.items():
                    ve = o.st.vars.get(rid)
                    if not (isinstance(ve, FltV) and z3.is_expr(ve.t) and
                            z3.eq(ve.t, t0f)):
                        funch.discard(rid)
                for rid, t0 in start.items():
                    ve = o.st.vars.get(rid)
                    if not isinstance(ve, IntV):
                        deltas[rid] = None
                        continue
                    d = z3.simplify(ve.t - t0)
                    if symbols(d) & syms:
                        deltas[rid] = None
                    elif rid not in deltas:
                        deltas[rid] = d
                    elif deltas[rid] is not None and not z3.eq(deltas[rid],
                                                                 d):
                        deltas[rid] = None
            if not n_out:
                return {}, ()
            if hasattr(self, '_fkeep'):
                self._fkeep = set(funch)
            out = {}
            for rid, d in deltas.items():
                v0 = st.vars.get(rid)
                if d is not None and rid != counter and isinstance(v0, IntV) \
                        and counter is not None:
                    out[rid] = (v0.t, d)
            return out, tuple(sorted(dropped, key=repr))
        except (Unsupported, NeedFork, Impure, NeedInline):
            return {}, ()
        finally:
            self._probing -= 1
            self._fresh_log = old_log
            if hasattr(self, 'orphans'):
                del self.orphans[saved[0]:]
            if hasattr(self, 'abandoned'):
                del self.abandoned[saved[1]:]

    def probe_bounds(self, st, assigned, lows, counter, links, dropped, cond,
                     body, inc, s0, st0):
        """Houdini over constant bounds: for a variable that enters the loop
        with a literal value k the candidates v >= k, v <= K (K in {k, 0, 1,
        2, 3}) are assumed together at the loop head, the body is executed
        (obligations thrown away) and every candidate that is not implied at
        the end of the body is dropped, until none is dropped.  The survivors
        are inductive; they are checked again in the run that counts."""
        cands = []
        for rid, (nm, ty) in assigned.items():
            if rid == counter or rid in (links or {}):
                continue
            v0 = st.vars.get(rid)
            if not isinstance(v0, IntV):
                continue
            k = z3.simplify(v0.t)
            if not z3.is_int_value(k):
                continue
            k = k.as_long()
            cands.append((rid, 'ge', k))
            for K in sorted(set([k, 0, 1, 2, 3])):
                if K >= k:
                    cands.append((rid, 'le', K))
        if not cands:
            return ()
        saved = (len(getattr(self, 'orphans', []) or []),
                 len(getattr(self, 'abandoned', []) or []))
        self._probing += 1
        try:
            for _round in range(5):
                b = st.copy()
                for k_ in dropped:
                    b.ghost.pop(k_, None)
                new = {}
                for rid, (nm, ty) in assigned.items():
                    old = b.vars.get(rid)
                    if isinstance(old, (IntV, BoolV)):
                        nv = self.fresh_int('loop_' + nm, CT(ty).s if CT(
                            ty).s in ('int', 'long', 'char') else
                            TYPEDEF_INT.get(CT(ty).s, 'int'))
                        b.vars[rid] = IntV(nv.t, ty)
                        new[rid] = nv.t
                        if rid in lows:
                            b.pc.append(nv.t >= lows[rid])
                    elif isinstance(old, FltV):
                        b.vars[rid] = FltV(self.fresh_real('loop_' + nm),
                                           old.ty)
                    elif isinstance(old, StructV):
                        b.vars[rid] = StructV(old.ty)
                    elif isinstance(old, PtrV):
                        b.vars[rid] = PtrV(old.region, self.fresh_int(
                            'loop_off_' + nm, 'long').t, old.ty, old.null,
                            old.obj)
                for (rid, op_, K) in cands:
                    if rid in new:
                        b.pc.append(new[rid] >= K if op_ == 'ge'
                                    else new[rid] <= K)
                c = tobool(self.ev(cond, b)) if cond.get('kind') != \
                    'NullStmt' else z3.BoolVal(True)
                if self.check(b.path(), [c]) == z3.unsat:
                    return ()
                b.pc.append(c)
                bad = set()
                for o in self.exec_stmt(body, b):
                    if o.kind not in ('fall', 'continue'):
                        continue
                    if inc is not None and inc.get('kind') != 'NullStmt':
                        self.ev(inc, o.st)
                    for cd in cands:
                        rid, op_, K = cd
                        ve = o.st.vars.get(rid)
                        if not isinstance(ve, IntV):
                            bad.add(cd)
                            continue
                        inv = ve.t >= K if op_ == 'ge' else ve.t <= K
                        if self.check(o.st.path(), [z3.Not(inv)]) != \
                                z3.unsat:
                            bad.add(cd)
                if not bad:
                    return tuple(cands)
                cands = [c_ for c_ in cands if c_ not in bad]
                if not cands:
                    return ()
            return ()
        except (Unsupported, NeedFork, Impure, NeedInline):
            return ()
        finally:
            self._probing -= 1
            if hasattr(self, 'orphans'):
                del self.orphans[saved[0]:]
            if hasattr(self, 'abandoned'):
                del self.abandoned[saved[1]:]

    def is_decrement_of(self, inc, rid):
        n = inc
        while n.get('kind') in ('ParenExpr',):
            n = n['inner'][0]
        if n.get('kind') == 'BinaryOperator' and n.get('opcode') == ',':
            return any(self.is_decrement_of(c, rid) for c in n['inner'])
        if n.get('kind') == 'UnaryOperator' and n.get('opcode') == '--':
            t = n['inner'][0]
            return t.get('kind') == 'DeclRefExpr' and t.get('refid') == rid
        if n.get('kind') == 'CompoundAssignOperator' and n.get(
                'opcode') == '-=':
            t, v = n['inner']
            if t.get('kind') == 'DeclRefExpr' and t.get('refid') == rid:
                while v.get('kind') in ('ImplicitCastExpr', 'ParenExpr'):
                    v = v['inner'][0]
                return v.get('kind') == 'IntegerLiteral' and int(
                    v['value']) > 0
        return False

    def is_increment_of(self, inc, rid, unit=False):
        n = inc
        while n.get('kind') in ('ParenExpr',):
            n = n['inner'][0]
        if n.get('kind') == 'BinaryOperator' and n.get('opcode') == ',':
            return any(self.is_increment_of(c, rid, unit) for c in n['inner'])
        if n.get('kind') == 'UnaryOperator' and n.get('opcode') == '++':
            t = n['inner'][0]
            return t.get('kind') == 'DeclRefExpr' and t.get('refid') == rid
        if n.get('kind') == 'CompoundAssignOperator' and n.get(
                'opcode') == '+=':
            t, v = n['inner']
            if t.get('kind') == 'DeclRefExpr' and t.get('refid') == rid:
                while v.get('kind') in ('ImplicitCastExpr', 'ParenExpr'):
                    v = v['inner'][0]
                return v.get('kind') == 'IntegerLiteral' and (
                    int(v['value']) == 1 if unit else int(v['value']) > 0)
        return False


class NeedInline(Exception):
    pass


class TupleItems:
    def __init__(self, obj):
        self.obj = obj


class FieldArr:
    def __init__(self, obj, name):
        self.obj, self.name = obj, name
