"""Loader for the clang JSON AST of one translation unit of /repo/src/C.

The AST is produced on every run from the current working tree with the
include path and macro set of the real build (DESIGN 2.1); a slimmed copy of
the function definitions of the main file is cached under /verif/.cache keyed
by the SHA-1 of the source file and of every header of src/C, so the cache can
never serve a stale tree.
"""
import os, sys, json, hashlib, pickle, subprocess, glob

REPO = os.environ.get('VERIF_REPO', '/repo')
PYINC = '/root/.pyenv/versions/3.12.1/include/python3.12'
CACHE = os.path.join(os.path.dirname(os.path.dirname(os.path.dirname(
    os.path.abspath(__file__)))), '.cache', 'cvc')

KEEP = ('kind', 'name', 'opcode', 'value', 'castKind', 'isArrow',
        'isPostfix', 'valueCategory', 'id', 'storageClass', 'init',
        'hasElse', 'isPartOfExplicitCast')


def _line(n, cur):
    loc = n.get('loc') or {}
    rng = n.get('range', {}).get('begin', {})
    for l in (loc, rng):
        for k in (l, l.get('expansionLoc', {}), l.get('spellingLoc', {})):
            if 'line' in k:
                return k['line']
    return cur


def _offsets(n):
    r = n.get('range')
    if not r:
        return None
    b, e = r.get('begin', {}), r.get('end', {})
    b = b.get('expansionLoc', b)
    e = e.get('expansionLoc', e)
    if 'offset' in b and 'offset' in e:
        return (b['offset'], e['offset'] + e.get('tokLen', 0))
    return None


def slim(n, cur_line=0):
    """Keep only what the executor needs."""
    if not isinstance(n, dict) or 'kind' not in n:
        return None
    o = {}
    for k in KEEP:
        if k in n:
            o[k] = n[k]
    t = n.get('type')
    if t:
        o['ty'] = t.get('desugaredQualType', t.get('qualType'))
        o['qty'] = t.get('qualType')
    at = n.get('argType')
    if at:
        o['argType'] = at.get('desugaredQualType', at.get('qualType'))
    rd = n.get('referencedDecl')
    if rd:
        o['ref'] = rd.get('name')
        o['refid'] = rd.get('id')
        o['refkind'] = rd.get('kind')
        rt = rd.get('type')
        if rt:
            o['refty'] = rt.get('desugaredQualType', rt.get('qualType'))
    ln = _line(n, cur_line)
    o['line'] = ln
    off = _offsets(n)
    if off:
        o['off'] = off
    inner = n.get('inner')
    if inner:
        if n['kind'] in ('ForStmt', 'IfStmt', 'WhileStmt', 'DoStmt'):
            # positional children: keep placeholders for absent parts
            o['inner'] = [slim(c, ln) or {'kind': 'NullStmt', 'line': ln}
                          for c in inner]
        else:
            o['inner'] = [s for s in (slim(c, ln) for c in inner)
                          if s is not None]
    return o


def _hash(path):
    h = hashlib.sha1()
    h.update(open(path, 'rb').read())
    for f in sorted(glob.glob(os.path.join(os.path.dirname(path), '*.h'))):
        h.update(open(f, 'rb').read())
    return h.hexdigest()


def clang_args(path, extra=()):
    return ['clang', '-fsyntax-only', '-w', '-I', PYINC, '-I',
            os.path.dirname(path)] + list(extra)


def load_tu(cfile, repo=None, defines=()):
    """Returns dict: {'funcs': name -> slim FunctionDecl, 'protos': name ->
    [param type strings], 'src': source text, 'path': path}"""
    repo = repo or REPO
    path = os.path.join(repo, 'src/C', cfile)
    key = _hash(path) + ''.join(defines) + 'slim-v3'
    os.makedirs(CACHE, exist_ok=True)
    cp = os.path.join(CACHE, '%s.%s.pkl' % (cfile, hashlib.sha1(
        key.encode()).hexdigest()[:16]))
    if os.path.exists(cp):
        try:
            with open(cp, 'rb') as f:
                return pickle.load(f)
        except Exception:
            pass
    args = clang_args(path, ['-D' + d for d in defines]) + [
        '-Xclang', '-ast-dump=json', path]
    p = subprocess.run(args, capture_output=True)
    if p.returncode != 0:
        raise RuntimeError('clang failed on %s: %s' % (path, p.stderr.decode()
                                                       [:2000]))
    tu = json.loads(p.stdout)
    src = open(path, 'rb').read().decode('utf-8', 'replace')
    lines = src.split('\n')
    funcs, protos, globs = {}, {}, {}
    for d in tu.get('inner', []):
        k = d.get('kind')
        if k == 'FunctionDecl':
            name = d.get('name')
            params = [c for c in d.get('inner', []) if c.get('kind') ==
                      'ParmVarDecl']
            protos[name] = [(c.get('name'), c['type'].get(
                'desugaredQualType', c['type'].get('qualType')))
                for c in params]
            has_body = any(c.get('kind') == 'CompoundStmt' for c in
                           d.get('inner', []))
            if not has_body:
                continue
            ln = _line(d, 0)
            # main-file test: the source line must mention the name
            ok = False
            for l in range(max(0, ln - 3), min(len(lines), ln + 2)):
                if name and (name + '(') in lines[l].replace(' (', '('):
                    ok = True
            if ok:
                funcs[name] = slim(d)
        elif k == 'VarDecl':
            nm = d.get('name')
            ln = _line(d, 0)
            if nm and 0 < ln <= len(lines) and nm in lines[ln - 1]:
                globs[nm] = slim(d)
    out = {'funcs': funcs, 'protos': protos, 'globals': globs, 'src': src,
           'path': path, 'cfile': cfile}
    tmp = cp + '.%d' % os.getpid()
    with open(tmp, 'wb') as f:
        pickle.dump(out, f, protocol=4)
    os.replace(tmp, cp)
    # drop older cache files for the same translation unit
    for old in glob.glob(os.path.join(CACHE, cfile + '.*.pkl')):
        if old != cp:
            try:
                os.remove(old)
            except OSError:
                pass
    return out


def src_of(tu, node):
    off = node.get('off')
    if not off:
        return '?'
    return ' '.join(tu['src'][off[0]:off[1]].split())


if __name__ == '__main__':
    import time
    t = time.time()
    tu = load_tu(sys.argv[1])
    print(len(tu['funcs']), 'functions', '%.1fs' % (time.time() - t))
    print(sorted(tu['funcs'])[:80])
