"""Run cvc on one function, discharge its obligations, return a plain-data
report (picklable, so functions can be verified in parallel processes)."""
import os
import time, traceback, z3
from . import cast as cast_mod
from .exec import (Executor, State, PtrV, PyObj, Unsupported, PathLimit,
                   NeedInline, Opaque, IntV, NULL)


def pycfunction_init(ex, st, params):
    """(PyObject *self, PyObject *args[, PyObject *kwrds])"""
    for p in params:
        o = ex.new_obj('param_' + p['name'])
        st.vars[p['id']] = PtrV(None, 0, 'PyObject', obj=o)


def discharge(ex, ob, timeout_ms):
    if ob.extra.get('force') == 'undecided':
        ob.status = 'undecided'
        return
    if ob.pc is None:
        ob.status = 'proved'
        ob.extra['by'] = 'simplifier'
        return
    r = ex.check(ob.pc, [z3.Not(ob.goal)], timeout=timeout_ms)
    if r == z3.unsat:
        ob.status = 'proved'
        ob.extra['by'] = 'z3'
        if os.environ.get('VERIF_CROSSCHECK') and ob.kind != 'nooverflow':
            # thorough tier: second opinion from cvc5 on the same query
            from engine import smt
            r3 = smt.cross_check(list(ex.axioms) + list(ob.pc),
                                 z3.Not(ob.goal))
            ob.extra['cvc5'] = r3
            if r3 == 'unsat':
                ob.extra['by'] = 'z3+cvc5'
            elif r3 == 'sat':
                ob.status = 'undecided'
                ob.extra['by'] = 'z3 says proved, cvc5 says refuted'
    elif r == z3.sat:
        ob.status = 'refuted'
        try:
            m = ex.solver.model() if False else None
        except Exception:
            m = None
    else:
        # second attempt: fresh solver, sliced query, generous budget (the
        # first budget is sized for the common case; verdicts must not flip
        # when all cores are busy)
        from engine import smt
        s2 = z3.Solver()
        s2.set('timeout', max(6 * timeout_ms, 60000))
        allc = list(ex.axioms) + list(ob.pc)
        neg = z3.Not(ob.goal)
        idx = smt.relevant(allc, smt.symbols(neg))
        for i in sorted(idx):
            s2.add(allc[i])
        s2.add(neg)
        r2 = s2.check()
        if r2 == z3.unsat:
            ob.status = 'proved'
            ob.extra['by'] = 'z3 (retry)'
        elif r2 == z3.sat:
            ob.status = 'refuted'
        else:
            ob.status = 'undecided'


def model_for(ex, ob, timeout_ms):
    """re-solve a refuted obligation and return {name: value} for the
    constants of the model.  Small matrices are preferred (so that the
    counterexample can be replayed); the bound is dropped if that is unsat."""
    def attempt(bound):
        s = z3.Solver()
        s.set('timeout', timeout_ms)
        for a in ex.axioms:
            s.add(a)
        for p in ob.pc:
            s.add(p)
        s.add(z3.Not(ob.goal))
        if bound == 'mem':
            # the smallest total size that can still be replayed: at most
            # 2^30 + 8 elements per matrix, 3 * 2^30 in total
            tot = z3.IntVal(0)
            for o in ex.objs.values():
                if hasattr(o, 'nrows'):
                    s.add(o.nrows * o.ncols <= 2**30 + 8)
                    tot = tot + o.nrows * o.ncols
            s.add(tot <= 3 * 2**30)
        elif bound is not None:
            for o in ex.objs.values():
                if hasattr(o, 'nrows'):
                    s.add(o.nrows <= bound, o.ncols <= bound)
        if s.check() != z3.sat:
            return None
        return s.model()
    m = None
    for b in (6, 64, 'mem', None):
        m = attempt(b)
        if m is not None:
            break
    if m is None:
        return None
    out = {}
    # complete the model on the parsed arguments (don't-care values would
    # otherwise be replaced by the Python-level defaults in the replay)
    for nm_, t_ in getattr(ex, 'parsed_terms', {}).items():
        try:
            v = m.eval(t_, model_completion=True)
            if z3.is_int_value(v):
                out[nm_] = v.as_long()
        except Exception:
            pass
    for d in m.decls():
        if d.arity() == 0:
            v = m[d]
            nm = d.name()
            if nm.startswith(('ismat(param', 'issp(param', 'ismat(result',
                              'issp(result', 'param_', 'result')):
                continue
            if z3.is_int_value(v):
                out[nm] = v.as_long()
            elif z3.is_true(v) or z3.is_false(v):
                out[nm] = z3.is_true(v)
            elif z3.is_rational_value(v):
                out[nm] = float(v.as_fraction())
    return out


def verify_function(tu, fname, externs, init=pycfunction_init, config=None,
                    post=None, timeout_ms=10000):
    """Returns report dict:
      status: ok | unsupported | error
      obligations: list of dict(site, kind, status, text, line, model?)
      paths: n
      calls/outcomes summaries produced by `post(ex, finished)`"""
    t0 = time.time()
    # symbol names must not depend on what the worker process verified
    # before (solver heuristics are sensitive to names): the uid counters
    # restart for every function
    import itertools
    from . import exec as _x
    _x.Region._n = itertools.count()
    _x.PyObj._n = itertools.count()
    rep = {'function': fname, 'file': tu['cfile'], 'status': 'ok',
           'obligations': [], 'paths': 0, 'trusted': [], 'post': None,
           'reason': None}
    if fname not in tu['funcs']:
        rep['status'] = 'missing'
        rep['reason'] = 'function %s not found in %s' % (fname, tu['cfile'])
        return rep
    ex = Executor(tu, fname, externs, config)
    try:
        finished = ex.run(init)
    except (Unsupported, PathLimit, NeedInline) as e:
        rep['status'] = 'unsupported'
        rep['reason'] = '%s: %s' % (type(e).__name__, e)
        rep['wall_s'] = time.time() - t0
        return rep
    except Exception as e:
        rep['status'] = 'error'
        rep['reason'] = traceback.format_exc()
        rep['wall_s'] = time.time() - t0
        return rep
    rep['paths'] = len(finished)
    rep['params'] = None
    ex.parsed_terms = {}
    for st, kind, val in finished:
        if st.ghost.get('parse_codes'):
            rep['params'] = st.ghost['parse_codes']
            for k_, v_ in st.ghost.get('parsed', {}).items():
                if z3.is_expr(v_):
                    ex.parsed_terms[k_] = v_
            break
    # gather obligations over all paths: an obligation *site* is proved iff
    # every path instance is proved.  Instances shared by several paths
    # (recorded before a fork) are discharged once.
    seen = {}
    for st, kind, val in finished:
        for ob in st.obligs:
            seen[id(ob)] = ob
    extra_obs = []
    if post is not None:
        try:
            rep['post'] = post(ex, finished, extra_obs)
        except Unsupported as e:
            rep['status'] = 'unsupported'
            rep['reason'] = 'post: %s' % e
            rep['wall_s'] = time.time() - t0
            return rep
    for ob in extra_obs:
        seen[id(ob)] = ob
    for ob in getattr(ex, 'orphans', []):
        seen[id(ob)] = ob
    rep['abandoned'] = getattr(ex, 'abandoned', [])
    sites = {}
    # dedupe instances with identical (site, pc, goal)
    uniq = {}
    for ob in seen.values():
        key = (ob.site, ob.goal.get_id(), tuple(p.get_id() for p in ob.pc)
               if ob.pc is not None else None)
        uniq.setdefault(key, ob)
    only = (config or {}).get('only_kinds')
    for ob in uniq.values():
        if only is not None and ob.kind not in only:
            # this run decides only the listed kinds (the others belong to
            # another check of the same function); nothing is reported
            continue
        t_ob = time.time()
        discharge(ex, ob, timeout_ms)
        ob.extra['solve_s'] = round(time.time() - t_ob, 2)
        s = sites.setdefault(ob.site, {'site': ob.site, 'kind': ob.kind,
                                       'text': ob.text, 'line': ob.line,
                                       'instances': 0, 'proved': 0,
                                       'refuted': 0, 'undecided': 0,
                                       'model': None, 'by': set(),
                                       'extra': {k: v for k, v in
                                                 ob.extra.items() if
                                                 isinstance(v, (str, int,
                                                                bool))}})
        s['instances'] += 1
        s[ob.status] += 1
        s['max_solve_s'] = max(s.get('max_solve_s', 0.0),
                               ob.extra.get('solve_s', 0.0))
        if ob.status == 'proved':
            s['by'].add(ob.extra.get('by', 'z3'))
        if ob.status == 'refuted':
            # which nondeterministic choices (named contract outcomes) the
            # refuted instance depends on
            tags = sorted(str(c_) for c_ in (ob.pc or []) if z3.is_const(c_)
                          and '@' in str(c_))
            tl = s.setdefault('refuted_choices', [])
            if tags not in tl and len(tl) < 6:
                tl.append(tags)
        if ob.status == 'refuted' and s['model'] is None:
            s['model'] = model_for(ex, ob, timeout_ms)
    for s in sites.values():
        s['status'] = 'refuted' if s['refuted'] else (
            'undecided' if s['undecided'] else 'proved')
        s['by'] = sorted(s['by'])
        rep['obligations'].append(s)
    rep['obligations'].sort(key=lambda s: (s['line'], s['site']))
    rep['trusted'] = sorted(ex.trusted)
    rep['solver_s'] = ex.solver_time
    rep['wall_s'] = time.time() - t0
    return rep
