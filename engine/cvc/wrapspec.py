"""Wrapper specifications (call correspondence, defaults, rejection, frame)
for the BLAS/LAPACK style wrappers: checks the finished paths of one wrapper
against a row written from the documentation (DESIGN C17/C18).

A row is a Python function  row(a) -> Spec  where `a` gives the *parsed
Python-level arguments* as z3 terms (ints, chars) or matrix views.
"""
import z3
from .exec import (Oblig, PtrV, FltV, IntV, BoolV, StructV, Opaque, NULL,
                   Unsupported, toint)


def zabs(x):
    return z3.If(x >= 0, x, -x)


def zmax(a, b):
    return z3.If(a >= b, a, b)


def zmin(a, b):
    return z3.If(a <= b, a, b)


def cdiv(a, b):
    from .exec import cdiv as c
    return c(a, b)


class MatView:
    def __init__(self, obj):
        self.obj = obj
        self.nrows, self.ncols, self.id = obj.nrows, obj.ncols, obj.id
        self.len = obj.nrows * obj.ncols
        self.ismat = obj.ismat
        self.name = obj.name


class Args:
    def __init__(self, ex, st):
        self._ex = ex
        self._st = st
        self._parsed = st.ghost.get('parsed', {})

    def __getattr__(self, name):
        if name.startswith('_'):
            raise AttributeError(name)
        v = self._parsed.get(name)
        if v is None:
            raise Unsupported('spec refers to unknown argument %s' % name)
        from .exec import PyObj
        if isinstance(v, PyObj):
            return MatView(v)
        return v

    def given(self, name):
        """z3 Bool: optional object argument was supplied"""
        o = self._parsed[name]
        return z3.Bool('given(%s)' % o.name)

    def scalar(self, name, default):
        """expected value of an optional number argument, as (real-typecode
        value, complex-typecode value)"""
        o = self._parsed[name]
        g = z3.Bool('given(%s)' % o.name)
        d = z3.RealVal(default)
        return (z3.If(g, z3.Real('re(%s)' % o.name), d),
                z3.If(g, z3.Real('cplx(%s)' % o.name), d))

    def scalar_bad(self, name, idterm, optional=True):
        """number argument not convertible to the matrices' typecode"""
        o = self._parsed[name]
        bad = z3.Not(z3.If(idterm == 1, z3.Bool('isreal(%s)' % o.name),
                           z3.Bool('iscplx(%s)' % o.name)))
        if optional:
            return z3.And(z3.Bool('given(%s)' % o.name), bad)
        return bad

    def reqscalar(self, name):
        o = self._parsed[name]
        return (z3.Real('re(%s)' % o.name), z3.Real('cplx(%s)' % o.name))


def ch(c):
    return ord(c)


def isin(v, chars):
    return z3.Or([v == ord(c) for c in chars])


class Call:
    def __init__(self, routine, when=None, ints=None, ptrs=None, scalars=None):
        self.routine = routine          # {'d': 'dgemv_', 'z': 'zgemv_'} or str
        self.when = when if when is not None else z3.BoolVal(True)
        self.ints = ints or {}
        self.ptrs = ptrs or {}          # param -> (matrix arg name, element offset)
        self.scalars = scalars or {}    # param -> (re, cplx) pair or Real


class Spec:
    def __init__(self, mats, reject, calls, outputs=(), noop=None,
                 same_id=None, ids=(1, 2), value=None, type_rejects=()):
        self.mats = mats
        # list of (text, cond[, guard]): a call may be rejected only if some
        # cond holds (tightness); it must be rejected if cond /\ guard holds
        self.reject = reject
        self.calls = calls
        self.outputs = outputs          # list of (mat name, elem off, elems)
        self.noop = noop if noop is not None else z3.BoolVal(False)
        self.same_id = same_id if same_id is not None else list(mats)
        self.ids = ids
        self.value = value
        self.type_rejects = list(type_rejects)


def vec_extent(n, inc):
    return z3.If(n > 0, 1 + (n - 1) * zabs(inc), 0)


def ge_extent(m, n, ld):
    return z3.If(z3.And(m > 0, n > 0), (n - 1) * ld + m, 0)


def default_n(length, off, inc):
    """documented default vector length:
       (len >= off+1) ? 1 + (len-off-1)/|inc| : 0"""
    return z3.If(length >= off + 1, 1 + (length - off - 1) / zabs(inc), 0)


def check_wrapper(ex, finished, row, extra_obs, kwnames=None):
    """Generates the wrapper-level obligations into extra_obs; returns a
    summary dict."""
    summ = {'paths': {'parse_fail': 0, 'error': 0, 'ok': 0}, 'calls': []}
    fname = ex.fname

    def ob(kind, pc, goal, text, line=0, extra=None):
        extra_obs.append(Oblig('%s:%s:%s' % (fname, kind, text), kind,
                               list(pc), z3.simplify(goal), text, line,
                               extra))

    any_ok = False
    for st, kind, val in finished:
        if kind != 'return':
            raise Unsupported('wrapper path ends without return')
        pok = st.ghost.get('parse_ok')
        if pok is None:
            raise Unsupported('path without argument parsing')
        pc = st.path()
        if ex.check(pc, [pok]) == z3.unsat:
            summ['paths']['parse_fail'] += 1
            # parse failure: nothing may have happened
            ob('reject-clean', pc, z3.BoolVal(not st.calls and not st.stores),
               'argument-parse failure returns before any call or store')
            continue
        a = Args(ex, st)
        if kwnames is not None:
            got = st.ghost.get('parse_order')
            ob('kwlist', [], z3.BoolVal(list(got) == list(kwnames)),
               'keyword names and order are the documented ones %s' %
               ' '.join(kwnames))
        sp = row(a)
        summ['params'] = st.ghost.get('parse_codes')
        summ['mats'] = list(sp.mats)
        summ['outputs'] = [o[0] for o in sp.outputs]
        mats = [getattr(a, m) for m in sp.mats]
        typeerr = [z3.Not(m.ismat) for m in mats]
        sid = [getattr(a, m) for m in sp.same_id]
        for i in range(1, len(sid)):
            typeerr.append(sid[0].id != sid[i].id)
        idbad = None
        if sid:
            idbad = z3.Not(z3.Or([sid[0].id == i for i in sp.ids]))
        typeerr.extend(sp.type_rejects)
        # a failed number conversion may (but, where the wrapper falls back
        # to another conversion, need not) be a reason for rejection
        may_only = list(st.ghost.get('scalar_errs', []))
        rejects = [r[1] for r in sp.reject]
        is_err = val is NULL or (isinstance(val, PtrV) and val.obj is None
                                 and val.region is None)
        if is_err:
            summ['paths']['error'] += 1
            ob('reject-exception', pc, z3.BoolVal(st.exc in (
                'PyExc_TypeError', 'PyExc_ValueError')),
               'error return raises TypeError or ValueError (got %s)' %
               st.exc)
            ob('reject-clean', pc, z3.BoolVal(not st.calls and not st.stores),
               'error return happens before any external call or store')
            ob('reject-tight', pc, z3.Or(typeerr + may_only + rejects + (
                [idbad] if idbad is not None else [])),
               'rejected only for a documented reason: "%s"' % (
                   st.ghost.get('exc_msg'),))
            continue
        summ['paths']['ok'] += 1
        any_ok = True
        # accepted: none of the documented rejection conditions holds
        for r in sp.reject:
            text, c = r[0], r[1]
            if len(r) > 2:
                c = z3.And(c, r[2])
            ob('accept-sound', pc, z3.Not(c),
               'accepted calls do not satisfy rejection condition: ' + text)
        for c in typeerr:
            ob('accept-sound', pc, z3.Not(c),
               'accepted calls have matrix arguments of equal type')
        if idbad is not None:
            # a documented no-op may return before the typecode is examined
            ob('accept-sound', pc, z3.Or(sp.noop, z3.Not(idbad)),
               "accepted calls that do something have typecode 'd' or 'z'")
        tc_d = sid[0].id == 1 if sid else z3.BoolVal(True)
        # call correspondence
        es_of = lambda m: z3.If(m.id == 2, 16, 8)
        for rec in st.calls:
            cands = []
            for c in sp.calls:
                rts = c.routine if isinstance(c.routine, dict) else {
                    'd': c.routine, 'z': c.routine}
                conds = []
                for tc, rn in rts.items():
                    if rn != rec.name:
                        continue
                    eqs = [c.when]
                    if sid:
                        eqs.append(sid[0].id == (1 if tc == 'd' else 2))
                    for k, v in c.ints.items():
                        if k not in rec.args['ints']:
                            raise Unsupported('spec int %s not a parameter of'
                                              ' %s' % (k, rec.name))
                        eqs.append(rec.args['ints'][k] == v)
                    for k, pspec in c.ptrs.items():
                        # (matrix argument, element offset[, element size
                        # in bytes -- default: that of the typecode])
                        mname, off = pspec[0], pspec[1]
                        p = rec.args['ptrs'][k]
                        m = getattr(a, mname)
                        if p.region is not m.obj.buffer_region():
                            eqs.append(z3.BoolVal(False))
                        else:
                            esz = pspec[2] if len(pspec) > 2 else (
                                8 if tc == 'd' else 16)
                            eqs.append(p.off == off * esz)
                    for k, v in c.scalars.items():
                        got = rec.args['scalars'].get(k)
                        exp = v[0 if tc == 'd' else 1] if isinstance(
                            v, tuple) else v
                        if isinstance(got, FltV):
                            eqs.append(got.t == exp)
                        else:
                            eqs.append(z3.BoolVal(False))
                    conds.append(z3.And(eqs))
                cands.extend(conds)
            goal = z3.Or(cands) if cands else z3.BoolVal(False)
            # calls made on documented no-op inputs are harmless when they
            # cannot write (checked by the frame obligation below)
            ob('call-correspondence', rec.pc,
               z3.Or(goal, sp.noop),
               'call of %s at line %s has the documented routine and '
               'actuals' % (rec.name, rec.line), rec.line)
            summ['calls'].append(rec.name)
        expected = z3.And(z3.Not(sp.noop), z3.Or([c.when for c in sp.calls])
                          ) if sp.calls else z3.BoolVal(False)
        if not st.calls and sp.calls:
            ob('call-missing', pc, z3.Not(expected),
               'a path that makes no BLAS call is a documented no-op')
        # frame + effect extent
        outs = []
        for (mname, off, elems) in sp.outputs:
            m = getattr(a, mname)
            outs.append((m.obj.buffer_region(), off * es_of(m),
                         elems * es_of(m)))
        for srec in st.stores:
            r, off, nb, spc, line = srec[:5]
            inside = [z3.BoolVal(False)]
            for (orr, ooff, onb) in outs:
                if r is orr:
                    inside.append(z3.And(off >= ooff, off + nb <= ooff + onb))
            if r.kind in ('matbuf', 'spbuf'):
                ob('frame', spc, z3.Or(nb <= 0, z3.Or(inside)),
                   'store at line %s stays inside the documented output '
                   'view of %s' % (line, r.name), line)
        for (orr, ooff, onb) in outs:
            covered = [z3.BoolVal(False)]
            for srec in st.stores:
                r, off, nb, spc, line = srec[:5]
                if r is orr:
                    covered.append(z3.And(off == ooff, nb == onb))
            ob('effect-extent', pc, z3.Or(sp.noop, onb <= 0, z3.Or(covered)),
               'the documented output view of %s is written' % orr.name)
        if sp.value is not None:
            sp.value(ex, st, val, ob, pc)
    ob('accept-reachable', [], z3.BoolVal(any_ok),
       'some path accepts its arguments (vacuity guard)')
    return summ
