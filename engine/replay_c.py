"""Replay of C-side counterexamples against the real extension modules built
from the current tree (DESIGN 2.7).

* overlay build (optionally with clang UBSan: signed-integer-overflow and
  implicit-signed-integer-truncation) in a scratch directory;
* an LD_PRELOAD interposer generated from the extern BLAS table that logs
  the routine name, integer/flag actuals and array pointers of every BLAS call
  (and forwards to the real routine only when asked to);
* a small runner executed by /venv/bin/python that builds the arguments
  described by a verifier model, registers the matrix buffers, performs the
  call and reports exception / changed elements / interposer log as JSON.
"""
import os, sys, json, subprocess, tempfile, shutil, textwrap
from engine import overlay

RUNNER = r'''
import sys, json, os, ctypes
spec = json.load(open(sys.argv[1]))
if 'code' in spec:
    out = {'exception': None}
    try:
        exec(spec['code'], {})
    except BaseException as e:
        out['exception'] = type(e).__name__
        out['message'] = str(e)[:300]
    print('REPLAY-JSON ' + json.dumps(out))
    sys.exit(0)
import cvxopt
from cvxopt import matrix
mod = __import__('cvxopt.' + spec['module'], fromlist=['x'])
fn = getattr(mod, spec['func'])
out = {'exception': None, 'changed': {}, 'result': None}
mats = {}
bigs = set()
def build(a):
    k = a['kind']
    if k == 'matrix':
        tc = a['tc']
        n = a['nrows'] * a['ncols']
        base = a.get('seed', 1)
        if a.get('big') or 'fill' in a:
            val = a.get('fill', 0)
            m = matrix({'d': float(val), 'z': complex(val), 'i': val}[tc],
                       (a['nrows'], a['ncols']), tc)
            mats[a['name']] = m
            if a.get('big'): bigs.add(a['name'])
            return m
        if tc == 'd': vals = [float(base + i) for i in range(n)]
        elif tc == 'z': vals = [complex(base + i, -(base + i)) for i in range(n)]
        else: vals = [int(base + i) for i in range(n)]
        m = matrix(vals, (a['nrows'], a['ncols']), tc)
        mats[a['name']] = m
        return m
    if k == 'spmatrix':
        from cvxopt import spmatrix
        return spmatrix([], [], [], (a['nrows'], a['ncols']), a['tc'])
    if k in ('int', 'float'): return a['value']
    if k == 'complex': return complex(a['value'][0], a['value'][1])
    if k == 'char': return chr(a['value'])
    if k == 'bytechar': return bytes([a['value'] % 256])
    if k == 'none': return None
    raise ValueError(k)
class PyBuffer(ctypes.Structure):
    _fields_ = [('buf', ctypes.c_void_p), ('obj', ctypes.py_object),
                ('len', ctypes.c_ssize_t), ('itemsize', ctypes.c_ssize_t),
                ('readonly', ctypes.c_int), ('ndim', ctypes.c_int),
                ('format', ctypes.c_char_p),
                ('shape', ctypes.POINTER(ctypes.c_ssize_t)),
                ('strides', ctypes.POINTER(ctypes.c_ssize_t)),
                ('suboffsets', ctypes.POINTER(ctypes.c_ssize_t)),
                ('internal', ctypes.c_void_p)]
def bufaddr(m):
    v = PyBuffer()
    ctypes.pythonapi.PyObject_GetBuffer.argtypes = [
        ctypes.py_object, ctypes.POINTER(PyBuffer), ctypes.c_int]
    if ctypes.pythonapi.PyObject_GetBuffer(m, ctypes.byref(v), 0x11c) != 0:
        return 0
    a = v.buf
    ctypes.pythonapi.PyBuffer_Release.argtypes = [ctypes.POINTER(PyBuffer)]
    ctypes.pythonapi.PyBuffer_Release(ctypes.byref(v))
    return a or 0
args = [build(a) for a in spec.get('args', [])]
kwargs = {k: build(v) for k, v in spec.get('kwargs', {}).items()}
log = os.environ.get('CVXOPT_VERIF_LOG')
bufs = {}
for name, m in mats.items():
    n = len(m)
    addr = bufaddr(m) if n else 0
    es = {'d': 8, 'z': 16, 'i': 8}[m.typecode]
    bufs[name] = {'addr': addr, 'nbytes': n * es, 'elsize': es}
before = {name: list(m) for name, m in mats.items() if name not in bigs}
print('REPLAY-BUFS ' + json.dumps(bufs))
sys.stdout.flush()
try:
    r = fn(*args, **kwargs)
    out['result'] = repr(r)[:200]
except BaseException as e:
    out['exception'] = type(e).__name__
    out['message'] = str(e)[:200]
for name, m in mats.items():
    if name in bigs: continue
    after = list(m)
    out['changed'][name] = [i for i in range(len(after))
                            if after[i] != before[name][i]
                            and not (after[i] != after[i] and
                                     before[name][i] != before[name][i])]
out['bufs'] = bufs
calls = []
if log and os.path.exists(log):
    for line in open(log):
        p = line.split()
        if p and p[0] == 'CALL':
            d = {'routine': p[1]}
            for kv in p[2:]:
                k, v = kv.split('=')
                d[k] = 0 if v == '(nil)' else int(v, 0)
            calls.append(d)
out['calls'] = calls
print('REPLAY-JSON ' + json.dumps(out))
'''


CHARPARAMS = ('trans', 'transa', 'transb', 'uplo', 'diag', 'side', 'jobz',
              'range', 'jobu', 'jobvt', 'vect', 'job', 'compq', 'norm',
              'direct', 'storev', 'sort', 'sense', 'jobvl', 'jobvr', 'jobvs',
              'jobvsl', 'jobvsr', 'itype_c', 'fact', 'equed', 'balanc',
              'compz', 'howmny', 'eigsrc', 'initv')


def gen_interposer(routines, lapack=None):
    """C source of the LD_PRELOAD shim for the given extern tables.

    BLAS routines: log, forward only when CVXOPT_VERIF_FORWARD=1.
    LAPACK routines: log; a workspace query (lwork/lrwork/liwork == -1) is
    always forwarded (the wrapper needs the answer; a query touches nothing
    but work[0]); any other call is forwarded only when asked, otherwise the
    integer outputs (info, ...) are set to 0."""
    from contracts.c.extern_blas import SCALARS
    out = ['#define _GNU_SOURCE', '#include <dlfcn.h>', '#include <stdio.h>',
           '#include <stdlib.h>', '#include <string.h>',
           'static FILE *lg(void){ static FILE *f; if(!f){ const char *p='
           'getenv("CVXOPT_VERIF_LOG"); f = p ? fopen(p,"a") : stderr; }'
           ' return f; }',
           'static __thread int depth;',
           'static int fwd(void){ const char *p=getenv("CVXOPT_VERIF_FORWARD");'
           ' return p && p[0]==\'1\'; }',
           'static void *look(const char *nm){ void *p = dlsym(RTLD_NEXT, nm);'
           ' if(!p){ static void *hb, *hl; if(!hb) hb = dlopen("libblas.so.3",'
           ' RTLD_LAZY|RTLD_GLOBAL); if(hb) p = dlsym(hb, nm); if(!p){ if(!hl)'
           ' hl = dlopen("liblapack.so.3", RTLD_LAZY|RTLD_GLOBAL); if(hl) p ='
           ' dlsym(hl, nm);} } if(!p){ fprintf(stderr, "interposer: cannot '
           'resolve %s\\n", nm); abort(); } return p; }']
    tables = [(routines, False)]
    if lapack:
        tables.append((lapack, True))
    for tab, islap in tables:
        for name, rt in sorted(tab.items()):
            ret = {'real': 'double', 'index': 'int', 'int': 'int'}.get(
                rt.ret, 'void')
            params = ', '.join('void *a%d' % i for i in range(len(rt.params)))
            fmt, vals, outs, wsz = [], [], [], []
            funcs = getattr(rt, 'funcs', ())
            routs = getattr(rt, 'outs', ())
            for i, p in enumerate(rt.params):
                if p in rt.arrays:
                    fmt.append('%s=%%p' % p)
                    vals.append('a%d' % i)
                elif p in funcs:
                    continue
                elif p in routs:
                    outs.append(i)
                elif p in SCALARS or (islap and p in (
                        'vl', 'vu', 'abstol', 'rcond', 'anorm', 'alpha_r')):
                    continue
                elif p in CHARPARAMS:
                    fmt.append('%s=%%d' % p)
                    vals.append('(int)*(char*)a%d' % i)
                else:
                    fmt.append('%s=%%d' % p)
                    vals.append('*(int*)a%d' % i)
                    if p in ('lwork', 'lrwork', 'liwork'):
                        wsz.append(i)
            call = ', '.join('a%d' % i for i in range(len(rt.params)))
            cond = 'fwd()'
            if islap and wsz:
                cond = '(fwd() || %s)' % ' || '.join(
                    '*(int*)a%d == -1' % i for i in wsz)
            # only calls made by the extension itself are logged (depth 0);
            # calls LAPACK makes internally while forwarded are not
            body = ['%s %s(%s){' % (ret, name, params),
                    '  if (depth > 0) { %s (*real)(%s) = look("%s"); '
                    '%sreal(%s); %s}' % (
                        ret, params, name,
                        'return ' if ret != 'void' else '', call,
                        'return; ' if ret == 'void' else ''),
                    '  FILE *f = lg();',
                    '  fprintf(f, "CALL %s %s\\n"%s); fflush(f);' % (
                        name, ' '.join(fmt), ''.join(', ' + v for v in vals)),
                    '  if (%s) { %s (*real)(%s) = look("%s");' % (
                        cond, ret, params, name),
                    '    depth++; %sreal(%s); depth--; %s}' % (
                        ('%s r = ' % ret) if ret != 'void' else '', call,
                        'return r; ' if ret != 'void' else 'return; ')]
            for i in outs:
                body.append('  if (a%d) *(int*)a%d = 0;' % (i, i))
            body += ['  %s' % ('return 0;' if ret != 'void' else 'return;'),
                     '}']
            out.extend(body)
    return '\n'.join(out) + '\n'


def parse_log(path):
    calls = []
    for line in open(path):
        p = line.split()
        if p and p[0] == 'CALL':
            d = {'routine': p[1]}
            for kv in p[2:]:
                k, v = kv.split('=')
                d[k] = 0 if v == '(nil)' else int(v, 0)
            calls.append(d)
    return calls


def valgrind_errors(stderr):
    """invalid accesses made below a cvxopt extension function, not counting
    invalid READS inside the optimised BLAS kernels (OpenBLAS kernels load
    whole vectors past the end of an operand by design)"""
    import re
    blocks, cur = [], None
    for line in stderr.splitlines():
        m = re.match(r'==\d+== (Invalid (read|write) of size \d+|Process '
                     r'terminating.*|Jump to the invalid address.*)', line)
        if m:
            cur = {'what': m.group(1), 'frames': [], 'where': ''}
            blocks.append(cur)
            continue
        if cur is None:
            continue
        m = re.match(r'==\d+==\s+(at|by) 0x[0-9A-F]+: (\S+) \((?:in )?'
                     r'([^)]*)\)', line)
        if m:
            cur['frames'].append((m.group(2), os.path.basename(m.group(3))))
            continue
        m = re.match(r'==\d+==\s+Address (.*)', line)
        if m:
            cur['where'] = m.group(1)
            cur = None
    errs = []
    for b in blocks:
        if not b['what'].startswith('Invalid'):
            continue
        fr = b['frames']
        if not any('cvxopt' in f[1] or f[1].startswith((
                'base.', 'blas.', 'lapack.', 'misc_solvers.')) for f in fr):
            continue
        top = fr[0] if fr else ('?', '?')
        if 'read' in b['what'] and 'openblas' in top[1]:
            continue
        errs.append({'what': b['what'], 'at': '%s (%s)' % top,
                     'address': b['where'],
                     'stack': [f[0] for f in fr[:8]]})
    return errs


class Env:
    """scratch overlay (removed on close)"""

    def __init__(self, ubsan=False, interpose=True, repo=None):
        self.dir = tempfile.mkdtemp(prefix='cvxverif-')
        self.ubsan = ubsan
        self.repo = repo or overlay.REPO
        ok, log = overlay.build(self.dir, repo=self.repo)
        if not ok:
            self.close()
            raise RuntimeError('overlay build failed:\n' + log[-3000:])
        self.ld_path = None
        if ubsan:
            rt = subprocess.run(['clang', '-print-file-name=libclang_rt.'
                                 'ubsan_standalone-x86_64.so'],
                                capture_output=True, text=True).stdout.strip()
            self.ld_path = os.path.dirname(rt)
            # abs() is a library call and is not instrumented; in the UBSan
            # build it is replaced by the equivalent expression so that
            # abs(INT_MIN) is reported at the place of the call
            hdr = os.path.join(self.dir, 'verif_abs.h')
            with open(hdr, 'w') as f:
                f.write('#include <stdlib.h>\n#include <math.h>\n'
                        '#include <complex.h>\n'
                        '#define abs(x) ((x) < 0 ? -(x) : (x))\n')
            for mod, srcs in overlay.REBUILT.items():
                outp = os.path.join(self.dir, 'cvxopt', mod + overlay.SUFFIX)
                args = ['clang', '-shared', '-fPIC', '-O1', '-g', '-w',
                        '-include', hdr,
                        '-fsanitize=signed-integer-overflow,'
                        'implicit-signed-integer-truncation',
                        '-shared-libsan', '-I', overlay.PYINC, '-I',
                        os.path.join(self.repo, 'src/C')]
                args += [os.path.join(self.repo, 'src/C', s) for s in srcs]
                args += ['-o', outp, '-llapack', '-lblas', '-lm']
                p = subprocess.run(args, capture_output=True, text=True)
                if p.returncode != 0:
                    self.close()
                    raise RuntimeError('ubsan build failed: ' + p.stderr[
                        -2000:])
        self.shim = None
        if interpose:
            from contracts.c.extern_blas import ROUTINES
            from contracts.c.extern_lapack import ROUTINES as LROUTINES
            src = os.path.join(self.dir, 'interpose.c')
            with open(src, 'w') as f:
                f.write(gen_interposer(ROUTINES, LROUTINES))
            self.shim = os.path.join(self.dir, 'interpose.so')
            p = subprocess.run(['gcc', '-shared', '-fPIC', '-O1', '-w', src,
                                '-o', self.shim, '-ldl'],
                               capture_output=True, text=True)
            if p.returncode != 0:
                self.close()
                raise RuntimeError('interposer build failed: ' + p.stderr)
        with open(os.path.join(self.dir, 'runner.py'), 'w') as f:
            f.write(RUNNER)
        self.n = 0

    def call(self, spec, forward=False, timeout=120, valgrind=False):
        """spec: {'module','func','args':[...],'kwargs':{...}} -> dict"""
        self.n += 1
        sp = os.path.join(self.dir, 'call%d.json' % self.n)
        lg = os.path.join(self.dir, 'call%d.log' % self.n)
        with open(sp, 'w') as f:
            json.dump(spec, f)
        env = dict(os.environ)
        env['PYTHONPATH'] = self.dir
        env['CVXOPT_VERIF'] = '1'
        env['CVXOPT_VERIF_LOG'] = lg
        env['CVXOPT_VERIF_FORWARD'] = '1' if forward else '0'
        if self.shim:
            env['LD_PRELOAD'] = self.shim
        if self.ld_path:
            env['LD_LIBRARY_PATH'] = self.ld_path + ':' + env.get(
                'LD_LIBRARY_PATH', '')
            env['UBSAN_OPTIONS'] = 'print_stacktrace=0:halt_on_error=0'
        cmd = ['/venv/bin/python', os.path.join(self.dir, 'runner.py'), sp]
        if valgrind:
            env['PYTHONMALLOC'] = 'malloc'
            cmd = ['valgrind', '-q', '--num-callers=12'] + cmd
            timeout = max(timeout, 600)
        try:
            p = subprocess.run(cmd, capture_output=True, text=True,
                               timeout=timeout, env=env, cwd=self.dir)
        except subprocess.TimeoutExpired:
            return {'timeout': True}
        res = {'returncode': p.returncode, 'stderr': p.stderr[-4000:]}
        for line in p.stdout.splitlines():
            if line.startswith('REPLAY-BUFS '):
                res['bufs'] = json.loads(line[len('REPLAY-BUFS '):])
            if line.startswith('REPLAY-JSON '):
                res.update(json.loads(line[len('REPLAY-JSON '):]))
        if 'calls' not in res and os.path.exists(lg):
            # the process died before it could report (signal, Fortran STOP
            # in xerbla): the interposer log is still there
            res['calls'] = parse_log(lg)
        if valgrind:
            res['valgrind'] = valgrind_errors(p.stderr)
        res['ubsan'] = [l for l in p.stderr.splitlines()
                        if 'runtime error:' in l]
        res['signal'] = -p.returncode if p.returncode < 0 else None
        return res

    def close(self):
        shutil.rmtree(self.dir, ignore_errors=True)

    def __enter__(self):
        return self

    def __exit__(self, *a):
        self.close()
