"""mpsvc: VC generation for the fixed-column text layout of the MPS writer and
reader in modeling.py (property C14).

The writer op.tofile is executed symbolically over its Python AST (re-read
from /repo on every run).  Strings are abstract terms with a z3 integer
length:

  Const(text) | Sym(what)            an unknown non-empty string without
                                     white space (a user-given name)
  StrOf(i)                           str(i) of a non-negative integer
  Cat(a, b, ...) | Prefix(a, n)      a[:n]        | RJust(a, w)   a.rjust(w)
  Num(x)                             '% 7.5E' % x (1 + 7 + 'E' + sign + 2 or
                                     3 exponent digits)

Every `f.write(...)` appends pieces to the current line; a piece ending in a
newline closes the line.  Loops are executed once for an arbitrary iteration
(their variable is a fresh symbol); both arms of every `if` are taken.  For
every line shape the start and end column of every non-blank segment are z3
terms over the symbolic lengths, and the contract (contracts/py/mps_spec.py)
states in which field of the fixed format each segment has to lie -- for all
names, all index values below 10^7 and all finite coefficients.

The reader op.fromfile is not executed: its constant slices `s[a:b]` are
collected per section (the section is the `while s[:k] != 'KEYWORD'` loop that
encloses the slice) together with how the slice is used (strip() -> label,
float() -> number), and compared with the same field table.

What the extraction drops: everything in tofile that does not contribute to
the text written (the matrices are opaque values; conditions on them are not
interpreted -- both arms are taken), doc strings.
"""
import ast, os, z3

REPO = os.environ.get('VERIF_REPO', '/repo')


class Unsupported(Exception):
    pass


# ------------------------------------------------------------ string terms
class SV:
    pass


class Const(SV):
    def __init__(self, s):
        self.s = s

    def key(self):
        return ('const', self.s)


class Sym(SV):
    """unknown string: attribute `attr` of object term `obj`"""
    def __init__(self, obj, attr, nonempty=False):
        self.obj, self.attr, self.nonempty = obj, attr, nonempty

    def key(self):
        return ('sym', self.obj, self.attr)


class StrOf(SV):
    def __init__(self, iv):
        self.iv = iv          # IntTerm

    def key(self):
        return ('str', self.iv.key())


class Cat(SV):
    def __init__(self, parts):
        self.parts = []
        for p in parts:
            self.parts.extend(p.parts if isinstance(p, Cat) else [p])

    def key(self):
        return ('cat',) + tuple(p.key() for p in self.parts)


class Prefix(SV):
    def __init__(self, a, n):
        self.a, self.n = a, n   # n: IntTerm

    def key(self):
        return ('prefix', self.a.key(), self.n.key())


class RJust(SV):
    def __init__(self, a, w):
        self.a, self.w = a, w

    def key(self):
        return ('rjust', self.a.key(), self.w)


class Num(SV):
    def __init__(self, src, node=None, env=None):
        self.src = src
        self.node = node          # AST of the number written
        self.env = env            # the abstract environment at that point

    def key(self):
        return ('num', self.src)


class IntTerm:
    """integer expression: ('var', name) | ('const', k) | ('len', SV) |
    ('sub', a, b) | ('add', a, b)"""
    def __init__(self, op, *a):
        self.op, self.a = op, a

    def key(self):
        return (self.op,) + tuple(x.key() if hasattr(x, 'key') else x
                                  for x in self.a)


class Opaque:
    def __init__(self, src):
        self.src = src

    def key(self):
        return ('opaque', self.src)


class Elem:
    """container[index]"""
    def __init__(self, cont, idx):
        self.cont, self.idx = cont, idx

    def key(self):
        return ('elem', self.cont, self.idx.key() if hasattr(
            self.idx, 'key') else self.idx)


class Lengths:
    """z3 lengths of string terms; collects the side conditions"""
    def __init__(self):
        self.memo = {}
        self.facts = []
        self.n = 0

    def fresh(self, base):
        self.n += 1
        return z3.Int('%s#%d' % (base, self.n))

    def ival(self, t):
        k = t.key()
        if k in self.memo:
            return self.memo[k]
        if t.op == 'const':
            r = z3.IntVal(t.a[0])
        elif t.op == 'var':
            r = z3.Int('int:' + t.a[0])
            self.facts.append(r >= 0)
        elif t.op == 'len':
            r = self.length(t.a[0])
        elif t.op == 'sub':
            r = self.ival(t.a[0]) - self.ival(t.a[1])
        elif t.op == 'add':
            r = self.ival(t.a[0]) + self.ival(t.a[1])
        else:
            raise Unsupported('integer term ' + t.op)
        self.memo[k] = r
        return r

    def length(self, s):
        k = s.key()
        if k in self.memo:
            return self.memo[k]
        if isinstance(s, Const):
            r = z3.IntVal(len(s.s))
        elif isinstance(s, Sym):
            r = z3.Int('len:%s.%s' % (s.obj, s.attr))
            self.facts.append(r >= (1 if s.nonempty else 0))
        elif isinstance(s, StrOf):
            r = z3.Int('digits:%s' % (s.iv.key(),))
            # requires: fewer than 10^7 rows / columns / components
            self.facts.append(z3.And(r >= 1, r <= 7))
        elif isinstance(s, Cat):
            r = z3.Sum([self.length(p) for p in s.parts]) if s.parts \
                else z3.IntVal(0)
        elif isinstance(s, Prefix):
            n, l = self.ival(s.n), self.length(s.a)
            # a[:n]: for n >= 0 the first min(len, n) characters; for
            # negative n all but the last -n
            r = z3.If(n >= 0, z3.If(l <= n, l, n),
                      z3.If(l + n >= 0, l + n, 0))
        elif isinstance(s, RJust):
            l = self.length(s.a)
            r = z3.If(l >= s.w, l, z3.IntVal(s.w))
        elif isinstance(s, Num):
            big = z3.Bool('three_digit_exponent:%s' % s.src)
            r = z3.If(big, z3.IntVal(13), z3.IntVal(12))
        else:
            raise Unsupported('string term %r' % (s,))
        self.memo[k] = r
        return r


# ------------------------------------------------------------ the writer
class Line:
    def __init__(self, pieces, section, lineno, guards, ctx=()):
        self.pieces, self.section = pieces, section
        self.lineno, self.guards = lineno, guards
        # enclosing constructs, outermost first: ('for', target, iter node,
        # symbol) | ('if', test node, polarity)
        self.ctx = list(ctx)


class WriterExec:
    def __init__(self, fn, src):
        self.fn, self.src = fn, src
        self.lines = []
        self.section = None
        self.notes = []
        self.raises_before_open = None

    def seg(self, n):
        return ast.get_source_segment(self.src, n) or ''

    # ---- expressions
    def ev(self, n, env):
        self._env = env
        if isinstance(n, ast.Constant):
            if isinstance(n.value, str):
                return Const(n.value)
            if isinstance(n.value, int) and not isinstance(n.value, bool):
                return IntTerm('const', n.value)
            return Opaque(self.seg(n))
        if isinstance(n, ast.Name):
            return env.get(n.id, Opaque(n.id))
        if isinstance(n, ast.BinOp):
            a, b = self.ev(n.left, env), self.ev(n.right, env)
            if isinstance(n.op, ast.Add):
                if isinstance(a, SV) and isinstance(b, SV):
                    return Cat([a, b])
                if isinstance(a, IntTerm) and isinstance(b, IntTerm):
                    return IntTerm('add', a, b)
            if isinstance(n.op, ast.Sub) and isinstance(a, IntTerm) and \
                    isinstance(b, IntTerm):
                return IntTerm('sub', a, b)
            if isinstance(n.op, ast.Mult):
                for x, y in ((a, b), (b, a)):
                    if isinstance(x, IntTerm) and x.op == 'const' and \
                            isinstance(y, Const):
                        return Const(y.s * x.a[0])
            if isinstance(n.op, ast.Mod) and isinstance(a, Const):
                return self.fmt(a.s, b, n)
            return Opaque(self.seg(n))
        if isinstance(n, ast.Subscript):
            base = self.ev(n.value, env)
            sl = n.slice
            if isinstance(sl, ast.Slice):
                if isinstance(base, SV) and sl.lower is None and \
                        sl.step is None and sl.upper is not None:
                    up = self.ev(sl.upper, env)
                    if isinstance(up, IntTerm):
                        return Prefix(base, up)
                    raise Unsupported('slice bound ' + self.seg(sl.upper))
                if isinstance(base, SV):
                    raise Unsupported('string slice ' + self.seg(n))
                return Opaque(self.seg(n))
            idx = self.ev(sl, env)
            if isinstance(n.value, ast.Name) and not isinstance(base, SV):
                cont = n.value.id
                if isinstance(base, Opaque) and base.src.isidentifier():
                    cont = base.src        # an alias of another container
                return Elem(cont, idx)
            return Opaque(self.seg(n))
        if isinstance(n, ast.Attribute):
            base = self.ev(n.value, env)
            if n.attr == 'name':
                if isinstance(base, Elem):
                    return Sym(base.key(), 'name')
                return Sym(self.seg(n.value), 'name')
            return Opaque(self.seg(n))
        if isinstance(n, ast.Call):
            f = n.func
            if isinstance(f, ast.Name) and f.id == 'str' and len(n.args) == 1:
                a = self.ev(n.args[0], env)
                if isinstance(a, IntTerm):
                    return StrOf(a)
                raise Unsupported('str() of ' + self.seg(n.args[0]))
            if isinstance(f, ast.Name) and f.id == 'len' and len(n.args) == 1:
                a = self.ev(n.args[0], env)
                if isinstance(a, SV):
                    return IntTerm('len', a)
                return Opaque(self.seg(n))
            if isinstance(f, ast.Attribute) and f.attr == 'rjust' and \
                    len(n.args) == 1:
                a = self.ev(f.value, env)
                w = self.ev(n.args[0], env)
                if isinstance(a, SV) and isinstance(w, IntTerm) and \
                        w.op == 'const':
                    return RJust(a, w.a[0])
                raise Unsupported('rjust ' + self.seg(n))
            return Opaque(self.seg(n))
        return Opaque(self.seg(n))

    def fmt(self, f, arg, n):
        """'...%8s...' % string   and   '...% 7.5E...' % number"""
        import re
        m = re.fullmatch(r'([^%]*)%(-?)( ?)(\d*)(?:\.(\d+))?([sEed])([^%]*)',
                         f)
        if not m:
            raise Unsupported('format string %r' % f)
        pre, minus, space, width, prec, conv, post = m.groups()
        if conv == 's':
            if not isinstance(arg, SV):
                raise Unsupported('%%s of %r' % (arg,))
            if minus:
                raise Unsupported('left-justified format %r' % f)
            body = RJust(arg, int(width)) if width else arg
        elif conv == 'E' and space == ' ' and width == '7' and prec == '5':
            body = Num(self.seg(n.right), n.right, dict(self._env))
        else:
            raise Unsupported('number format %r' % f)
        return Cat([Const(pre), body, Const(post)])

    # ---- statements
    def run(self):
        body = list(self.fn.body)
        st = {'env': {}, 'partial': [], 'guards': [], 'ctx': []}
        self.block(body, [st])

    def block(self, stmts, states):
        for s in stmts:
            nxt = []
            for st in states:
                nxt.extend(self.stmt(s, st))
            states = nxt
        return states

    def copy(self, st):
        return {'env': dict(st['env']), 'partial': list(st['partial']),
                'guards': list(st['guards']), 'ctx': list(st['ctx'])}

    def write(self, sv, st, lineno):
        if not isinstance(sv, SV):
            raise Unsupported('write of %r at line %d' % (sv, lineno))
        parts = sv.parts if isinstance(sv, Cat) else [sv]
        for p in parts:
            if isinstance(p, Const) and '\n' in p.s:
                if not p.s.endswith('\n') or p.s.count('\n') != 1:
                    raise Unsupported('newline inside a piece, line %d' %
                                      lineno)
                if p.s[:-1]:
                    st['partial'].append(Const(p.s[:-1]))
                self.close(st, lineno)
            else:
                st['partial'].append(p)

    def close(self, st, lineno):
        pcs = st['partial']
        st['partial'] = []
        if len(pcs) == 1 and isinstance(pcs[0], Const) and pcs[0].s in (
                'ROWS', 'COLUMNS', 'RHS', 'RANGES', 'BOUNDS', 'ENDATA'):
            self.section = pcs[0].s
            return
        sec = self.section
        if pcs and isinstance(pcs[0], Const) and pcs[0].s.startswith('NAME') \
                and sec is None:
            sec = 'NAME'
        self.lines.append(Line(pcs, sec, lineno, list(st['guards']),
                               list(st['ctx'])))

    def stmt(self, s, st):
        if isinstance(s, ast.Expr):
            c = s.value
            if isinstance(c, ast.Constant):
                return [st]
            if isinstance(c, ast.Call) and isinstance(c.func, ast.Attribute) \
                    and c.func.attr == 'write' and len(c.args) == 1:
                self.write(self.ev(c.args[0], st['env']), st, s.lineno)
                return [st]
            return [st]
        if isinstance(s, ast.Assign) and len(s.targets) == 1 and isinstance(
                s.targets[0], ast.Name):
            st['env'][s.targets[0].id] = self.ev(s.value, st['env'])
            return [st]
        if isinstance(s, ast.Assign):
            return [st]
        if isinstance(s, ast.If):
            a, b = self.copy(st), self.copy(st)
            t = self.seg(s.test)
            a['guards'].append(t)
            b['guards'].append('not (%s)' % t)
            a['ctx'].append(('if', s.test, True, dict(st['env'])))
            b['ctx'].append(('if', s.test, False, dict(st['env'])))
            # `if x.name:` -- the name is non-empty in the true arm
            tv = self.ev(s.test, st['env'])
            if isinstance(tv, Sym):
                for k, v in list(a['env'].items()):
                    pass
                a['nonempty'] = a.get('nonempty', []) + [tv.key()]
            ra = self.block(s.body, [a])
            rb = self.block(s.orelse, [b])
            for o_ in ra + rb:
                # ctx is the lexical nesting of the write, not the path
                o_['ctx'] = list(st['ctx'])
            return ra + rb
        if isinstance(s, ast.For) and isinstance(s.iter, (ast.List,
                                                         ast.Tuple)):
            # a loop over a literal sequence is unrolled
            if st['partial']:
                raise Unsupported('a loop starts in the middle of a line '
                                  '(line %d)' % s.lineno)
            for e in s.iter.elts:
                b = self.copy(st)
                if isinstance(s.target, ast.Name):
                    b['env'][s.target.id] = self.ev(e, b['env'])
                elif isinstance(s.target, (ast.Tuple, ast.List)) and \
                        isinstance(e, (ast.Tuple, ast.List)) and len(
                            e.elts) == len(s.target.elts) and all(
                            isinstance(t_, ast.Name)
                            for t_ in s.target.elts):
                    for t_, v_ in zip(s.target.elts, e.elts):
                        b['env'][t_.id] = self.ev(v_, b['env'])
                else:
                    raise Unsupported('loop target at line %d' % s.lineno)
                outs = self.block(s.body, [b])
                for o in outs:
                    if o['partial']:
                        raise Unsupported('a loop iteration ends in the '
                                          'middle of a line (line %d)' %
                                          s.lineno)
            return [st]
        if isinstance(s, ast.For):
            if st['partial']:
                raise Unsupported('a loop starts in the middle of a line '
                                  '(line %d)' % s.lineno)
            b = self.copy(st)
            if isinstance(s.target, ast.Name):
                it = s.iter
                rng = isinstance(it, ast.Call) and isinstance(
                    it.func, ast.Name) and it.func.id == 'range'
                b['env'][s.target.id] = IntTerm('var', '%s@%d' % (
                    s.target.id, s.lineno)) if rng or True else Opaque('it')
                if not rng:
                    b['env'][s.target.id] = IntTerm(
                        'var', '%s@%d' % (s.target.id, s.lineno)) \
                        if self.int_iter(it, st['env']) else Opaque(
                            self.seg(it))
            b['ctx'].append(('for', s.target, s.iter, dict(b['env'])))
            outs = self.block(s.body, [b])
            for o in outs:
                if o['partial']:
                    raise Unsupported('a loop iteration ends in the middle '
                                      'of a line (line %d)' % s.lineno)
            return [st]
        if isinstance(s, ast.Raise):
            return []
        if isinstance(s, (ast.Pass, ast.Return)):
            return [st] if isinstance(s, ast.Pass) else []
        raise Unsupported('statement %s at line %d' % (type(s).__name__,
                                                       s.lineno))

    def int_iter(self, it, env):
        """`for l in nz` where nz was built by a comprehension over a range"""
        if isinstance(it, ast.Name):
            v = env.get(it.id)
            return isinstance(v, Opaque) and 'range(' in v.src
        return False


def load(pyfile='modeling.py', repo=None):
    path = os.path.join(repo or REPO, 'src/python', pyfile)
    src = open(path).read()
    return ast.parse(src, filename=path), src


def find_method(tree, cls, name):
    for n in tree.body:
        if isinstance(n, ast.ClassDef) and n.name == cls:
            for m in n.body:
                if isinstance(m, ast.FunctionDef) and m.name == name:
                    return m
    return None


def segments(line, L):
    """[(kind, start, end, term)] of the non-blank segments of a line;
    kind: 'text' (constant, with its text), 'label', 'number'"""
    out = []
    pos = z3.IntVal(0)
    for p in line.pieces:
        ln = L.length(p)
        if isinstance(p, Const):
            i = 0
            s = p.s
            while i < len(s):
                if s[i] == ' ':
                    i += 1
                    continue
                j = i
                while j < len(s) and s[j] != ' ':
                    j += 1
                out.append(('text', pos + i, pos + j, s[i:j]))
                i = j
        elif isinstance(p, Num):
            out.append(('number', pos, pos + ln, p))
        elif isinstance(p, RJust):
            # right-justified: the content occupies the last len(a) columns
            la = L.length(p.a)
            out.append(('label', pos + ln - la, pos + ln, p.a))
        else:
            out.append(('label', pos, pos + ln, p))
        pos = pos + ln
    return out, pos


# ------------------------------------------------------------ the reader
class ReaderScan(ast.NodeVisitor):
    """constant slices of the line variable per section"""
    KEYS = ('NAME', 'ROWS', 'COLUMNS', 'RHS', 'RANGES', 'BOUNDS', 'ENDATA')

    def __init__(self, fn, src, linevar='s'):
        self.fn, self.src, self.linevar = fn, src, linevar
        self.uses = []        # (section, a, b, use, lineno)
        self.section = None
        self.scan(fn.body, None)

    def until_of(self, test):
        """`s[:k] != 'KEY' [and ...]` -> the keywords that end the loop"""
        ks = []
        for n in ast.walk(test):
            if isinstance(n, ast.Compare) and len(n.ops) == 1 and isinstance(
                    n.ops[0], ast.NotEq) and isinstance(
                        n.comparators[0], ast.Constant) and isinstance(
                            n.comparators[0].value, str):
                ks.append(n.comparators[0].value)
        return ks

    def scan(self, stmts, section):
        order = ['NAME', 'ROWS', 'COLUMNS', 'RHS', 'RANGES', 'BOUNDS',
                 'ENDATA']
        for s in stmts:
            if isinstance(s, ast.While):
                ks = self.until_of(s.test)
                sec = section
                if ks:
                    first = min((order.index(k) for k in ks if k in order),
                                default=None)
                    if first is not None and first > 0:
                        sec = order[first - 1]
                        # the RANGES / BOUNDS loops sit inside an `if`
                        if section in ('RANGES', 'BOUNDS'):
                            sec = section
                self.collect(s.test, sec)
                self.scan(s.body, sec)
            elif isinstance(s, ast.If):
                sec = section
                for n in ast.walk(s.test):
                    if isinstance(n, ast.Compare) and isinstance(
                            n.ops[0], ast.Eq) and isinstance(
                                n.comparators[0], ast.Constant) and \
                            n.comparators[0].value in ('RANGES', 'BOUNDS'):
                        sec = n.comparators[0].value
                self.collect(s.test, section)
                self.scan(s.body, sec)
                self.scan(s.orelse, section)
            elif isinstance(s, (ast.For, ast.With, ast.Try)):
                self.scan(getattr(s, 'body', []), section)
            else:
                self.collect(s, section)

    def collect(self, node, section):
        parents = {}
        for p in ast.walk(node):
            for c in ast.iter_child_nodes(p):
                parents[id(c)] = p
        for n in ast.walk(node):
            if isinstance(n, ast.Subscript) and isinstance(
                    n.value, ast.Name) and n.value.id == self.linevar:
                sl = n.slice
                if isinstance(sl, ast.Slice):
                    def cv(x, d):
                        if x is None:
                            return d
                        if isinstance(x, ast.Constant) and isinstance(
                                x.value, int):
                            return x.value
                        return '?'
                    a, b = cv(sl.lower, 0), cv(sl.upper, None)
                elif isinstance(sl, ast.Constant) and isinstance(
                        sl.value, int):
                    a, b = sl.value, sl.value + 1
                else:
                    a, b = '?', '?'
                use = 'other'
                p = parents.get(id(n))
                if isinstance(p, ast.Attribute) and p.attr == 'strip':
                    use = 'label'
                elif isinstance(p, ast.Call) and isinstance(
                        p.func, ast.Name) and p.func.id == 'float':
                    use = 'number'
                elif isinstance(p, ast.Compare):
                    use = 'keyword'
                self.uses.append((section, a, b, use, n.lineno))
