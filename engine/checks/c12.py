"""C12: LP assembly of op._inmatrixform and propagation in op.solve
(DESIGN 8.6 C12)"""
import os, json, subprocess, tempfile, shutil
from engine import overlay
from engine.verdict import Ob

ROOT = os.path.dirname(os.path.dirname(os.path.dirname(
    os.path.abspath(__file__))))


class Battery:
    def __init__(self):
        self.result = None
        self.err = None

    def run(self):
        if self.result is not None or self.err is not None:
            return
        d = tempfile.mkdtemp(prefix='cvxverif-lp-')
        try:
            ok, log = overlay.build(d)
            if not ok:
                self.err = 'overlay build failed: ' + log[-1500:]
                return
            env = dict(os.environ)
            env['PYTHONPATH'] = d
            env['CVXOPT_VERIF'] = '1'
            p = subprocess.run(['/venv/bin/python', os.path.join(
                ROOT, 'engine', 'replay', 'lp_battery.py')],
                capture_output=True, text=True, timeout=900, env=env, cwd=d)
            for line in p.stdout.splitlines():
                if line.startswith('LP-JSON '):
                    self.result = json.loads(line[len('LP-JSON '):])
            if self.result is None:
                self.err = 'battery produced no result (exit %s): %s' % (
                    p.returncode, (p.stderr or p.stdout)[-1500:])
        except Exception as e:
            self.err = repr(e)
        finally:
            shutil.rmtree(d, ignore_errors=True)


def make_replayer():
    bat = Battery()

    def replayer(ob, base):
        bat.run()
        if bat.err:
            return False, {'error': bat.err}
        want = {'assembly': ['assembly'], 'partition': ['assembly'],
                'epigraph-objective': ['assembly'],
                'epigraph-variable': ['assembly'],
                'epigraph-constraints': ['assembly'],
                'expansion-constraints': ['assembly'],
                'relation-direction': ['assembly'],
                'constraint-accepts': ['assembly'],
                'constraint-refuses': ['assembly'],
                'expansion-variable': ['assembly'],
                'expansion-objective': ['assembly'],
                'expansion-frame': ['assembly'],
                'expansion-loops': ['assembly'],
                'expansion-refuses': ['assembly'],
                'solve-propagation': ['propagation']}.get(ob.kind, [])
        hits = {k: v for k, v in bat.result.items() if k in want}
        info = {'rerun': {'battery': 'lp', 'oracles': want},
                'battery': 'engine/replay/lp_battery.py on an overlay build '
                'of the current tree (matrix form compared with the '
                'constraint functions by evaluation; values / multipliers '
                'after infeasible and unbounded solves)', 'oracles': want,
                'failing_cases': hits, 'all_failures': sorted(bat.result),
                'how_to_rerun': 'D=$(mktemp -d); python3 /verif/engine/'
                'overlay.py $D; PYTHONPATH=$D /venv/bin/python '
                '/verif/engine/replay/lp_battery.py'}
        return bool(hits), info
    return replayer


def _demote_form(report):
    """Obligations of the structural contracts that fail because the code
    is not of the documented FORM (goal constant false, no counter-model) are
    violations only with a failing input from the battery; otherwise they are
    reported UNDECIDED: an equivalent rewrite must not raise an alarm.
    Obligations that z3 refutes with values stay violations."""
    from engine.checks import py_common
    from contracts.py import (aslinearineq_spec, function_index_spec,
                              lp_assembly_spec, objective_spec,
                              relational_spec)
    form = set()
    for m_ in (aslinearineq_spec, function_index_spec, lp_assembly_spec,
               objective_spec, relational_spec):
        form |= m_.FORM_REFUTED
    py_common.demote_unconfirmed_shape_checks(
        report, lambda ob: ob.text in form,
        'the code is not of the form the contract documents')


def run(report, tier, seed):
    from contracts.py import lp_assembly_spec
    lp_assembly_spec.feed(report, tier)
    lp_assembly_spec.feed_solve(report, tier)
    from contracts.py import objective_spec
    try:
        oobs = objective_spec.obligations(10000 if tier == 'quick' else 60000)
    except KeyError as e:
        report.error('function under contract no longer exists: %s' % e)
        oobs = []
    try:
        oobs += objective_spec.pwl_loop_obligations(
            10000 if tier == 'quick' else 60000)
    except KeyError as e:
        report.error('function under contract no longer exists: %s' % e)
    from contracts.py import aslinearineq_spec
    try:
        aobs = aslinearineq_spec.obligations(10000 if tier == 'quick'
                                             else 60000)
        if 'modeling.py:constraint._aslinearineq' not in report.functions:
            report.functions.append('modeling.py:constraint._aslinearineq')
    except KeyError as e:
        report.error('function under contract no longer exists: %s' % e)
        aobs = []
    for o in oobs + aobs:
        report.add(Ob(o['id'], o['kind'], o['status'], o['text'],
                      'modeling.py line %s' % o['line'],
                      by=o['by'], detail=o.get('detail'),
                      meta={'line': o['line']}))
    from contracts.py import relational_spec
    for f_ in ('constraint.__init__', 'variable.__le__', 'variable.__ge__',
               'variable.__eq__', '_function.__le__', '_function.__ge__',
               '_function.__eq__'):
        if 'modeling.py:' + f_ not in report.functions:
            report.functions.append('modeling.py:' + f_)
    try:
        for o in relational_spec.obligations():
            if o['kind'] != 'relation-direction':
                continue            # the others are C11's
            report.add(Ob(o['id'], o['kind'], o['status'], o['text'],
                          'modeling.py', by=o['by'], detail=o.get('detail'),
                          meta={'line': o['line']}))
    except KeyError as e:
        report.error('function under contract no longer exists: %s' % e)
    try:
        for o in relational_spec.constraint_init_obligations(
                10000 if tier == 'quick' else 60000):
            report.add(Ob(o['id'], o['kind'], o['status'], o['text'],
                          'modeling.py line %s' % o['line'], by=o['by'],
                          detail=o.get('detail'), meta={'line': o['line']}))
    except KeyError as e:
        report.error('function under contract no longer exists: %s' % e)
    report.replayer = make_replayer()
    _demote_form(report)
    from engine.checks import py_common
    py_common.demote_unconfirmed_shape_checks(
        report, lambda ob: 'syntactic' in (ob.by or []) or
        ':maps:' in ob.oid or ob.oid.endswith(':offset-initialised'),
        'the statement that fills vmap / mmap is not of the form the '
        'contract reads')
    report.floor = 20
    report.not_decided += [
        'optimality / duality of the values returned (the LP solve is '
        'numerical); agreement of dense / sparse / GLPK',
        'the objective vector c and the early "already in matrix form" '
        'return of _inmatrixform',
        'that the epigraph forms are equivalent to the constraint (the '
        'mathematical fact  max_j g_j <= t  iff  g_j <= t for all j, and the '
        'monotonicity argument for sums of epigraph variables): the '
        'contracts state the documented forms, not their equivalence; '
        'termination of the recursion of _aslinearineq']
    report.assumptions += [
        'coefficient shape rule of _lin (C11): the coefficient of a variable '
        'of length n in a function of length m has size (m, n), (1, n) or '
        '(1, 1), and a (1, 1) coefficient of a vector variable means m = n',
        'cut: the assembly loops are verified for one arbitrary constraint '
        'and coefficient entry with vslc / islc / eslc as the partition '
        'loops leave them; G, A, h, b are column-major m x n, p x n, m x 1, '
        'p x 1 (allocated just before the loops)',
        'cvxopt indexed assignment T[I, J] = B and T[start:stop:step] = a '
        'as documented (C15)']
