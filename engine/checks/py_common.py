"""Shared plumbing for the Python-side properties."""
from engine import pyside
from engine.verdict import Ob

# (pyfile, spec module, function) -> scenarios are taken from the spec
SOLVER_FUNCS = [
    ('coneprog.py', 'contracts.py.coneprog_spec', 'conelp'),
    ('coneprog.py', 'contracts.py.coneprog_spec', 'coneqp'),
    ('coneprog.py', 'contracts.py.wrappers_spec', 'lp'),
    ('coneprog.py', 'contracts.py.wrappers_spec', 'socp'),
    ('coneprog.py', 'contracts.py.wrappers_spec', 'sdp'),
    ('coneprog.py', 'contracts.py.wrappers_spec', 'qp'),
    ('cvxprog.py', 'contracts.py.cvxprog_spec', 'cpl'),
    ('cvxprog.py', 'contracts.py.wrappers_cvxprog_spec', 'cp'),
    ('cvxprog.py', 'contracts.py.wrappers_cvxprog_spec', 'gp'),
]


DEFAULT_PROPS = {'conelp': ('C01', 'C02'), 'lp': ('C01', 'C02'),
                 'socp': ('C01', 'C02'), 'sdp': ('C01', 'C02'),
                 'coneqp': ('C03',), 'qp': ('C03',), 'cpl': ('C04',),
                 'cp': ('C04',), 'gp': ('C04',)}


def tasks_for(funcs, tier):
    import importlib
    out = []
    for pyfile, mod, fn in funcs:
        m = importlib.import_module(mod)
        spec = m.FUNCS[fn]
        scs = list(spec['scenarios'])
        if tier == 'quick' and spec.get('quick_scenarios'):
            scs = spec['quick_scenarios']
        for sc in scs:
            out.append({'pyfile': pyfile, 'module': mod, 'fn': fn,
                        'scenario': sc,
                        'timeout_ms': 10000 if tier == 'quick' else 60000})
    return out


def install_replayer(report, extra_modules=()):
    from engine import replay_py
    report.replayer = replay_py.make_replayer(extra_modules)


def feed(report, reps, props=None, kinds=None, funcs=None):
    """merge the per-scenario reports: an obligation site (function, kind,
    text) is proved iff it is proved in every scenario where it occurs"""
    sites = {}
    for r in reps:
        where = '%s:%s' % (r.get('file'), r.get('function'))
        if funcs is not None and r.get('function') not in funcs:
            continue
        tag = '%s[%s]' % (where, r.get('scenario'))
        if r['status'] == 'missing':
            report.error('function under contract no longer exists: ' + where)
            continue
        if r['status'] == 'error':
            report.error('engine crashed on %s: %s' % (tag, (
                r.get('reason') or '')[-800:]))
            continue
        if r['status'] == 'unsupported':
            report.add(Ob(tag + ':supported', 'engine', 'undecided',
                          'function is inside the supported Python subset',
                          tag, detail=r.get('reason')))
            continue
        if where not in report.functions:
            report.functions.append(where)
        report.solver_s += r.get('solver_s', 0.0)
        for t in r.get('trusted', []):
            report.trusted.add(t)
        for u in r.get('unmodelled', []):
            report.trusted.add('unmodelled call (result unknown, arguments '
                               'checked to be solver-owned): ' + u)
        for o in r['obligations']:
            op = o.get('prop')
            if props is not None:
                if op is None:
                    # engine-generated obligations (loop invariants, ...)
                    # count for the properties the function serves
                    if not set(DEFAULT_PROPS.get(r.get('function'), ())) & \
                            set(props):
                        continue
                elif op not in props:
                    continue
            if kinds is not None and o['kind'] not in kinds:
                continue
            oid = '%s:%s' % (r['file'], o['site'])
            s = sites.get(oid)
            if s is None:
                s = sites[oid] = {'o': o, 'status': 'proved', 'by': set(),
                                  'scen': [], 'model': None, 'inst': 0}
            s['inst'] += o['instances']
            s['scen'].append(r.get('scenario'))
            s['by'].update(o.get('by') or [])
            if o['status'] == 'refuted':
                s['status'] = 'refuted'
                if s['model'] is None:
                    s['model'] = o.get('model')
                    s['where'] = tag
            elif o['status'] == 'undecided' and s['status'] != 'refuted':
                s['status'] = 'undecided'
    for oid, s in sorted(sites.items()):
        o = s['o']
        report.add(Ob(oid, o['kind'], s['status'], o['text'],
                      s.get('where', '%s line %s' % (oid.split(':')[0],
                                                     o['line'])),
                      by=sorted(s['by']), model=s['model'],
                      detail='%d path instances over scenarios %s' % (
                          s['inst'], sorted(set(s['scen']))),
                      meta={'line': o['line'], 'scenarios': s['scen'],
                            'bounded': ':op.__init__:' in oid and
                            'listN' not in s['scen']}))



def feed_symm_kernel(report, tier):
    """the library contract of misc.symm that the symmetric-s-blocks
    obligations rely on, discharged on the C kernel that runs (use_C = True):
    contracts/c/misc_spec.py"""
    from engine import cside
    from engine.checks import c_common
    reps = cside.run_tasks([{'cfile': 'misc_solvers.c', 'fn': 'symm',
                             'mode': 'spec',
                             'module': 'contracts.c.misc_spec',
                             'timeout_ms': 10000 if tier == 'quick'
                             else 120000}])
    c_common.feed(report, reps, ('symm-definition', 'covered'),
                  need_spec=True)
    prev = report.replayer

    def replayer(ob, base):
        if ob.kind == 'symm-definition':
            from engine import replay_c
            code = (
                "from cvxopt import matrix, misc_solvers\n"
                "bad = []\n"
                "for n in (1, 2, 3, 4):\n"
                "    for off in (0, 3):\n"
                "        N = off + n*n + 2\n"
                "        x = matrix([float(100 + i) for i in range(N)])\n"
                "        before = list(x)\n"
                "        misc_solvers.symm(x, n, off)\n"
                "        for i in range(N):\n"
                "            r, c = (i - off) % n, (i - off) // n\n"
                "            inside = off <= i < off + n*n\n"
                "            want = before[off + c + r*n] if inside and r < c"
                " else before[i]\n"
                "            if x[i] != want:\n"
                "                bad.append((n, off, i, x[i], want))\n"
                "assert not bad, 'misc.symm: %r' % (bad[:4],)\n")
            env = replay_c.Env(interpose=False)
            try:
                res = env.call({'code': code})
            finally:
                env.close()
            info = {'script': code, 'result': {k: v for k, v in res.items()
                                               if k != 'stderr'}}
            return res.get('exception') == 'AssertionError' or bool(
                res.get('signal')), info
        return prev(ob, base) if prev else (False, {'reason': 'no replayer'})
    report.replayer = replayer
    report.assumptions.append(
        'misc.symm: proved on misc_solvers.c for well-formed arguments (a '
        "'d' matrix long enough for the block); its missing argument "
        'validation is a memory-safety matter (C19 class), not part of this '
        'property')



KERNELS = ('scale', 'scale2', 'pack', 'pack2', 'unpack', 'sprod', 'sinv',
           'trisc', 'triusc', 'sdot', 'max_step')


def feed_kernel_frames(report, tier):
    """the frames that the Python-side library contracts assume for the
    misc.* kernels ("modifies only x"), discharged on misc_solvers.c: every
    store of a kernel goes into an argument listed as modified by
    contracts/py/extern_cvxopt.py or into the kernel's own work space"""
    from engine import cside
    from engine.checks import c_common
    t = 10000 if tier == 'quick' else 120000
    reps = cside.run_tasks([{'cfile': 'misc_solvers.c', 'fn': f,
                             'mode': 'spec',
                             'module': 'contracts.c.misc_spec',
                             'timeout_ms': t} for f in KERNELS])
    c_common.feed(report, reps, ('kernel-frame', 'covered'), need_spec=True)
    report.assumptions.append(
        'misc.* kernels: frame proved on misc_solvers.c by region identity '
        '(which buffer a BLAS/LAPACK call writes); the extent of the writes '
        'inside that buffer and the kernels\' missing argument validation '
        'are not part of this property (C08/C19 class); the Python '
        'fall-backs (use_C = False) are not covered')



def feed_lapack_frames(report, tier):
    """the frames the Python-side contracts assume for the lapack.* wrappers
    the solvers call, discharged on lapack.c (every store into an argument's
    buffer is into an argument the contract lists as modified)"""
    from engine import cside
    from engine.checks import c_common
    from contracts.py.extern_cvxopt import LIB
    t = 10000 if tier == 'quick' else 120000
    fns = sorted(k.split('.')[-1] for k in LIB.mutators
                 if k.startswith('cvxopt.lapack.'))
    reps = cside.run_tasks([{'cfile': 'lapack.c', 'fn': f,
                             'mode': 'lapack-wrapper', 'timeout_ms': t}
                            for f in fns])
    c_common.feed(report, reps, ('kernel-frame',), need_spec=True)



def feed_blas_frames(report, tier):
    """the frames the Python-side contracts assume for the blas.* wrappers:
    the documented output arguments of each wrapper (the rows of
    contracts/c/blas_spec.py, against which C17 proves that the real wrapper
    stores nowhere else) are among the arguments the Python-side contract
    lists as modified"""
    from engine import cside
    from engine.checks import c17
    from engine.verdict import Ob
    from contracts.py.extern_cvxopt import LIB
    reps = cside.run_tasks(c17.tasks(tier))
    for r in reps:
        fn = r.get('function')
        name = 'cvxopt.blas.' + fn
        outs = (r.get('post') or {}).get('outputs')
        if outs is None or r.get('status') != 'ok':
            continue
        if name in LIB.pure:
            assumed = set()
        elif name in LIB.mutators:
            assumed = set(x.split()[0] for x in LIB.mutators[name])
        else:
            continue        # not used by the solvers: no Python-side contract
        ok = set(outs) <= assumed
        report.add(Ob('blas.c:%s:kernel-frame:documented outputs are among '
                      'the arguments the Python-side contract lists' % fn,
                      'kernel-frame', 'proved' if ok else 'refuted',
                      'blas.%s writes %s; the Python-side contract lists %s'
                      % (fn, sorted(set(outs)), sorted(assumed)),
                      'blas.c:%s' % fn, by=['table comparison']))
        bad_frame = [o for o in r['obligations'] if o['kind'] == 'frame' and
                     o['status'] != 'proved']
        report.add(Ob('blas.c:%s:kernel-frame:the wrapper stores only into '
                      'its documented outputs' % fn, 'kernel-frame',
                      'proved' if not bad_frame else 'refuted',
                      'frame obligations of the C17 row of blas.%s' % fn,
                      'blas.c:%s' % fn, by=['z3']))


def demote_unconfirmed_shape_checks(report, pred, why):
    """Obligations decided by the *shape* of a statement (by = syntactic: the
    statement is compared with the form the contract expects) say "this code
    is not written the way the contract reads it" when they fail -- a real
    slip or a harmless rewrite.  The replay decides: with a failing input
    from the battery the refutation stands (VIOLATION with the input); with
    none it is reported as UNDECIDED (exit 2), never as a violation."""
    for ob in report.obs:
        if ob.status != 'refuted' or not pred(ob):
            continue
        try:
            ok, info = report.replayer(ob, None)
        except Exception:
            ok = False
        if not ok:
            ob.status = 'undecided'
            ob.detail = ('%s; the replay battery finds no failing input, so '
                         'this is a question about the contract\'s reading '
                         'of the code, not a violation (%s)' % (
                             why, ob.detail or ''))
