"""C19: memory safety of the C extension for all argument values --
DESIGN section 3 C19."""
import re, os
from engine import cside
from engine.checks import c_common, c17

LAPACK_WRAPPERS = (
    'getrf getrs getri gesv gbtrf gbtrs gbsv gttrf gttrs gtsv potrf potrs '
    'potri posv pbtrf pbtrs pbsv pttrf pttrs ptsv sytrs hetrs sytrf hetrf '
    'sytri hetri sysv hesv trtrs trtri tbtrs gels geqrf ormqr unmqr orgqr '
    'ungqr gelqf ormlq unmlq orglq unglq syev heev syevx heevx syevd heevd '
    'syevr heevr sygv hegv gesvd gesdd gees gges lacpy geqp3 larfg '
    'larfx').split()


def method_table(cfile, table):
    """functions registered in the PyMethodDef table of the current source"""
    from engine.cvc import cast
    src = open(os.path.join(cast.REPO, 'src/C', cfile)).read()
    i = src.find(table)
    if i < 0:
        return []
    tab = src[i:src.find('};', i)]
    return [b for a, b in re.findall(
        r'\{\s*"(\w+)"\s*,\s*\(PyCFunction\)\s*(\w+)', tab)]


def lapack_tasks(tier):
    t = 10000 if tier == 'quick' else 120000
    fns = list(LAPACK_WRAPPERS)
    for f in method_table('lapack.c', 'PyMethodDef lapack_functions'):
        if f not in fns:        # a wrapper added after this list was written
            fns.append(f)
    return [{'cfile': 'lapack.c', 'fn': f, 'mode': 'lapack-wrapper',
             'timeout_ms': t} for f in fns]


BASE_FUNCS = ['base_axpy', 'base_gemv', 'base_gemm', 'base_syrk',
              'base_symv']


def base_tasks(tier):
    t = 10000 if tier == 'quick' else 120000
    return [{'cfile': 'base.c', 'fn': f, 'mode': 'spec',
             'module': 'contracts.c.base_spec', 'timeout_ms': t}
            for f in BASE_FUNCS]


SPARSE_FUNCS = ['spmatrix_subscr']


def sparse_tasks(tier):
    t = 10000 if tier == 'quick' else 120000
    return [{'cfile': 'sparse.c', 'fn': f, 'mode': 'spec',
             'module': 'contracts.c.sparse_spec', 'timeout_ms': t}
            for f in SPARSE_FUNCS]


def tasks(tier):
    from engine.checks import c15, c20
    return c17.tasks(tier) + c15.tasks(tier, sorted(set(c15.FUNCS +
                                                        c20.FUNCS))) + \
        lapack_tasks(tier) + base_tasks(tier) + sparse_tasks(tier)


def run(report, tier, seed):
    reps = cside.run_tasks(tasks(tier))
    c_common.feed(report, reps, c_common.SAFETY_KINDS)
    c_common.install_replayer(report, dense=True)
    report.floor = 400
    from contracts.c import extern_lapack
    report.assumptions += [
        'reference-BLAS footprint contracts (contracts/c/extern_blas.py)',
        'LAPACK footprint/validity contracts taken from the routine '
        'documentation (contracts/c/extern_lapack.py)',
        'valid(matrix) type invariant on entry',
        'mathematical integers with explicit no-overflow obligations: '
        'O_wrap = O_math /\\ nooverflow (DESIGN 2.4)'] + list(
            extern_lapack.DEVIATIONS)
    report.unverified += [
        'sparse.c: only the read paths of spmatrix_subscr that stay inside '
        'the supported subset are under contract (A[i], A[I], A[i,j], '
        'A[slice, int / slice / list]); the paths that build the result '
        'through the sparse accumulator or other helpers are abandoned (listed '
        'in the function report); all other functions of sparse.c are not '
        'under contract',
        'base.c: the sparse branches of the generic products (sp_gemv, '
        'sp_gemm, sp_syrk, sp_symv, sp_axpy kernels of sparse.c) are '
        'abandoned paths; misc_solvers.c, cholmod.c, umfpack.c, '
        'amd.c, glpk.c, gsl.c, fftw.c, dsdp.c: not under contract']
