"""C19: memory safety of the C extension for all argument values --
DESIGN section 3 C19."""
from engine import cside
from engine.checks import c_common, c17


def tasks(tier):
    from engine.checks import c15, c20
    return c17.tasks(tier) + c15.tasks(tier, sorted(set(c15.FUNCS +
                                                        c20.FUNCS)))


def run(report, tier, seed):
    reps = cside.run_tasks(tasks(tier))
    c_common.feed(report, reps, c_common.SAFETY_KINDS)
    c_common.install_replayer(report, dense=True)
    report.floor = 200
    report.assumptions += [
        'reference-BLAS footprint contracts (contracts/c/extern_blas.py)',
        'valid(matrix) type invariant on entry',
        'mathematical integers with explicit no-overflow obligations: '
        'O_wrap = O_math /\\ nooverflow (DESIGN 2.4)']
