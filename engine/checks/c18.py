"""C18: LAPACK wrappers -- the clauses a contract on lapack.c can decide
(DESIGN section 3 C18): documented keywords, call correspondence with the
documented defaults, type dispatch, info -> exception mapping, rejection
discipline, "A is not modified without ipiv"."""
from engine import cside
from engine.checks import c_common, c19

KINDS = ('kwlist', 'call-correspondence', 'info-mapping', 'reject-exception',
         'reject-clean', 'frame', 'accept-reachable', 'copy-granularity')


def run(report, tier, seed):
    reps = cside.run_tasks(c19.lapack_tasks(tier))
    c_common.feed(report, reps, KINDS, need_spec=True)
    c_common.install_replayer(report)
    report.floor = 1500
    skipped = set()
    for r in reps:
        for s_ in (r.get('post') or {}).get('skipped', []):
            skipped.add('%s: %s' % (r.get('function'), s_))
    report.not_decided += [
        'numerical clauses of C18: backward-stable residual of the equation '
        'solvers, factor-then-solve = driver, A = QR with orthonormal Q, '
        'orthonormal/unitary eigen-, singular- and Schur vectors that '
        'reconstruct the input, sorted outputs: properties of the external '
        'LAPACK on floating-point data (assumed, DESIGN section 4)',
        'exactly singular input => info > 0: a property of the external '
        'LAPACK; what is proved is that info > 0 always becomes '
        'ArithmeticError and info < 0 ValueError',
        'select callbacks of gees/gges (Python call-backs from Fortran)',
    ] + ['documented default not checked (described in words / not '
         'interpretable): ' + s_ for s_ in sorted(skipped)]
    report.assumptions += [
        'the specification of each wrapper is its own documentation string '
        'in the current lapack.c (signature line and ARGUMENTS section), '
        'parsed on every run (contracts/c/lapack_spec.py)',
        'LAPACK contracts of contracts/c/extern_lapack.py (an info output is '
        'an arbitrary int)',
        'CPython C-API contracts of contracts/c/extern_cpython.py',
        'type invariant valid(matrix) on entry']
