"""C20: buffer export typestate and layout (DESIGN 3 C20)"""
from engine import cside
from engine.checks import c_common, c15

FUNCS = ['matrix_buffer_getbuf', 'matrix_buffer_relbuf',
         'matrix_add_generic', 'matrix_sub_generic', 'matrix_mul_generic',
         'matrix_div_generic', 'matrix_rem_generic', 'matrix_set_size',
         'Matrix_NewFromSequence', 'Matrix_NewFromPyBuffer']
KINDS = ('export-buffer', 'export-layout', 'export-count',
         'export-typestate', 'constructor-postcondition',
         'reject-exception', 'covered', 'import-address')


def run(report, tier, seed):
    reps = cside.run_tasks(c15.tasks(tier, FUNCS))
    c_common.feed(report, reps, KINDS)
    c_common.install_dense_replayer(report)
    report.floor = 6
    report.not_decided += [
        'byte-exact value round trips through pickle, copy/deepcopy and '
        'tofile/fromfile: what is decided is that the sequence constructor '
        'through which __reduce__ rebuilds a matrix returns the requested '
        'typecode and length for every sequence, also the empty one; the '
        'element values go through convert_num/write_num (assumed)',
        'values converted while importing a buffer (int -> double/complex '
        'conversions are value-level); numpy-style multi-dimensional or '
        'suboffset exporters (rejected by the function); the sparse '
        'getstate/reduce paths']
    report.assumptions += [
        'a buffer consumer holds the view between getbuf and relbuf '
        '(ob_exports > 0 exactly while a view is held)']
