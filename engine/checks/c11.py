"""C11: coefficient merging of linear expressions -- _lin._addterm on symbolic
matrices (DESIGN 8.7 C11, contracts/py/lin_spec.py)"""
import os, json, subprocess, tempfile, shutil, time
import z3
from engine import overlay, pyside
from engine.verdict import Ob
from engine.checks import py_common

ROOT = os.path.dirname(os.path.dirname(os.path.dirname(
    os.path.abspath(__file__))))
FUNCS = [('modeling.py', 'contracts.py.lin_spec', '_lin._addterm'),
         ('modeling.py', 'contracts.py.lin_spec', '_lin.__len__'),
         ('modeling.py', 'contracts.py.lin_spec', '_lin.__getitem__'),
         ('modeling.py', 'contracts.py.function_spec', '_function.__imul__'),
         ('modeling.py', 'contracts.py.function_spec', '_function.__iadd__'),
         ('modeling.py', 'contracts.py.function_spec', '_function.__isub__'),
         ('modeling.py', 'contracts.py.function_spec', '_function.__pos__'),
         ('modeling.py', 'contracts.py.function_spec', '_function.__neg__'),
         ('modeling.py', 'contracts.py.function_spec', '_function.__add__'),
         ('modeling.py', 'contracts.py.function_spec', '_function.__sub__'),
         ('modeling.py', 'contracts.py.function_spec', '_function.__rsub__'),
         ('modeling.py', 'contracts.py.function_spec', '_function.__mul__'),
         ('modeling.py', 'contracts.py.function_spec', '_function.__rmul__'),
         ('modeling.py', 'contracts.py.function_spec',
          '_function.__truediv__'),
         ('modeling.py', 'contracts.py.function_spec',
          '_function.__itruediv__'),
         ('modeling.py', 'contracts.py.function_index_spec',
          '_function.__len__'),
         ('modeling.py', 'contracts.py.function_index_spec', 'sum'),
         ('modeling.py', 'contracts.py.function_index_spec',
          '_function.__getitem__'),
         ('modeling.py', 'contracts.py.function_index_spec',
          '_minmax.__getitem__'),
         ('modeling.py', 'contracts.py.keytolist_spec', '_keytolist')]


class Battery:
    def __init__(self):
        self.result = None
        self.err = None

    def run(self):
        if self.result is not None or self.err is not None:
            return
        d = tempfile.mkdtemp(prefix='cvxverif-expr-')
        try:
            ok, log = overlay.build(d)
            if not ok:
                self.err = 'overlay build failed: ' + log[-1500:]
                return
            env = dict(os.environ)
            env['PYTHONPATH'] = d
            env['CVXOPT_VERIF'] = '1'
            p = subprocess.run(['/venv/bin/python', os.path.join(
                ROOT, 'engine', 'replay', 'expr_battery.py')],
                capture_output=True, text=True, timeout=900, env=env, cwd=d)
            cnt = {}
            for line in p.stdout.splitlines():
                if line.startswith('EXPR-JSON '):
                    self.result = json.loads(line[len('EXPR-JSON '):])
                if line.startswith('EXPR-COUNT '):
                    cnt = json.loads(line[len('EXPR-COUNT '):])
            if self.result is not None and not self.result.get(
                    'index-value') and cnt.get('sum-index', 0) < 60:
                # vacuity guard: the indexing oracle compared (almost) nothing
                self.err = 'sum / index oracle made only %s comparisons' % (
                    cnt.get('sum-index'),)
                self.result = None
            if self.result is not None and not self.result.get(
                    'binop-value') and cnt.get('binary', 0) < 100:
                self.err = 'binary-operator oracle made only %s comparisons' \
                    % (cnt.get('binary'),)
                self.result = None
            if self.result is not None and not self.result.get(
                    'key-value') and cnt.get('keytolist', 0) < 100:
                self.err = '_keytolist oracle made only %s comparisons' % (
                    cnt.get('keytolist'),)
                self.result = None
            if self.result is None:
                self.err = 'battery produced no result (exit %s): %s' % (
                    p.returncode, (p.stderr or p.stdout)[-1500:])
        except Exception as e:
            self.err = repr(e)
        finally:
            shutil.rmtree(d, ignore_errors=True)


def make_replayer():
    bat = Battery()

    def replayer(ob, base):
        if ob.kind == 'slice-lemma':
            return False, {'reason': 'a lemma about the matrix model'}
        bat.run()
        if bat.err:
            return False, {'error': bat.err}
        want = [ob.kind]
        if ob.kind in ('addterm-shape', 'addterm-frame'):
            want.append('addterm-value')
        if ob.kind == 'imul-returns-self':
            want.append('imul-value')
        if ob.kind.startswith('iaddsub'):
            want = ['iaddsub-value']
        if ob.kind.startswith('sum-'):
            want = ['sum-value']
        if ob.kind.startswith('minmax-') or ob.kind.startswith('max-'):
            want = ['minmax-accepts']
        if ob.kind == 'minmax-scale':
            want = ['binop-value', 'imul-value', 'iaddsub-value']
        if ob.kind.startswith('value-'):
            want = ['binop-value', 'sum-value', 'index-value', 'value-none']
        if ob.kind.startswith('dot-'):
            want = ['dot-accepts']
        if ob.kind.startswith('operator-'):
            want = ['binop-value', 'index-value']
        if ob.kind.startswith('binop-'):
            want = ['binop-value', 'binop-fresh']
        if ob.kind.startswith('key-'):
            want = ['key-value']
        if ob.kind.startswith('index-') or ob.kind.startswith('lin-index-'):
            want = ['index-value', 'index-fresh', 'index-refuses']
        if ob.kind == 'len-value':
            want = ['len-value', 'addterm-value', 'addterm-exceptions']
        hits = {k: v for k, v in bat.result.items() if k in want}
        info = {'rerun': {'battery': 'expr', 'oracles': want},
                'battery': 'engine/replay/expr_battery.py on an overlay '
                'build of the current tree: f.value() of sums in which a '
                'variable occurs twice with differently shaped coefficients '
                'against the formula evaluated directly',
                'oracles': want, 'failing_cases': hits,
                'all_failures': sorted(bat.result),
                'how_to_rerun': 'D=$(mktemp -d); python3 /verif/engine/'
                'overlay.py $D; PYTHONPATH=$D /venv/bin/python '
                '/verif/engine/replay/expr_battery.py'}
        return bool(hits), info
    return replayer


def _demote_form(report):
    """Obligations of the structural contracts that fail because the code
    is not of the documented FORM (goal constant false, no counter-model) are
    violations only with a failing input from the battery; otherwise they are
    reported UNDECIDED: an equivalent rewrite must not raise an alarm.
    Obligations that z3 refutes with values stay violations."""
    from engine.checks import py_common
    from contracts.py import (aslinearineq_spec, function_index_spec,
                              lp_assembly_spec, objective_spec,
                              relational_spec)
    form = set()
    for m_ in (aslinearineq_spec, function_index_spec, lp_assembly_spec,
               objective_spec, relational_spec):
        form |= m_.FORM_REFUTED
    py_common.demote_unconfirmed_shape_checks(
        report, lambda ob: ob.text in form,
        'the code is not of the form the contract documents')


def run(report, tier, seed):
    reps = pyside.run_tasks(py_common.tasks_for(FUNCS, tier))
    py_common.feed(report, reps, props=('C11',))
    from contracts.py import lin_spec
    for name, text, hyp, goal in lin_spec.slice_lemmas():
        t0 = time.time()
        s = z3.Solver()
        s.set('timeout', 20000)
        for h in hyp:
            s.add(h)
        status, detail = 'undecided', None
        if s.check() == z3.sat:
            s.add(z3.Not(goal))
            r = s.check()
            status = 'proved' if r == z3.unsat else (
                'refuted' if r == z3.sat else 'undecided')
        else:
            detail = 'vacuous hypotheses'
        report.solver_s += time.time() - t0
        report.add(Ob('lin_spec:slice-lemma:' + name, 'slice-lemma', status,
                      text, 'contracts/py/lin_spec.py', by=['z3'] if
                      status == 'proved' else [], detail=detail))
    from contracts.py import function_index_spec
    try:
        mobs = function_index_spec.minmax_init_obligations(
            10000 if tier == 'quick' else 60000)
        if 'modeling.py:_minmax.__init__' not in report.functions:
            report.functions.append('modeling.py:_minmax.__init__')
    except KeyError as e:
        report.error('function under contract no longer exists: %s' % e)
        mobs = []
    try:
        mobs += function_index_spec.maxmin_obligations(
            10000 if tier == 'quick' else 60000)
        for f_ in ('modeling.py:max', 'modeling.py:min'):
            if f_ not in report.functions:
                report.functions.append(f_)
    except KeyError as e:
        report.error('function under contract no longer exists: %s' % e)
    for o in mobs:
        report.add(Ob(o['id'], o['kind'], o['status'], o['text'],
                      'modeling.py line %s' % o['line'], by=o['by'],
                      detail=o.get('detail'), meta={'line': o['line']}))
    from contracts.py import relational_spec
    try:
        for m_ in relational_spec.DELEG:
            f_ = 'modeling.py:variable.' + m_
            if f_ not in report.functions:
                report.functions.append(f_)
        for o in relational_spec.obligations():
            if o['kind'] == 'relation-direction':
                continue            # C12's
            report.add(Ob(o['id'], o['kind'], o['status'], o['text'],
                          'modeling.py', by=o['by'], detail=o.get('detail'),
                          meta={'line': o['line']}))
    except KeyError as e:
        report.error('function under contract no longer exists: %s' % e)
    try:
        for o in relational_spec.dot_obligations(
                10000 if tier == 'quick' else 60000):
            report.add(Ob(o['id'], o['kind'], o['status'], o['text'],
                          'modeling.py line %s' % o['line'], by=o['by'],
                          detail=o.get('detail'), meta={'line': o['line']}))
        if 'modeling.py:dot' not in report.functions:
            report.functions.append('modeling.py:dot')
    except KeyError as e:
        report.error('function under contract no longer exists: %s' % e)
    try:
        for o in function_index_spec.value_obligations(
                10000 if tier == 'quick' else 60000):
            report.add(Ob(o['id'], o['kind'], o['status'], o['text'],
                          'modeling.py line %s' % o['line'], by=o['by'],
                          detail=o.get('detail'), meta={'line': o['line']}))
        if 'modeling.py:_function.value' not in report.functions:
            report.functions.append('modeling.py:_function.value')
    except KeyError as e:
        report.error('function under contract no longer exists: %s' % e)
    try:
        for o in function_index_spec.mmul_obligations(
                10000 if tier == 'quick' else 60000):
            report.add(Ob(o['id'], o['kind'], o['status'], o['text'],
                          'modeling.py', by=o['by'], detail=o.get('detail'),
                          meta={'line': o['line']}))
        for c_ in ('_minmax', '_sum_minmax'):
            for f_ in ('__mul__', '__neg__', '__pos__'):
                if 'modeling.py:%s.%s' % (c_, f_) not in report.functions:
                    report.functions.append('modeling.py:%s.%s' % (c_, f_))
    except KeyError as e:
        report.error('function under contract no longer exists: %s' % e)
    from contracts.py import keytolist_spec
    for name, text, hyp, goal in keytolist_spec.filter_lemma():
        t0 = time.time()
        s = z3.Solver()
        s.set('timeout', 20000)
        for h in hyp:
            s.add(h)
        status, detail = 'undecided', None
        if s.check() != z3.unsat:
            s.add(z3.Not(goal))
            r = s.check()
            status = 'proved' if r == z3.unsat else (
                'refuted' if r == z3.sat else 'undecided')
        else:
            detail = 'vacuous hypotheses'
        report.solver_s += time.time() - t0
        report.add(Ob('keytolist_spec:slice-lemma:filter-' + name,
                      'slice-lemma', status, 'count of the entries that '
                      'pass a filter: ' + text,
                      'contracts/py/keytolist_spec.py', by=['z3'] if
                      status == 'proved' else [], detail=detail))
    report.replayer = make_replayer()
    _demote_form(report)
    report.floor = 8
    report.extra['explanation'] = (
        'The real body of _lin._addterm is executed with symbolic matrices '
        '(symbolic size, entry function) for every shape of the stored '
        'coefficient and of the new term; the postcondition is the '
        'entry-wise value identity of the effective coefficients.')
    report.not_decided += [
        'the matrix arithmetic behind the value of a part: _lin.value(), '
        '_minmax.value(), _sum_minmax.value() (and _vecmax / _vecmin, the '
        'constant folding inside max / min)',
        'multiplication of a function by a matrix with more than one entry '
        '(_lin._mul / _rmul), the operators of _lin (they go through '
        '_addterm, which is under contract), abs (max(f, -f): battery only)',
        'slices in _keytolist (slice.indices / range: library semantics)',
        'that the callers of _addterm (_lin.__add__, __iadd__, ...) pass a '
        'copy where required (battery only)',
        'the mathematical content behind the structural contracts: that the '
        'documented forms are the right ones is taken from the '
        'documentation, not proved']
    report.assumptions += [
        'the matrix model of contracts/py/lin_spec.py: cvxopt +, unary +, '
        'x[k*[0], :], x[0], extended slices with their documented meaning; '
        'in-place addition is refused for a sparse left operand and a '
        'scalar / dense right operand (matrices.rst); floats as reals',
        'sum(f), f[key] (contracts/py/function_index_spec.py): class '
        'invariant of _function as precondition (parts have length 1 or '
        'len(f); a term is a _minmax -- max in the convex list, min in the '
        'concave one -- or a length-1 _sum_minmax over the components of '
        'such a _minmax); _keytolist returns a list of indices in '
        '[0, len(f)) (its own contract, keytolist_spec.py, for int and '
        'list keys; slices by slice.indices / range: library); +part copies, part[l] gathers, n * part scales, '
        'builtins.sum adds the entries; the values of _minmax / _sum_minmax '
        'objects are uninterpreted functions of (max or min, function list)',
        'requires: the representation invariant of _lin for the coefficient '
        'of v; a is a real scalar or a nonempty \'d\' matrix']
