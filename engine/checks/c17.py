"""C17: BLAS wrappers (call correspondence, defaults, degenerate dimensions,
frame, rejection) -- DESIGN section 3 C17."""
from engine import cside
from engine.checks import c_common

BLAS_WRAPPERS = ('swap scal copy axpy dot dotu nrm2 asum iamax gemv gbmv symv '
                 'hemv sbmv hbmv trmv tbmv trsv tbsv ger geru syr her syr2 '
                 'her2 gemm symm hemm syrk herk syr2k her2k trmm trsm').split()


def tasks(tier):
    t = 10000 if tier == 'quick' else 120000
    return [{'cfile': 'blas.c', 'fn': f, 'mode': 'blas-wrapper',
             'timeout_ms': t} for f in BLAS_WRAPPERS]


def run(report, tier, seed):
    reps = cside.run_tasks(tasks(tier))
    c_common.feed(report, reps, c_common.WRAPPER_KINDS, need_spec=True)
    c_common.install_replayer(report)
    report.floor = 50
    report.not_decided += [
        '(f) numerical result of the Fortran routine equals the mathematical '
        'definition to rounding: delegated to the assumed contract of the '
        'external BLAS',
        'behaviour for non-ASCII flag characters (they alias their low byte)']
    report.assumptions += [
        'reference-BLAS contracts of contracts/c/extern_blas.py',
        'CPython C-API contracts of contracts/c/extern_cpython.py',
        'type invariant valid(matrix) on entry (proved for the constructors '
        'under C15)']
