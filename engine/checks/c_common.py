"""Shared plumbing for the C-side properties: run cvc over a claimed set of
functions and turn the per-function reports into verdict obligations."""
from engine import cside
from engine.verdict import Ob

SAFETY_KINDS = ('nooverflow', 'footprint', 'deref', 'field-guard', 'divzero',
                'extern-requires')
WRAPPER_KINDS = ('call-correspondence', 'reject-exception', 'reject-clean',
                 'reject-tight', 'accept-sound', 'frame', 'effect-extent',
                 'kwlist', 'gil', 'call-missing', 'accept-reachable',
                 'value')

CAUSES = {'nooverflow': 'int-overflow'}


def feed(report, reps, kinds, need_spec=False):
    """adds the obligations of `kinds` from the function reports"""
    for r in reps:
        where = '%s:%s' % (r.get('file'), r.get('function'))
        if r['status'] == 'missing':
            report.error('function under contract no longer exists: ' + where)
            continue
        if r['status'] == 'error':
            report.error('engine crashed on %s: %s' % (where, (
                r.get('reason') or '')[-600:]))
            continue
        if r['status'] == 'unsupported':
            report.add(Ob(where + ':supported', 'engine', 'undecided',
                          'function is inside the supported C subset',
                          where, detail=r.get('reason')))
            continue
        if need_spec and not r.get('has_spec'):
            report.unverified.append(where + ' (no specification row)')
            continue
        report.functions.append(where)
        report.solver_s += r.get('solver_s', 0.0)
        for t in r.get('trusted', []):
            report.trusted.add(t)
        post = r.get('post') or {}
        for o in r['obligations']:
            if o['kind'] not in kinds:
                continue
            oid = '%s:%s' % (r['file'], o['site'])
            meta = {'cfile': r['file'], 'module': r['file'][:-2],
                    'fn': r['function'][5:] if r['file'] == 'base.c' and
                    r['function'].startswith('base_') else r['function'],
                    'line': o['line'],
                    'line_end': (o.get('extra') or {}).get('line_end'),
                    'line_start': (o.get('extra') or {}).get('line_start'),
                    'params': post.get('params') or r.get('params'), 'mats': post.get('mats',
                                                                  []),
                    'outputs': post.get('outputs', [])}
            report.add(Ob(oid, o['kind'], o['status'], o['text'],
                          '%s line %s' % (where, o['line']), by=o.get('by'),
                          model=o.get('model'),
                          cause=CAUSES.get(o['kind']),
                          detail='%d path instances' % o['instances'],
                          meta=meta))


def install_replayer(report, dense=False):
    envs = {}

    def replayer(ob, base):
        from engine import replay_wrapper
        if ob.meta.get('cfile') == 'sparse.c':
            if ob.kind not in ('footprint', 'deref', 'index-address'):
                return False, {'reason': 'no replay recipe for %s '
                               'obligations of sparse.c' % ob.kind}
            return sparse_index_replay(ob, envs)
        if ob.meta.get('cfile') == 'dense.c':
            from engine import replay_dense
            return replay_dense.replay_obligation(ob, ob.meta, base, envs)
        if not ob.meta.get('params'):
            return False, {'reason': 'no argument description for replay'}
        return replay_wrapper.replay_obligation(ob, ob.meta, base, envs)

    def cleanup():
        for e in envs.values():
            e.close()
    report.replayer = replayer
    report.cleanup = cleanup


def install_dense_replayer(report):
    install_replayer(report, dense=True)


def sparse_index_replay(ob, cache):
    """sparse.c indexing obligations: the battery compares every index kind
    on sparse matrices with the dense copy (overlay build of the current
    tree); a read outside colptr / rowind shows as a wrong entry, a
    MemoryError or a crash"""
    import os, json, subprocess, tempfile, shutil
    from engine import overlay
    root = os.path.dirname(os.path.dirname(os.path.dirname(
        os.path.abspath(__file__))))
    if 'spidx' not in cache:
        class _R:
            result = None
            err = None

            def close(self):
                pass
        r = _R()
        d = tempfile.mkdtemp(prefix='cvxverif-sp-')
        try:
            ok, log = overlay.build(d)
            if not ok:
                r.err = 'overlay build failed: ' + log[-1000:]
            else:
                env = dict(os.environ)
                env['PYTHONPATH'] = d
                p = subprocess.run(['/venv/bin/python', os.path.join(
                    root, 'engine', 'replay', 'sparse_index_battery.py')],
                    capture_output=True, text=True, timeout=600, env=env,
                    cwd=d)
                for line in p.stdout.splitlines():
                    if line.startswith('SPIDX-JSON '):
                        r.result = json.loads(line[len('SPIDX-JSON '):])
                if r.result is None:
                    # a crash of the interpreter is an observation too
                    r.result = {'index': [{'battery exit': p.returncode,
                                           'stderr': p.stderr[-300:]}]}
        except Exception as e:
            r.err = repr(e)
        finally:
            shutil.rmtree(d, ignore_errors=True)
        cache['spidx'] = r
    r = cache['spidx']
    if r.err:
        return False, {'error': r.err}
    hits = r.result.get('index', [])
    return bool(hits), {
        'rerun': {'battery': 'sparse_index', 'oracles': ['index']},
        'battery': 'engine/replay/sparse_index_battery.py: sparse indexing '
        'against the dense copy on an overlay build of the current tree',
        'failing_cases': hits[:8],
        'how_to_rerun': 'D=$(mktemp -d); python3 /verif/engine/overlay.py '
        '$D; PYTHONPATH=$D /venv/bin/python /verif/engine/replay/'
        'sparse_index_battery.py'}
