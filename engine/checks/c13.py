"""C13: op bookkeeping invariant (DESIGN 3 C13, contracts/py/modeling_op_spec.py)"""
from engine import pyside
from engine.checks import py_common

FUNCS = [('modeling.py', 'contracts.py.modeling_op_spec', f) for f in (
    'op.__init__', 'op.addconstraint', 'op.delconstraint', 'op.__setattr__', 'op.variables',
    'op.constraints', 'op.inequalities', 'op.equalities')]


def run(report, tier, seed):
    reps = pyside.run_tasks(py_common.tasks_for(FUNCS, tier))
    py_common.feed(report, reps, props=('C13',))
    py_common.install_replayer(report, ('py_battery_modeling',))
    report.floor = 30
    report.not_decided += [
        "'solving the edited problem equals solving a fresh op' beyond the "
        "bookkeeping invariant (the LP assembly reads only the containers "
        "under the invariant; equality of optimal values is numerical)",
        'fromfile rebuilding the containers',
        'op.__init__ given a list with an element that is not a constraint '
        '(the scenario listN assumes every element is one; the refusal is '
        'exercised by the replay battery only)']
    report.bounded += [
        'op.__init__ scenarios list0..list3 (lists of 0..3 symbolic '
        'constraints, loops unrolled) are kept as a cross-check of the '
        'unbounded scenario listN; they are not what the claim rests on']
    report.assumptions += [
        'the variable set of a constraint does not change after creation',
        'contracts of dict/list operations on the abstract container view '
        '(contracts/py/modeling_op_spec.py)',
        'the objective assigned is a scalar convex _function (the other '
        'accepted forms are converted by one line each)',
        'op.__init__ listN: a Python list of length N is the sequence '
        'elem(0..N-1); the ghost prefix count before(k, c) is defined by '
        'recursion and instantiated at the loop counter; a list whose '
        'multiset is cnt is some enumeration of it (loops over '
        '_inequalities / _equalities)']
