"""C13: op bookkeeping invariant (DESIGN 3 C13, contracts/py/modeling_op_spec.py)"""
from engine import pyside
from engine.checks import py_common

FUNCS = [('modeling.py', 'contracts.py.modeling_op_spec', f) for f in (
    'op.__init__', 'op.addconstraint', 'op.delconstraint', 'op.__setattr__', 'op.variables',
    'op.constraints', 'op.inequalities', 'op.equalities')]


def run(report, tier, seed):
    reps = pyside.run_tasks(py_common.tasks_for(FUNCS, tier))
    py_common.feed(report, reps, props=('C13',))
    py_common.install_replayer(report, ('py_battery_modeling',))
    report.floor = 30
    report.not_decided += [
        'op.__init__ establishes the invariant for constraint lists of '
        'arbitrary length (only the bounded scenarios below are checked: its '
        'nested loops accumulate over a list with repetitions, outside the '
        'pointwise loop rule)',
        "'solving the edited problem equals solving a fresh op' beyond the "
        "bookkeeping invariant (the LP assembly reads only the containers "
        "under the invariant; equality of optimal values is numerical)",
        'fromfile rebuilding the containers']
    report.bounded += [
        'op.__init__ (constructor): BOUNDED stand-in, not counted as proved '
        'for all inputs -- the invariant and the recorded contents are '
        'checked for constraints = None, a single constraint, and lists of '
        '0, 1, 2 and 3 symbolic constraints (each of either type, equal or '
        'different, over arbitrary variable sets) with an arbitrary '
        'objective; the loops are unrolled over these lists']
    report.assumptions += [
        'the variable set of a constraint does not change after creation',
        'contracts of dict/list operations on the abstract container view '
        '(contracts/py/modeling_op_spec.py)',
        'the objective assigned is a scalar convex _function (the other '
        'accepted forms are converted by one line each)']
