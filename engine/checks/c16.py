"""C16 (partial): the sparse matrix-vector kernels against their definition
and the indexing reads of sparse.c (DESIGN 8.9)"""
import os, json, subprocess, tempfile, shutil
from engine import cside, overlay
from engine.checks import c_common

FUNCS = ['sp_dgemv', 'sp_zgemv', 'sp_dsymv', 'sp_zsymv', 'spmatrix_subscr']
KINDS = ('kernel-definition', 'iteration-space', 'footprint', 'deref',
         'divzero', 'covered', 'extern-requires')
ROOT = os.path.dirname(os.path.dirname(os.path.dirname(
    os.path.abspath(__file__))))


def tasks(tier):
    t = 20000 if tier == 'quick' else 120000
    return [{'cfile': 'sparse.c', 'fn': f, 'mode': 'spec',
             'module': 'contracts.c.sparse_spec', 'timeout_ms': t}
            for f in FUNCS]


def gemv_battery(cache):
    if 'spgemv' in cache:
        return cache['spgemv']
    res = {'result': None, 'err': None}
    d = tempfile.mkdtemp(prefix='cvxverif-spg-')
    try:
        ok, log = overlay.build(d)
        if not ok:
            res['err'] = 'overlay build failed: ' + log[-1000:]
        else:
            env = dict(os.environ)
            env['PYTHONPATH'] = d
            p = subprocess.run(['/venv/bin/python', os.path.join(
                ROOT, 'engine', 'replay', 'sparse_gemv_battery.py')],
                capture_output=True, text=True, timeout=600, env=env, cwd=d)
            for line in p.stdout.splitlines():
                if line.startswith('SPGEMV-JSON '):
                    res['result'] = json.loads(line[len('SPGEMV-JSON '):])
            if res['result'] is None:
                res['result'] = {'gemv': [{'battery exit': p.returncode,
                                           'stderr': p.stderr[-300:]}]}
    except Exception as e:
        res['err'] = repr(e)
    finally:
        shutil.rmtree(d, ignore_errors=True)
    cache['spgemv'] = res
    return res


def run(report, tier, seed):
    t = 20000 if tier == 'quick' else 120000
    reps = cside.run_tasks(tasks(tier))
    c_common.feed(report, reps, KINDS)
    # the dense degenerate branch of base.gemv (the wrapper of both kernels)
    breps = cside.run_tasks([{'cfile': 'base.c', 'fn': f_,
                              'mode': 'spec', 'module':
                              'contracts.c.base_spec', 'timeout_ms': 10000 if
                              tier == 'quick' else 120000}
                             for f_ in ('base_gemv', 'base_symv')])
    c_common.feed(report, breps, ('effect-extent', 'call-correspondence'))
    cache = {}

    def replayer(ob, base):
        fn = ob.meta.get('fn') or ''
        if (fn.startswith('sp_') and fn.endswith(('gemv', 'symv'))) or \
                fn in ('gemv', 'symv'):
            r = gemv_battery(cache)
            if r['err']:
                return False, {'error': r['err']}
            hits = r['result'].get('gemv', [])
            return bool(hits), {
                'rerun': {'battery': 'sparse_gemv', 'oracles': ['gemv']},
                'battery': 'engine/replay/sparse_gemv_battery.py: base.gemv '
                'with a sparse matrix against the dense copy (overlay build '
                'of the current tree)', 'failing_cases': hits[:8],
                'how_to_rerun': 'D=$(mktemp -d); python3 /verif/engine/'
                'overlay.py $D; PYTHONPATH=$D /venv/bin/python /verif/'
                'engine/replay/sparse_gemv_battery.py'}
        return c_common.sparse_index_replay(ob, cache)
    report.replayer = replayer
    report.floor = 40
    report.not_decided += [
        'everything else in C16: construction from triplets, sparse(), '
        'spdiag(), indexed assignment, + - *, scalar operations, transposes, '
        'real / imag / abs, V assignment, size change, axpy / gemm / syrk / '
        'symv with sparse operands, and validity of the compressed-column '
        'representation after every operation (the functions that BUILD '
        'sparse matrices are outside the supported C subset)',
        'numerical values of the products (floating-point operations are '
        'uninterpreted: the contract fixes which stored entries are used and '
        'which positions of x and y they touch)',
        'the result-building paths of spmatrix_subscr (abandoned paths, '
        'listed in the function report): only its reads of colptr / rowind '
        'are decided']
    report.assumptions += [
        'valid(ccs) on entry (cvxopt.h): colptr[0] = 0, colptr '
        'nondecreasing, colptr[ncols] <= nnz, 0 <= rowind[k] < nrows, the '
        'arrays fit the address space',
        'requires of sp_gemv: m, n >= 0, offsetA >= 0, (offsetA mod nrows) + '
        'm <= nrows, (offsetA div nrows) + n <= ncols, incx, incy != 0, x '
        'and y hold the strided vectors, typecode matches the kernel; no '
        'int overflow in the index arithmetic (the int narrowing of colptr '
        'entries and of the strided positions is C19\'s class and is not '
        'claimed here)',
        'scal[id] (the BLAS scaling of y by beta) by its reference contract']
