"""C14: MPS writer / reader -- fixed-column layout, label functions, reader
fields and the reader's RANGES / BOUNDS semantics (DESIGN 8.5 C14)"""
import os, json, subprocess, tempfile, shutil
from engine import overlay
from engine.verdict import Ob

ROOT = os.path.dirname(os.path.dirname(os.path.dirname(
    os.path.abspath(__file__))))
ORACLES = {'layout': ['roundtrip'], 'entries': ['roundtrip'], 'label-form': ['roundtrip'],
           'roundtrip-field': ['roundtrip'], 'reader-field': ['roundtrip',
                                                              'ranges',
                                                              'bounds'],
           'number-width': ['number-width'],
           'label-injective': ['label-injective'],
           'refuses-non-lp': ['refuses-non-lp'],
           'islp-value': ['refuses-non-lp'],
           'reader-semantics': ['ranges', 'bounds']}


class MpsBattery:
    def __init__(self):
        self.result = None
        self.err = None

    def run(self):
        if self.result is not None or self.err is not None:
            return
        d = tempfile.mkdtemp(prefix='cvxverif-mps-')
        try:
            ok, log = overlay.build(d)
            if not ok:
                self.err = 'overlay build failed: ' + log[-1500:]
                return
            env = dict(os.environ)
            env['PYTHONPATH'] = d
            env['CVXOPT_VERIF'] = '1'
            p = subprocess.run(['/venv/bin/python', os.path.join(
                ROOT, 'engine', 'replay', 'mps_battery.py')],
                capture_output=True, text=True, timeout=900, env=env, cwd=d)
            for line in p.stdout.splitlines():
                if line.startswith('MPS-JSON '):
                    self.result = json.loads(line[len('MPS-JSON '):])
            if self.result is None:
                self.err = 'battery produced no result (exit %s): %s' % (
                    p.returncode, (p.stderr or p.stdout)[-1500:])
        except Exception as e:
            self.err = repr(e)
        finally:
            shutil.rmtree(d, ignore_errors=True)


def make_replayer():
    bat = MpsBattery()

    def replayer(ob, base):
        bat.run()
        if bat.err:
            return False, {'error': bat.err}
        want = ORACLES.get(ob.kind, [])
        if ob.kind == 'reader-semantics':
            want = ['empty-rows'] if 'empty-rows' in ob.oid else (
                ['ranges'] if ':rows:' in ob.oid else ['bounds'])
        hits = {k: v for k, v in bat.result.items() if k in want}
        info = {'rerun': {'battery': 'mps', 'oracles': want},
                'battery': 'engine/replay/mps_battery.py on an overlay '
                'build of the current tree (round trips compared by '
                'evaluation, hand-written files against the format '
                'definition)', 'oracles': want, 'failing_cases': hits,
                'all_failures': sorted(bat.result),
                'how_to_rerun': 'D=$(mktemp -d); python3 /verif/engine/'
                'overlay.py $D; PYTHONPATH=$D /venv/bin/python '
                '/verif/engine/replay/mps_battery.py'}
        return bool(hits), info
    return replayer


def run(report, tier, seed):
    from contracts.py import mps_spec
    from engine import mpsvc
    to = 10000 if tier == 'quick' else 60000
    try:
        obs, info = mps_spec.obligations(timeout_ms=to)
    except KeyError as e:
        report.error('function under contract no longer exists: %s' % e)
        return
    report.functions += info['functions']
    report.solver_s += info['solver_s']
    for o in obs:
        report.add(Ob(o['id'], o['kind'], o['status'], o['text'],
                      'modeling.py line %s' % o['line'], by=o['by'],
                      model=o.get('model'), detail=o.get('detail'),
                      cause={'number-width': 'three-digit-exponent',
                             'label-injective': 'label-truncation'}.get(
                                 o['kind']),
                      meta={'line': o['line']}))
    try:
        from contracts.py import mps_reader_spec
        mps_reader_spec.feed(report, tier)
    except ImportError:
        report.not_decided.append(
            'the constraints the reader builds from RANGES and BOUNDS')
    # op._islp, which tofile's first statement relies on
    try:
        from contracts.py import relational_spec
        rep = relational_spec.islp_obligations(to)
        if rep.get('status') == 'ok':
            if 'modeling.py:op._islp' not in report.functions:
                report.functions.append('modeling.py:op._islp')
            for o in rep['obligations']:
                report.add(Ob('modeling.py:op._islp:%s' % o['site'],
                              o['kind'], o['status'], o['text'],
                              'modeling.py line %s' % o['line'],
                              by=o.get('by') or [], model=o.get('model'),
                              meta={'line': o['line']}))
        else:
            report.add(Ob('modeling.py:op._islp:supported', 'engine',
                          'undecided', 'op._islp is inside the supported '
                          'subset', 'modeling.py', detail=rep.get('reason')))
    except KeyError as e:
        report.error('function under contract no longer exists: %s' % e)
    report.replayer = make_replayer()
    from engine.checks import py_common
    py_common.demote_unconfirmed_shape_checks(
        report, lambda ob: ob.kind == 'refuses-non-lp' or
        'syntactic' in (ob.by or []),
        'a statement or a written term is not of the form the contract '
        'reads (first statement `if not self._islp(): raise TypeError`, '
        'labels base[:7 - len(str(i))] + "_" + str(i), letters of the row / '
        'bound types, reader slices)')
    # a writer outside the supported subset is an undecided obligation of
    # its own (exit 2), not a vacuous run
    report.floor = 60 if not any(o['kind'] == 'engine' for o in obs) else 1
    report.extra['line_shapes'] = info['lines']
    report.extra['reader_slices'] = info['reader_uses']
    report.extra['explanation'] = (
        'tofile is executed symbolically over its AST with strings as '
        'terms with symbolic lengths; every line shape it can write is '
        'checked against the column table of the fixed format for all '
        'lengths; the reader\'s constant slices are checked against the '
        'same table.')
    report.not_decided += [
        'six-significant-digit agreement of the numbers (string <-> float '
        'conversion is not interpreted; the number field is only shown to '
        'be the 12-character %E form)',
        'that no COLUMNS entry is written twice; the objective row (cost) '
        'entries; sparse 1x1 coefficients (_isscalar is False for them)',
        'the section parsers of fromfile (loops over the lines of the file: '
        'which dictionary entries a line creates); negative RHS on N rows; '
        'removal of empty constraints',
        'same status / optimal value / solution set after the round trip '
        '(follows from equal data, the solve itself is numerical)',
        'distinct labels for UNNAMED constraints / variables (position-'
        'based labels: injectivity is not searched)']
    report.assumptions += [
        'requires: fewer than 10^7 variables / constraints / components '
        '(index strings of at most 7 digits); names contain no white space; '
        'coefficients are finite',
        "'% 7.5E' % x has the C printf form: sign or blank, d.ddddd, E, "
        'exponent sign, at least two exponent digits',
        'str.rjust / slicing / concatenation lengths as in the Python '
        'language reference']
