"""C08: cone kernels of misc_solvers.c against their definitions (block
operations with ghost block offsets; DESIGN 3 C08 / 8.5)"""
import os, json, time, subprocess, tempfile, shutil
import z3
from engine import cside, overlay
from engine.verdict import Ob
from engine.checks import c_common

FUNCS = ['symm', 'trisc', 'triusc', 'pack', 'unpack', 'sdot', 'pack2']
KINDS = ('kernel-definition', 'loop-invariant', 'iteration-space',
         'accumulate', 'covered')
ROOT = os.path.dirname(os.path.dirname(os.path.dirname(
    os.path.abspath(__file__))))


def tasks(tier):
    t = 20000 if tier == 'quick' else 120000
    return [{'cfile': 'misc_solvers.c', 'fn': f, 'mode': 'spec',
             'module': 'contracts.c.kernels_spec', 'timeout_ms': t}
            for f in FUNCS]


def lemma_obligations(report, tier):
    from contracts.c import kernels_spec
    from engine import smt
    to = 20000 if tier == 'quick' else 120000
    for name, text, hyp, goal in kernels_spec.lemmas():
        t0 = time.time()
        s = z3.Solver()
        s.set('timeout', to)
        for h in hyp:
            s.add(h)
        status, by, detail = 'undecided', [], None
        if s.check() != z3.sat:
            # vacuity guard: contradictory hypotheses prove nothing
            detail = 'hypotheses of the lemma are not satisfiable (vacuous)'
        else:
            s.add(z3.Not(goal))
            r = s.check()
            if r == z3.unsat:
                status, by = 'proved', ['z3']
                if tier == 'thorough':
                    r3 = smt.cross_check(list(hyp), z3.Not(goal))
                    if r3 == 'unsat':
                        by = ['z3+cvc5']
                    elif r3 == 'sat':
                        status, detail = 'undecided', \
                            'z3 says proved, cvc5 says refuted'
            elif r == z3.sat:
                status = 'refuted'
                detail = str(s.model())[:600]
        report.solver_s += time.time() - t0
        report.add(Ob('kernels_spec:lemma:' + name, 'lemma', status, text,
                      'contracts/c/kernels_spec.py lemmas()', by=by,
                      detail=detail, meta={'lemma': name}))


class KernelBattery:
    def __init__(self):
        self.result = None
        self.err = None

    def run(self):
        if self.result is not None or self.err is not None:
            return
        d = tempfile.mkdtemp(prefix='cvxverif-k-')
        try:
            ok, log = overlay.build(d)
            if not ok:
                self.err = 'overlay build failed: ' + log[-1500:]
                return
            env = dict(os.environ)
            env['PYTHONPATH'] = d
            env['CVXOPT_VERIF'] = '1'
            p = subprocess.run(['/venv/bin/python', os.path.join(
                ROOT, 'engine', 'replay', 'kernel_battery.py')],
                capture_output=True, text=True, timeout=600, env=env, cwd=d)
            for line in p.stdout.splitlines():
                if line.startswith('KERNEL-JSON '):
                    self.result = json.loads(line[len('KERNEL-JSON '):])
            if self.result is None:
                self.err = 'battery produced no result (exit %s): %s' % (
                    p.returncode, (p.stderr or p.stdout)[-1500:])
        except Exception as e:
            self.err = repr(e)
        finally:
            shutil.rmtree(d, ignore_errors=True)


def make_replayer():
    bat = KernelBattery()

    def replayer(ob, base):
        if ob.kind == 'lemma':
            return False, {'reason': 'a lemma about the specification; no '
                           'code is involved'}
        bat.run()
        fn = ob.meta.get('fn') or ''
        if bat.err:
            # a crash of the battery under the changed kernel is itself an
            # observation on the real code
            return ('exit -' in bat.err or 'exit 1' in bat.err), {
                'error': bat.err}
        names = [fn] + (['pack', 'unpack'] if fn in ('pack', 'unpack')
                        else [])
        if fn == 'sgemv':
            names.append('sgemv')
        hits = {k: v for k, v in bat.result.items() if k in names}
        info = {'rerun': {'battery': 'kernel', 'oracles': names},
                'battery': 'engine/replay/kernel_battery.py on an overlay '
                'build of the current tree: compiled kernel against the '
                'element-wise definition, whole buffers compared',
                'kernel': fn, 'failing_cases': hits,
                'all_failures': sorted(bat.result),
                'how_to_rerun': 'D=$(mktemp -d); python3 /verif/engine/'
                'overlay.py $D; PYTHONPATH=$D /venv/bin/python '
                '/verif/engine/replay/kernel_battery.py'}
        return bool(hits), info
    return replayer


def demote_unfitting_invariants(report):
    """A sidecar loop invariant names the kernel's running offsets.  When one
    is refuted, the annotations no longer describe this code (a real slip, or
    a harmless restructuring of the offsets), and every other obligation of
    that kernel was examined under an assumption that may be false.  The
    replay decides: if the battery finds a failing input for the kernel the
    refutations stand (VIOLATION with the input); if it finds none they are
    reported as UNDECIDED (exit 2), not as violations."""
    bad = {}
    for ob in report.obs:
        if ob.kind == 'loop-invariant' and ob.status == 'refuted':
            bad.setdefault(ob.meta.get('fn'), []).append(ob)
    if not bad:
        return
    confirmed = {}
    for fn in bad:
        try:
            ok, info = report.replayer(bad[fn][0], None)
        except Exception:
            ok, info = False, {}
        confirmed[fn] = ok
    for ob in report.obs:
        fn = ob.meta.get('fn')
        if fn in bad and ob.status == 'refuted' and not confirmed[fn]:
            ob.status = 'undecided'
            ob.detail = ('a sidecar loop invariant of misc.%s does not fit '
                         'the code and the replay battery finds no failing '
                         'input: the annotations need to be adapted' % fn)


PYFUNCS = [('misc.py', 'contracts.py.misc_kernels_spec', f)
           for f in ('sgemv', 'snrm2', 'jdot', 'jnrm2', 'ssqr')]


def run(report, tier, seed):
    reps = cside.run_tasks(tasks(tier))
    c_common.feed(report, reps, KINDS)
    lemma_obligations(report, tier)
    # the kernels written in Python (active code of misc.py)
    from engine import pyside
    from engine.checks import py_common
    for _, _, f_ in PYFUNCS:
        # engine-generated obligations (loop invariants) of these functions
        # belong to C08
        py_common.DEFAULT_PROPS.setdefault(f_, ('C08',))
    preps = pyside.run_tasks(py_common.tasks_for(PYFUNCS, tier))
    n0 = len(report.obs)
    py_common.feed(report, preps, props=('C08',))
    for ob in report.obs[n0:]:
        parts = ob.oid.split(':')
        ob.meta['fn'] = parts[1] if len(parts) > 1 else ''
    report.replayer = make_replayer()
    demote_unfitting_invariants(report)
    report.floor = 100
    report.extra['explanation'] = (
        'Each kernel is verified against a set of documented block '
        'operations (call families) whose block offsets are ghost functions '
        'defined by recursion over dims; lemmas over the family definitions '
        'show that the families address exactly the documented part of every '
        'block, each entry once, inside the block, and that unpack undoes '
        'pack.')
    report.not_decided += [
        'scale, scale2, sprod, sinv, max_step: value '
        'identities through data-dependent floating-point arithmetic '
        '(scale/inverse, sinv/sprod, <Wx,y> = <x,W\'y>, max_step '
        'minimality, eigen-decomposition); sgemv, snrm2, jdot, jnrm2, ssqr are '
        'decided as compositions of library calls (arguments and result '
        'formula), the numerical result of those calls is not',
        'the pure-Python fall-backs in misc.py (dead code while use_C = '
        'True): not verified, so "both implementations agree" is not decided',
        'rounding: the factors are compared as the code computes them '
        '(uninterpreted floating-point operations); only the pack/unpack '
        'composite-factor lemma treats floats as reals',
        'argument validation and int overflow of the kernels (C19\'s class; '
        'the kernels validate nothing: DESIGN 5 D7)']
    report.assumptions += [
        'requires: dims is a dict with an integer \'l\' and lists \'q\', '
        '\'s\' of non-negative integers; x, y are dense \'d\' matrices long '
        'enough for the addressed blocks; no int overflow in the offset '
        'arithmetic',
        'dcopy_/dscal_/ddot_ act on the strided views they are given as the '
        'reference BLAS documents (x := alpha x, y := x, sum x_i y_i)',
        'unpack-undoes-pack:factors treats floating-point numbers as reals']
