"""C15: dense matrices -- index / shape / type layer of dense.c (DESIGN 3 C15)"""
from engine import cside
from engine.checks import c_common

FUNCS = ['Matrix_New', 'matrix_subscr', 'matrix_set_size',
         'matrix_add_generic', 'matrix_sub_generic', 'matrix_mul_generic',
         'matrix_div_generic', 'matrix_rem_generic']
KINDS = ('index-reject', 'index-accept', 'index-address', 'valid-preserved',
         'size-assigned', 'constructor-postcondition', 'typecode-preserved',
         'reject-exception', 'reject-clean', 'covered', 'shape-rule')


def tasks(tier, funcs=FUNCS):
    t = 10000 if tier == 'quick' else 120000
    return [{'cfile': 'dense.c', 'fn': f, 'mode': 'spec',
             'module': 'contracts.c.dense_spec', 'timeout_ms': t}
            for f in funcs]


def run(report, tier, seed):
    reps = cside.run_tasks(tasks(tier))
    c_common.feed(report, reps, KINDS)
    c_common.install_dense_replayer(report)
    report.floor = 12
    report.not_decided += [
        'numerical results of + - * / ** % and of the element-wise '
        'functions, max/min/sum, printing, iteration, comparison',
        'construction from sequences / block columns beyond Matrix_New',
        'indexing and indexed assignment with slices, lists and integer '
        'matrices (matrix_subscr paths through create_indexlist and '
        'matrix_ass_subscr are outside the supported subset: reported as '
        'abandoned paths in the evidence)']
    report.assumptions += [
        'Python integers used as indices/sizes fit a C long',
        'contracts of the function tables num2PyObject/write_num/'
        'convert_num/axpy/scal/gemm/div_array/mtx_rem '
        '(contracts/c/dense_spec.py)',
        'the in-place variant of a binary operator body is entered with a '
        'matrix as self']
