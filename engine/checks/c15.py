"""C15: dense matrices -- index / shape / type layer of dense.c (DESIGN 3 C15)"""
from engine import cside
from engine.checks import c_common

FUNCS = ['Matrix_New', 'create_indexlist', 'matrix_subscr',
         'matrix_ass_subscr',
         'matrix_ass_subscr_noalias', 'matrix_set_size', 'matrix_new',
         'Matrix_NewFromSequence',
         'matrix_add_generic', 'matrix_sub_generic', 'matrix_mul_generic',
         'matrix_div_generic', 'matrix_rem_generic']
KINDS = ('extern-requires', 'frame', 'index-reject', 'index-accept', 'index-address', 'valid-preserved',
         'size-assigned', 'constructor-postcondition', 'typecode-preserved',
         'reject-exception', 'reject-clean', 'covered', 'shape-rule',
         'inplace-type-rule', 'kernel-typecode', 'indexlist-postcondition')


def tasks(tier, funcs=FUNCS):
    t = 10000 if tier == 'quick' else 120000
    return [{'cfile': 'dense.c', 'fn': f, 'mode': 'spec',
             'module': 'contracts.c.dense_spec', 'timeout_ms': t}
            for f in funcs]


# under contract for the typecode rule only (its index arithmetic needs
# summation invariants over the blocks: not part of C19's function list)
C15_ONLY = ['dense_concat']


def run(report, tier, seed):
    reps = cside.run_tasks(tasks(tier) + tasks(tier, C15_ONLY))
    c_common.feed(report, reps, KINDS)
    c_common.install_dense_replayer(report)
    report.floor = 12
    report.not_decided += [
        'numerical results of + - * / ** % and of the element-wise '
        'functions, max/min/sum, printing, iteration, comparison',
        'construction from sequences / block columns beyond Matrix_New',
        'indexed assignment with sparse right-hand sides; which element a '
        'slice pair addresses (only that it lies inside the matrix); the '
        'list branch of create_indexlist relies on its own contract '
        '(recursive call); values '
        'stored by indexed assignment (only the addressed element is '
        'decided)',
        'construction from lists of blocks (dense_concat): only the typecode '
        'rule is decided; block sizes and element placement are not']
    report.assumptions += [
        'Python integers used as indices/sizes fit a C long',
        'contracts of the function tables num2PyObject/write_num/'
        'convert_num/axpy/scal/gemm/div_array/mtx_rem '
        '(contracts/c/dense_spec.py)',
        'the in-place variant of a binary operator body is entered with a '
        'matrix as self']
