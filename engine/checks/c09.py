"""C09 (Python side) -- see DESIGN section 3."""
from engine import pyside
from engine.checks import py_common


def run(report, tier, seed):
    reps = pyside.run_tasks(py_common.tasks_for(py_common.SOLVER_FUNCS, tier))
    py_common.feed(report, reps, props=('C09',))
    py_common.feed_kernel_frames(report, tier)
    py_common.feed_lapack_frames(report, tier)
    py_common.feed_blas_frames(report, tier)
    py_common.install_replayer(report)
    report.floor = 5
    report.assumptions += [
        'floats are treated as mathematical reals',
        'library contracts of contracts/py/extern_cvxopt.py (which arguments '
        'a blas/lapack/misc routine modifies; inner products are '
        'nonnegative on equal arguments; role contracts of user callbacks)']
