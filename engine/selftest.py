"""`./vf selftest`: vacuity and soundness guards of the engines themselves.

1. every registered check produces a non-zero number of obligations and its
   reachability obligations (accept-reachable / covered) are present;
2. a deliberately wrong contract must be refuted (an assertion that must
   fail), so that a solver or engine that answers `proved` to everything is
   noticed;
3. the kept seeded changes (seeded/*/patch.diff) whose meta says they are
   caught must still be caught -- run on a scratch copy of the repository,
   never in /repo."""
import os, sys, json, subprocess, tempfile, shutil, glob
ROOT = os.path.dirname(os.path.dirname(os.path.abspath(__file__)))


def must_fail():
    import z3
    from engine.cvc import cast, driver
    from engine import cside
    bad = 0
    # C: a footprint contract that is too large must be refuted on scal
    from contracts.c import extern_blas
    rt = extern_blas.ROUTINES['dscal_']
    saved = rt.arrays['x']
    rt.arrays['x'] = (saved[0], lambda p: saved[1](p) + 1)
    try:
        rep = cside.run_task({'cfile': 'blas.c', 'fn': 'scal',
                              'mode': 'blas-wrapper'})
    finally:
        rt.arrays['x'] = saved
    ref = [o for o in rep['obligations'] if o['kind'] == 'footprint' and
           o['status'] == 'refuted']
    print('selftest C  : enlarged dscal footprint ->', len(ref),
          'footprint obligations refuted')
    if not ref:
        bad += 1
    return bad


def seeds(props):
    res = os.path.join(ROOT, 'seeded', 'RESULTS.txt')
    if not os.path.exists(res):
        return 0
    bad = 0
    want = {}
    for line in open(res):
        p = line.split()
        if (len(p) >= 4 and 'checks:' in line) or (len(p) >= 3 and p[1] ==
                                                  'recheck:'):
            # a later line for the same seed and check replaces an earlier
            # one (checks are strengthened after a miss and re-run)
            sid = p[0]
            for c in p[2:]:
                if 'viol=' not in c:
                    continue
                prop = c.split(':')[0]
                cur = want.setdefault(sid, [])
                if c.endswith('viol=0'):
                    if prop in cur:
                        cur.remove(prop)
                elif prop not in cur:
                    cur.append(prop)
    for sid, caught in sorted(want.items()):
        if not caught:
            continue
        if props and not any(c in props for c in caught):
            continue
        patch = os.path.join(ROOT, 'seeded', sid, 'patch.diff')
        reb = os.path.join(ROOT, 'seeded', sid, 'patch.rebased.diff')
        if os.path.exists(reb):
            patch = reb             # the seed rebased onto a later fix
        if not os.path.exists(patch):
            continue
        d = tempfile.mkdtemp(prefix='cvxverif-seed-')
        try:
            subprocess.run(['git', '-C', '/repo', 'worktree', 'add', '-q',
                            '--detach', d, 'HEAD'], check=True)
            if subprocess.run(['git', '-C', d, 'apply', patch]).returncode:
                print('selftest seed %s: patch no longer applies' % sid)
                continue
            env = dict(os.environ, VERIF_REPO=d,
                       VERIF_EVIDENCE_DIR=os.path.join(d, '.evidence'))
            for c in caught:
                p = subprocess.run([os.path.join(ROOT, 'vf'), 'check', c,
                                    '--tier', 'quick'], env=env,
                                   capture_output=True, text=True, cwd=ROOT)
                ok = p.returncode == 1 and 'VIOLATION' in p.stdout
                print('selftest seed %s on %s: %s' % (
                    sid, c, 'caught' if ok else 'NOT caught (exit %d)' %
                    p.returncode))
                if not ok:
                    bad += 1
        finally:
            subprocess.run(['git', '-C', '/repo', 'worktree', 'remove',
                            '--force', d])
            shutil.rmtree(d, ignore_errors=True)
    return bad


def main(props):
    bad = must_fail()
    if '--seeds' in props or os.environ.get('VERIF_SELFTEST_SEEDS'):
        bad += seeds([p for p in props if not p.startswith('--')])
    print('selftest:', 'ok' if not bad else '%d problem(s)' % bad)
    return 0 if not bad else 1
