"""Verdict protocol, known-findings matching and evidence writer (DESIGN 2.6,
2.9).  Exit codes: 0 held / 1 violation / 2 undecided / 3 checker error."""
import json, os, sys, time, hashlib

ROOT = os.path.dirname(os.path.dirname(os.path.abspath(__file__)))
KNOWN = os.path.join(ROOT, 'known_findings.json')
EVID = os.path.join(ROOT, 'evidence')
EVID = os.environ.get('VERIF_EVIDENCE_DIR', EVID)
REPLAYS = os.path.join(ROOT, 'replays')


def load_known():
    if not os.path.exists(KNOWN):
        return []
    with open(KNOWN) as f:
        return json.load(f).get('findings', [])


class Ob:
    """One obligation site as reported by an engine."""

    def __init__(self, oid, kind, status, text, where='', by=None,
                 model=None, detail=None, cause=None, meta=None):
        self.oid = oid
        self.kind = kind
        self.status = status      # proved | refuted | undecided
        self.text = text
        self.where = where
        self.by = by or []
        self.model = model
        self.detail = detail
        self.cause = cause        # cause class for known-finding matching
        self.meta = meta or {}


class Report:
    def __init__(self, prop, tier, seed, level='proof', checker_cmd=None):
        self.prop = prop
        self.tier = tier
        self.seed = seed
        self.level = level
        self.t0 = time.time()
        self.obs = []
        self.functions = []
        self.unverified = []
        self.trusted = set()
        self.assumptions = []
        self.bounded = []
        self.not_decided = []
        self.errors = []
        self.solver_s = 0.0
        self.checker_cmd = checker_cmd or ' '.join(sys.argv)
        self.extra = {}
        self.replayer = None      # fn(ob, base) -> (confirmed, info)
        self.cleanup = None
        self.floor = 1

    def add(self, ob):
        self.obs.append(ob)

    def error(self, msg):
        self.errors.append(msg)

    # ------------------------------------------------------------------
    def finish(self):
        known = [k for k in load_known() if k.get('property') == self.prop]
        open_known = {k['obligation']: k for k in known
                      if k.get('status', 'open') == 'open'}
        lines = []
        violations = []
        known_hit = []
        undecided = []
        proved = 0
        by = {}
        nbounded = 0
        for ob in self.obs:
            if ob.status == 'proved' and ob.meta.get('bounded'):
                # a bounded stand-in: checked, reported, never counted as
                # proved
                nbounded += 1
                continue
            if ob.status == 'proved':
                proved += 1
                for b in (ob.by or ['z3']):
                    by[b] = by.get(b, 0) + 1
            elif ob.status == 'undecided':
                k = open_known.get(ob.oid)
                if k is not None:
                    # listed as violated on this tree (confirmed on the real
                    # code when it was recorded): the solver running out of
                    # time on it does not make it undecided
                    known_hit.append((ob, k))
                else:
                    undecided.append(ob)
            else:
                k = open_known.get(ob.oid)
                if k is not None and (not k.get('cause') or not ob.cause or
                                      k['cause'] == ob.cause):
                    known_hit.append((ob, k))
                else:
                    violations.append(ob)
        for ob, k in known_hit:
            lines.append('KNOWN-FINDING: property=%s %s [%s]' % (
                self.prop, k.get('what', ob.text), ob.oid))
        nviol = 0
        for ob in violations:
            path, confirmed = self.write_replay(ob)
            suffix = '' if confirmed else ' no-failing-input-found'
            lines.append('VIOLATION property=%s replay=%s%s' % (
                self.prop, path, suffix))
            lines.append('  obligation %s: %s' % (ob.oid, ob.text))
            nviol += 1
        for ob in undecided:
            lines.append('UNDECIDED property=%s obligation=%s reason=%s' % (
                self.prop, ob.oid, (ob.detail or 'solver unknown')[:200]))
        for e in self.errors:
            lines.append('CHECKER-ERROR property=%s %s' % (self.prop, e))
        nobl = len(self.obs) - len(known_hit) - nbounded
        self.extra['bounded_obligations_checked'] = nbounded
        code = 0
        if self.errors:
            code = 3
        elif nobl < self.floor:
            lines.append('CHECKER-ERROR property=%s only %d obligations were '
                         'generated (floor %d): vacuous run' % (
                             self.prop, nobl, self.floor))
            code = 3
        elif nviol:
            code = 1
        elif undecided:
            code = 2
        if self.cleanup:
            try:
                self.cleanup()
            except Exception:
                pass
        self.write_evidence(nobl, proved, by, known_hit, violations,
                            undecided)
        for l in lines:
            print(l)
        print('%s %s: %d obligations, %d proved, %d known findings, '
              '%d violations, %d undecided, %d functions, %.1fs%s' % (
                  self.prop, self.tier, nobl, proved, len(known_hit), nviol,
                  len(undecided), len(self.functions), time.time() - self.t0,
                  (' (+%d bounded stand-in obligations held, not counted)' %
                   nbounded) if nbounded else ''))
        return code

    def write_replay(self, ob):
        os.makedirs(REPLAYS, exist_ok=True)
        h = hashlib.sha1(ob.oid.encode()).hexdigest()[:10]
        base = os.path.join(REPLAYS, '%s-%s' % (self.prop, h))
        confirmed = None
        info = {'property': self.prop, 'obligation': ob.oid,
                'kind': ob.kind, 'text': ob.text, 'where': ob.where,
                'verifier_output': {'status': ob.status, 'model': ob.model,
                                    'detail': ob.detail},
                'replay': None}
        if self.replayer is not None:
            try:
                confirmed, rinfo = self.replayer(ob, base)
                info['replay'] = rinfo
            except Exception as e:      # replay machinery failure
                info['replay'] = {'error': repr(e)}
                confirmed = None
        info['confirmed_on_real_code'] = bool(confirmed)
        path = base + '.json'
        with open(path, 'w') as f:
            json.dump(info, f, indent=1, default=str)
        return path, bool(confirmed)

    def write_evidence(self, nobl, proved, by, known_hit, violations,
                       undecided):
        os.makedirs(EVID, exist_ok=True)
        samples = []
        for ob in self.obs[:: max(1, len(self.obs) // 12)][:14]:
            samples.append({'id': ob.oid, 'kind': ob.kind,
                            'statement': ob.text, 'status': ob.status,
                            'by': ob.by})
        kinds = {}
        for ob in self.obs:
            k = kinds.setdefault(ob.kind, {'total': 0, 'proved': 0})
            k['total'] += 1
            if ob.status == 'proved':
                k['proved'] += 1
        cov = {
            'obligations': nobl,
            'discharged': proved,
            'checker_cmd': self.checker_cmd,
            'trusted_base': sorted(self.trusted),
            'samples': samples,
            'functions_under_contract': self.functions,
            'functions_not_verified': self.unverified,
            'obligations_by_kind': kinds,
            'backends': by,
            'solver_s': round(self.solver_s, 2),
            'known_findings_reported': [
                {'obligation': ob.oid, 'what': k.get('what')}
                for ob, k in known_hit],
            'undecided': [ob.oid for ob in undecided],
            'refuted_new': [ob.oid for ob in violations],
            'bounded_standins': self.bounded,
            'clauses_not_decided': self.not_decided,
            'explanation': self.extra.get('explanation', ''),
        }
        for k, v in self.extra.items():
            cov.setdefault(k, v)
        ev = {'property_id': self.prop, 'tier': self.tier, 'seed': self.seed,
              'level': self.level, 'coverage': cov,
              'assumptions': self.assumptions + sorted(self.trusted),
              'wall_s': round(time.time() - self.t0, 2),
              'violations': len(violations)}
        tmp = os.path.join(EVID, self.prop + '.json.tmp')
        with open(tmp, 'w') as f:
            json.dump(ev, f, indent=1, default=str)
        os.replace(tmp, os.path.join(EVID, self.prop + '.json'))
