"""C12, matrix assembly: op._inmatrixform places every coefficient block of
every (linear) constraint at the rows of its constraint and the columns of
its variable, and op.solve propagates status and values unconditionally.

VERIFIED TEXT.  Four loops of op._inmatrixform are cut out of its AST on every
run by structural anchors and executed by pyvc:

  partition   `for v in variables + aux_variables: vslc[v] = slice(n,
              n+len(v)); n += len(v)`, `for i in islc: islc[i] = slice(m,
              m+len(i)); m += len(i)`, `for e in equalities: eslc[e] = ...`
              -- for an arbitrary iteration k: the slice stored for the k-th
              element is [S(k), S(k+1)) where S is the prefix sum of the
              lengths (invariant: running offset = S(k)), so consecutive
              slices are adjacent, disjoint and cover [0, S(N))
  assembly    `for i in islc: ... for v, cf in ..._coeff.items(): G[...] = `
              and the same for the equalities / A -- for one arbitrary
              constraint and one arbitrary (variable, coefficient) entry

What the extraction drops: everything else of _inmatrixform (the epigraph
expansion, the objective, the construction of vmap / mmap); the dictionaries
vslc / islc / eslc are represented by the postcondition of the partition
loops (a slice [r0, r0 + len) inside [0, number of rows)).

Contract of the assembly (column-major target T with M rows): with (r0, lg) =
rows of the constraint, (c0, n) = columns of the variable and a coefficient of
size (lg, n), (1, n) or (1, 1):
   (lg, n):  T[r0:r0+lg, c0:c0+n] = cf                    (block = coefficient)
   (1, n):   T[r0:r0+lg, c0:c0+n] = lg copies of row 0
   (1, 1):   exactly the entries (r0+t, c0+t), t < lg, are written (requires
             lg = n: a scalar times a vector variable), i.e. the linear
             indices start + t*step < stop of the extended slice are
             (r0+t) + M*(c0+t) and no others
and h[r0:r0+lg] (b[...]) = minus the constant.

op.solve: on every normal return self.status is the status of the LP solver's
result, and -- when the problem was converted -- the loops that copy values
and multipliers back through vmap and mmap have been executed, whatever the
status (so that infeasible / unbounded problems leave None as documented).
"""
import ast, z3
from engine.pyvc import driver, core
from engine.pyvc.core import Dyn, Ref, R, B, I, Ext, Unknown, Unsupported
from contracts.py.extern_cvxopt import LIB as L

# texts of obligations that were refuted because the code is not of the
# documented FORM (the goal was the constant false: no counter-model), as
# opposed to a condition that z3 refuted with values
FORM_REFUTED = set()

Z = z3.IntVal


class Obj:
    """generic abstract object: attribute / item / method access gives
    another abstract object named by the access path"""
    abs_object = True

    def __init__(self, name, **kw):
        self.name = name
        self.__dict__.update(kw)

    def abs_getattr(self, ex, st, attr, n):
        h = getattr(self, 'attr_' + attr, None)
        if h is not None:
            return h(ex, st)
        if getattr(self, 'meth_' + attr, None) is not None:
            return core.NOTFOUND          # -> bound method
        return type(self)('%s.%s' % (self.name, attr)) if type(self) in (
            Obj, RecObj) else Obj('%s.%s' % (self.name, attr))

    def abs_call(self, ex, st, args, kwargs, n):
        return type(self)('%s()' % self.name) if type(self) in (
            Obj, RecObj) else Obj('%s()' % self.name)

    def abs_getitem(self, ex, st, idx, n):
        return Obj('%s[..]' % self.name)

    def abs_method(self, ex, st, name, args, kwargs, n):
        h = getattr(self, 'meth_' + name, None)
        if h is not None:
            return h(ex, st, args, kwargs)
        return Obj('%s.%s()' % (self.name, name))

    def abs_eq(self, ex, st, o):
        return o is self

    abs_is = abs_eq

    def __repr__(self):
        return 'Obj(%s)' % self.name


class RecObj(Obj):
    """abstract object whose attribute stores are recorded"""
    def abs_unop(self, ex, st, op, n):
        return RecObj('-' + self.name)

    def abs_truth(self, ex, st):
        return True


class SliceObj(Obj):
    def __init__(self, name, start, stop):
        Obj.__init__(self, name)
        self.start, self.stop = start, stop

    def attr_start(self, ex, st):
        return I(self.start)

    def attr_stop(self, ex, st):
        return I(self.stop)


class Sized(Obj):
    """an object with a length (constraint, variable)"""
    def __init__(self, name, ln):
        Obj.__init__(self, name)
        self.ln = ln


class Coef(Obj):
    def __init__(self, name, r, cd):
        Obj.__init__(self, name)
        self.r, self.cd = r, cd
        self.issp = z3.Bool('issp(%s)' % name)

    def attr_size(self, ex, st):
        return (I(self.r), I(self.cd))

    def abs_getitem(self, ex, st, idx, n):
        return Val(('item', self, idx))


class Val(Obj):
    def __init__(self, what):
        Obj.__init__(self, 'val')
        self.what = what


class Target(Obj):
    """G, A, h, b: stores are recorded"""
    def __init__(self, name, nrows):
        Obj.__init__(self, name)
        self.nrows = nrows
        self.isd = z3.Bool('isdense(%s)' % name)

    def abs_setitem(self, ex, st, idx, v, s):
        st.ghost['stores'] = st.ghost.get('stores', []) + [
            (self, idx, v, list(st.pc), s.lineno)]


class OneOf:
    """iterable with one arbitrary element (dict keys / items)"""
    def __init__(self, elem, getitem=None):
        self.elem, self.getitem = elem, getitem

    def abs_loop(self, ex, st, s, fid):
        ex.assign(st, fid, s.target, self.elem, s)
        outs = []
        for o in ex.exec_block(s.body, st, fid):
            if o.kind in ('fall', 'continue', 'break'):
                outs.append(core.Outcome('fall', o.st))
            else:
                outs.append(o)
        return outs

    def abs_getitem(self, ex, st, idx, n):
        return self.getitem(idx)

    def abs_method(self, ex, st, name, args, kwargs, n):
        if name in ('items', 'keys'):
            return self
        raise Unsupported('dict.%s' % name)

    def abs_getattr(self, ex, st, attr, n):
        return core.NOTFOUND


_len0 = L.ext.get('builtins.len')


@L.register('builtins.len', pure=True)
def b_len(ex, st, args, kwargs, n):
    v = args[0]
    if isinstance(v, Sized):
        return I(v.ln)
    return _len0(ex, st, args, kwargs, n)


@L.register('builtins.iter', pure=True)
def b_iter(ex, st, args, kwargs, n):
    return args[0]


_type0 = L.ext.get('builtins.type')


@L.register('builtins.type', pure=True)
def b_type(ex, st, args, kwargs, n):
    if len(args) == 1 and isinstance(args[0], tuple):
        return Ext('builtins.tuple')
    if len(args) == 1 and args[0] is None:
        return Ext('builtins.NoneType')
    return _type0(ex, st, args, kwargs, n)


def _pred(name, f):
    @L.register('cvxopt.modeling.' + name, pure=True)
    def h(ex, st, args, kwargs, n):
        return f(ex, st, args[0])
    return h


COST_SPARSE = z3.Bool('the cost coefficient is sparse')


def _is_cost(a):
    return isinstance(a, Obj) and 'objective' in a.name and \
        a.name.endswith('_coeff[..]')


_pred('_isspmatrix', lambda ex, st, a: B(a.issp) if isinstance(a, Coef)
      else (B(z3.Not(a.isd)) if isinstance(a, Target) else (
          B(COST_SPARSE) if _is_cost(a) else False)))
_pred('_isdmatrix', lambda ex, st, a: B(z3.Not(a.issp)) if isinstance(
    a, Coef) else (B(a.isd) if isinstance(a, Target) else B(z3.Bool(
        ex.fresh('isdmatrix')))))
_pred('_isscalar', lambda ex, st, a: B(z3.Bool(ex.fresh('isscalar'))))


@L.register('cvxopt.modeling.matrix', pure=True)
def m_matrix(ex, st, args, kwargs, n):
    return Val(('dense', args[0] if args else None))


def find_loop(fn, pred):
    out = [s for s in fn.body if isinstance(s, ast.For) and pred(s)]
    if len(out) != 1:
        raise Unsupported('anchor: loop found %d times' % len(out))
    return out


def has_nested_items(s):
    return any(isinstance(x, ast.For) and '_coeff.items()' in ast.unparse(
        x.iter) for x in s.body)


ANCHORS = {
    'assemble-G': lambda s: ast.unparse(s.iter) == 'islc' and
    has_nested_items(s),
    'assemble-A': lambda s: ast.unparse(s.iter) == 'equalities' and
    has_nested_items(s),
}


def setup_assembly(which):
    def setup(ex, st, fid, fn):
        fr = st.frames[fid]
        M = z3.Int('m')
        P = z3.Int('p')
        N = z3.Int('n')
        rows = M if which == 'assemble-G' else P
        r0, lg, c0, nv = z3.Ints('r0 lg c0 nv')
        r, cd = z3.Ints('cf.rows cf.cols')
        # postcondition of the partition loops + the coefficient shape rule
        st.pc += [M >= 0, P >= 0, N >= 0, r0 >= 0, lg >= 1, r0 + lg <= rows,
                  c0 >= 0, nv >= 1, c0 + nv <= N,
                  z3.Or(z3.And(r == lg, cd == nv), z3.And(r == 1, cd == nv),
                        z3.And(r == 1, cd == 1)),
                  z3.Implies(z3.And(r == 1, cd == 1, nv > 1), lg == nv)]
        fr['m'], fr['p'], fr['n'] = I(M), I(P), I(N)
        V = Sized('v', nv)
        CF = Coef('cf', r, cd)
        coeff = OneOf((V, CF))
        const = Obj('constant')
        const.abs_getitem = lambda ex_, st_, idx_, n_: Unknown(
            'entries of the constant')
        C = Sized('i', lg)
        C.attr__f = lambda ex_, st_: Obj('f', attr__linear=lambda e2, s2: Obj(
            'lin', attr__coeff=lambda e3, s3: coeff),
            attr__constant=lambda e2, s2: const)
        rs = SliceObj('rows(i)', r0, r0 + lg)
        cs = SliceObj('cols(v)', c0, c0 + nv)
        sl = OneOf(C, lambda k: rs)
        if which == 'assemble-G':
            fr['islc'] = sl
            fr['G'] = Target('G', M)
            fr['h'] = Target('h', M)
        else:
            fr['equalities'] = sl
            fr['eslc'] = sl
            fr['A'] = Target('A', P)
            fr['b'] = Target('b', P)
        fr['vslc'] = OneOf(V, lambda k: cs)
        fr['matrix'] = Ext('cvxopt.modeling.matrix')
        st.ghost['frame_check'] = False
        st.ghost['sym'] = dict(M=M, P=P, N=N, r0=r0, lg=lg, c0=c0, nv=nv,
                               r=r, cd=cd, rows=rows, rs=rs, cs=cs, CF=CF)
    return setup


def run_assembly(which, timeout_ms=10000):
    tree, src = driver.load_module('modeling.py')
    ex = core.Executor(tree, 'cvxopt.modeling', L, {
        'body_slice': lambda fn: find_loop(fn, ANCHORS[which]), 'unroll': 8})
    obs = []
    T = 'G' if which == 'assemble-G' else 'A'
    Hn = 'h' if which == 'assemble-G' else 'b'

    def add(oid, status, text, line=0, model=None, detail=None):
        obs.append({'id': 'modeling.py:op._inmatrixform:assembly:%s:%s' % (
            which, oid), 'kind': 'assembly', 'status': status, 'text': text,
            'line': line, 'model': model, 'detail': detail,
            'by': ['z3'] if status == 'proved' else []})

    def prove(pc, goal):
        r = ex.check(pc, [z3.Not(goal)], timeout=timeout_ms)
        if r == z3.unsat:
            return 'proved', None
        if r == z3.sat:
            m = driver.model_for(ex, core.Oblig('x', 'assembly', list(pc),
                                                goal, '', 0), timeout_ms)
            return 'refuted', m
        return 'undecided', None
    ex.find_function('op._inmatrixform')
    try:
        outs = ex.run_function('op._inmatrixform', setup_assembly(which))
    except Unsupported as e:
        add('supported', 'undecided', 'the assembly loop is inside the '
            'supported subset', detail=str(e))
        return obs
    seen = {'matrix': 0, 'row': 0, 'scalar': 0, 'rhs': 0}
    for o in outs:
        st = o.st
        sy = st.ghost['sym']
        if o.kind == 'raise':
            r = ex.check(st.pc, [])
            add('no-exception', 'proved' if r == z3.unsat else 'refuted',
                'the assembly of one coefficient raises no exception (%s)' %
                (o.val[:2],), o.val[2] if len(o.val) > 2 else 0)
            continue
        stores = st.ghost.get('stores', [])
        tstores = [s_ for s_ in stores if s_[0].name == T]
        hstores = [s_ for s_ in stores if s_[0].name == Hn]
        pc = list(st.pc)
        is_m = z3.And(sy['r'] == sy['lg'], sy['cd'] == sy['nv'])
        is_r = z3.And(z3.Not(is_m), sy['r'] == 1, sy['cd'] == sy['nv'])
        case = None
        for nm, f in (('matrix', is_m), ('row', is_r),
                      ('scalar', z3.And(z3.Not(is_m), z3.Not(is_r)))):
            if ex.check(pc, [z3.Not(f)]) == z3.unsat:
                case = nm
        if case is None:
            add('cases', 'refuted', 'every path of the assembly handles one '
                'coefficient shape', detail='path does not determine the '
                'shape')
            continue
        ok1 = len(tstores) == 1
        add('%s:one-store' % case, 'proved' if ok1 else 'refuted',
            'a %s coefficient is stored into %s exactly once' % (case, T))
        if ok1:
            tgt, idx, val, spc, line = tstores[0]
            seen[case] += 1
            if case in ('matrix', 'row'):
                g = (isinstance(idx, tuple) and len(idx) == 2 and
                     idx[0] is sy['rs'] and idx[1] is sy['cs'])
                add('%s:block' % case, 'proved' if g else 'refuted',
                    'a %s coefficient goes to %s[rows of the constraint, '
                    'columns of the variable]' % (case, T), line)
                if case == 'matrix':
                    gv = (val is sy['CF']) or (isinstance(val, Val) and
                                               val.what[0] == 'dense' and
                                               val.what[1] is sy['CF'])
                    add('matrix:value', 'proved' if gv else 'refuted',
                        'the block stored is the coefficient itself '
                        '(possibly converted to dense)', line)
                else:
                    def rows0(v):
                        if isinstance(v, Val) and v.what[0] == 'dense':
                            v = v.what[1]
                        if not (isinstance(v, Val) and v.what[0] == 'item'
                                and v.what[1] is sy['CF']):
                            return None
                        ix = v.what[2]
                        if not (isinstance(ix, tuple) and len(ix) == 2):
                            return None
                        return ix
                    ix = rows0(val)
                    st_, model = 'refuted', None
                    if ix is not None and isinstance(ix[0], Ref) and \
                            isinstance(ix[1], tuple) and ix[1][0] == 'slice' \
                            and ix[1][1:] == (None, None, None):
                        lo = st.heap[ix[0].oid]
                        ln = lo.f['len'].t if 'len' in lo.f else Z(len(
                            lo.f.get('items', [])))
                        # lg*[0]: a list of lg zeros
                        el = lo.f.get('items')
                        if el is None:
                            e_ = lo.f.get('elem', ('unknown',))
                            zeros = e_[0] == 'const' and core.const_of(
                                e_[1]) == (True, 0)
                        else:
                            zeros = all(core.const_of(x) == (True, 0)
                                        for x in el)
                        if zeros:
                            st_, model = prove(pc, ln == sy['lg'])
                    add('row:value', st_, 'the block stored is row 0 of the '
                        'coefficient repeated len(constraint) times', line,
                        model)
            else:
                ok = isinstance(idx, tuple) and idx and idx[0] == 'slice'
                if not ok:
                    add('scalar:diagonal', 'refuted', 'a scalar coefficient '
                        'is stored through an extended slice of %s' % T,
                        line)
                else:
                    def it(v):
                        k_, t_ = ex.num(st, v)
                        return t_
                    lo, hi, stp = it(idx[1]), it(idx[2]), it(idx[3])
                    t = z3.Int('t')
                    Mr = sy['rows']
                    goal = z3.And(
                        stp > 0,
                        z3.Implies(z3.And(t >= 0, t < sy['lg']), z3.And(
                            lo + t * stp < hi,
                            lo + t * stp == (sy['r0'] + t) + Mr *
                            (sy['c0'] + t))),
                        z3.Implies(z3.And(t >= 0, lo + t * stp < hi),
                                   t < sy['lg']))
                    st_, model = prove(pc, goal)
                    add('scalar:diagonal', st_,
                        'a scalar coefficient is stored at exactly the '
                        'entries (r0+t, c0+t), t < len(constraint), of the '
                        'column-major %s (extended slice start:stop:step)' %
                        T, line, model)
                    gv = isinstance(val, Val) and val.what[0] == 'item' and \
                        val.what[1] is sy['CF'] and core.const_of(
                            val.what[2]) == (True, 0)
                    add('scalar:value', 'proved' if gv else 'refuted',
                        'the value stored is the scalar cf[0]', line)
        okh = len(hstores) == 1 and hstores[0][1] is sy['rs']
        seen['rhs'] += 1 if okh else 0
        add('rhs', 'proved' if okh else 'refuted',
            '%s[rows of the constraint] is assigned once per constraint' %
            Hn, hstores[0][4] if hstores else 0)
    add('covered', 'proved' if all(seen[k] >= 1 for k in seen) else
        'undecided', 'the three coefficient shapes and the right-hand side '
        'were examined (%r)' % seen)
    return obs


def feed(report, tier):
    from engine.verdict import Ob
    to = 10000 if tier == 'quick' else 60000
    for which in ('vslc', 'islc', 'eslc', 'maps', 'mmap-pwl', 'assemble-G',
                  'assemble-A'):
        try:
            obs = run_assembly(which, to) if which.startswith('assemble') \
                else (run_maps() if which == 'maps' else (
                    run_mmap_pwl(to) if which == 'mmap-pwl' else
                    run_partition(which, to)))
        except KeyError as e:
            report.error('function under contract no longer exists: %s' % e)
            return
        sites = {}
        rank = {'proved': 0, 'undecided': 1, 'refuted': 2}
        for o in obs:
            s = sites.setdefault(o['id'], dict(o, n=0))
            s['n'] += 1
            if rank[o['status']] > rank[s['status']]:
                s.update(status=o['status'], model=o['model'],
                         detail=o['detail'], by=o['by'], line=o['line'])
        for oid, s in sites.items():
            report.add(Ob(oid, s['kind'], s['status'], s['text'],
                          'modeling.py op._inmatrixform', by=s['by'],
                          model=s['model'], detail='%s (%d path instances)'
                          % (s['detail'], s['n']),
                          meta={'line': s['line'], 'which': which}))
    if 'modeling.py:op._inmatrixform' not in report.functions:
        report.functions.append('modeling.py:op._inmatrixform')


# ------------------------------------------------------------------ op.solve
class Visit(OneOf):
    def __init__(self, name, elem):
        OneOf.__init__(self, elem)
        self.vname = name

    def abs_loop(self, ex, st, s, fid):
        outs = OneOf.abs_loop(self, ex, st, s, fid)
        for o in outs:
            o.st.ghost['visited'] = o.st.ghost.get('visited', ()) + (
                self.vname,)
        return outs


def record_setattr(orig):
    def f(ex, st, base, attr, v, s):
        if isinstance(base, Obj):
            st.ghost['attr_stores'] = st.ghost.get('attr_stores', ()) + (
                (base, attr, v, s.lineno),)
            return
        return orig(ex, st, base, attr, v, s)
    return f


class Sol(Obj):
    def abs_getitem(self, ex, st, idx, n):
        if idx == 'status':
            return self.status
        return RecObj("sol[%r]" % (idx,))


@L.register('cvxopt.solvers.lp')
def solvers_lp(ex, st, args, kwargs, n):
    d = ex.fresh_dyn('status')
    st.pc.append(d.tag == core.TAG_STR)
    sol = Sol('sol')
    sol.status = d
    st.ghost['sol'] = sol
    st.ghost['lp_args'] = (list(args), dict(kwargs))
    return sol


def solve_setup(sc):
    def setup(ex, st, fid, fn):
        from contracts.py.misc_kernels_spec import bind_module_level
        bind_module_level(ex, st, fid)
        fr = st.frames[fid]
        x = Sized('x', z3.Int('len(x)'))
        x.__class__ = type('SizedRec', (Sized, RecObj), {})

        def lst(e, s_, items):
            return e.alloc(s_, 'list', {'items': list(items)},
                           {'owner': 'FRESH'})

        def lp_obj(name):
            o = RecObj(name)
            o.meth_variables = lambda e, s, a, k: lst(
                e, s, [x] if sc.get('vars', True) else [])
            ineq = RecObj('ineq0')
            eq = RecObj('eq0')
            o.attr__inequalities = lambda e, s: lst(
                e, s, [ineq] if sc.get('ineq', True) else [])
            o.attr__equalities = lambda e, s: lst(
                e, s, [eq] if sc.get('eq', True) else [])
            return o
        selfo = lp_obj('self')
        if sc.get('converted', True):
            lp1 = lp_obj('lp1')
            vmap = RecObj('vmap')
            vmap.meth_items = lambda e, s, a, k: Visit('vmap', (
                RecObj('v'), RecObj('fv')))
            mmap = RecObj('mmap')
            mmap.meth_items = lambda e, s, a, k: Visit('mmap', (
                RecObj('c'), RecObj('fc')))
            selfo.meth__inmatrixform = lambda e, s, a, k: (lp1, vmap, mmap)
        else:
            selfo.meth__inmatrixform = lambda e, s, a, k: None
        fr['self'] = selfo
        fr['format'] = 'dense' if sc.get('dense', True) else 'sparse'
        fr['solver'] = 'default'
        fr['kwargs'] = ex.alloc(st, 'dict', {'items': {}, 'open': False},
                                {'owner': 'FRESH'})
        fr['matrix'] = Ext('cvxopt.modeling.matrix')
        fr['spmatrix'] = Ext('cvxopt.modeling.matrix')
        st.ghost['frame_check'] = False
        st.ghost['selfo'] = selfo
    return setup


SOLVE_SCENARIOS = {
    'converted': {}, 'converted-noeq': {'eq': False},
    'converted-sparse-noeq': {'eq': False, 'dense': False},
    'direct': {'converted': False}, 'no-variable': {'vars': False},
    'no-inequality': {'ineq': False}}


def run_solve(timeout_ms=10000):
    tree, src = driver.load_module('modeling.py')
    obs = []

    def add(oid, status, text, line=0, detail=None):
        obs.append({'id': 'modeling.py:op.solve:solve-propagation:' + oid,
                    'kind': 'solve-propagation', 'status': status,
                    'text': text, 'line': line, 'model': None,
                    'detail': detail, 'by': ['z3'] if status == 'proved'
                    else []})
    orig = L.setattr
    L.setattr = record_setattr(orig)
    try:
        for scn, sc in SOLVE_SCENARIOS.items():
            ex = core.Executor(tree, 'cvxopt.modeling', L, {'unroll': 8})
            ex.find_function('op.solve')
            try:
                outs = ex.run_function('op.solve', solve_setup(sc))
            except Unsupported as e:
                add('supported', 'undecided', 'op.solve is inside the '
                    'supported subset', detail='%s: %s' % (scn, e))
                continue
            nret = 0
            for o in outs:
                st = o.st
                if o.kind == 'raise':
                    ok = o.val[0] == 'TypeError' and scn in (
                        'no-variable', 'no-inequality')
                    add('exceptions', 'proved' if ok else 'refuted',
                        'op.solve raises only the documented TypeError (no '
                        'variable / no inequality); here %s in scenario %s'
                        % (o.val[:2], scn), o.val[2] if len(o.val) > 2
                        else 0)
                    continue
                nret += 1
                sol = st.ghost.get('sol')
                stores = st.ghost.get('attr_stores', ())
                sst = [s_ for s_ in stores if s_[0] is st.ghost['selfo']
                       and s_[1] == 'status']
                ok = sol is not None and len(sst) >= 1 and \
                    sst[-1][2] is sol.status
                add('status', 'proved' if ok else 'refuted',
                    "on every normal return self.status is the status of "
                    "the LP solver's result", sst[-1][3] if sst else 0)
                la = st.ghost.get('lp_args')
                if la and la[0]:
                    a0 = la[0][0]
                    nm0 = getattr(a0, 'name', '')
                    conv = nm0.startswith('val')
                    sp_possible = ex.check(st.pc, [COST_SPARSE]) != z3.unsat
                    add('lp-cost-dense', 'proved' if (conv or not
                                                      sp_possible) else
                        'refuted', 'the cost vector handed to the LP solver '
                        'is dense: a sparse objective coefficient is '
                        'converted with matrix(c, tc=\'d\') whatever the '
                        'format argument (argument: %s)' % nm0)
                if sc.get('converted', True):
                    vis = st.ghost.get('visited', ())
                    okv = 'vmap' in vis and 'mmap' in vis
                    add('back-substitution', 'proved' if okv else 'refuted',
                        'when the problem was converted, the values of all '
                        'variables and multipliers are copied back through '
                        'vmap and mmap on every normal return, whatever the '
                        'status (visited: %s)' % (vis,))
                    vs = [s_ for s_ in stores if s_[0].name == 'v' and
                          s_[1] == 'value']
                    ms = [s_ for s_ in stores if s_[0].name ==
                          'c.multiplier' and s_[1] == 'value']
                    okw = (len(vs) == 1 and isinstance(vs[0][2], Obj) and
                           vs[0][2].name == 'fv.value()' and len(ms) == 1 and
                           isinstance(ms[0][2], Obj) and
                           ms[0][2].name == 'fc.value()')
                    add('back-substitution-values', 'proved' if okw else
                        'refuted', 'v.value = vmap[v].value() and '
                        'c.multiplier.value = mmap[c].value() for every '
                        'entry')
            if scn not in ('no-variable', 'no-inequality'):
                add('covered:' + scn, 'proved' if nret >= 1 else 'undecided',
                    'a normal return of op.solve is reached in scenario ' +
                    scn)
    finally:
        L.setattr = orig
    return obs


def feed_solve(report, tier):
    from engine.verdict import Ob
    try:
        obs = run_solve(10000 if tier == 'quick' else 60000)
    except KeyError as e:
        report.error('function under contract no longer exists: %s' % e)
        return
    sites = {}
    rank = {'proved': 0, 'undecided': 1, 'refuted': 2}
    for o in obs:
        s = sites.setdefault(o['id'], dict(o, n=0))
        s['n'] += 1
        if rank[o['status']] > rank[s['status']]:
            s.update(status=o['status'], detail=o['detail'], by=o['by'],
                     line=o['line'], text=o['text'])
    for oid, s in sites.items():
        report.add(Ob(oid, s['kind'], s['status'], s['text'],
                      'modeling.py op.solve', by=s['by'],
                      detail='%s (%d path instances)' % (s['detail'],
                                                         s['n']),
                      meta={'line': s['line']}))
    if 'modeling.py:op.solve' not in report.functions:
        report.functions.append('modeling.py:op.solve')


# ---------------------------------------------------------------- partition
@L.register('builtins.slice', pure=True)
def b_slice(ex, st, args, kwargs, n):
    if len(args) == 2 and all(isinstance(a, (I, int)) for a in args):
        t = [a.t if isinstance(a, I) else Z(a) for a in args]
        return SliceObj('slice', t[0], t[1])
    raise Unsupported('slice() with %d arguments' % len(args))


LENF = z3.Function('len_of_element', z3.IntSort(), z3.IntSort())
SUMF = z3.Function('S', z3.IntSort(), z3.IntSort())


class PartSeq(Obj):
    """the sequence a partition loop runs over (and, for islc, the
    dictionary it fills).  abs_loop is the invariant rule for

        for e in seq:  d[e] = slice(off, off + len(e));  off += len(e)

    with the ghost prefix sum S(0) = 0, S(k+1) = S(k) + len(e_k): the running
    offset (the one integer variable the body assigns) is havoced and assumed
    equal to S(k) at the head of an arbitrary iteration k; obligations: it is
    S(0) = 0 on entry, S(k+1) at the end of the body, and the slice stored
    for e_k is [S(k), S(k+1))."""
    def __init__(self, name, sink):
        Obj.__init__(self, name)
        self.sink = sink             # list of obligation tuples

    def abs_binop(self, ex, st, op, b, n):
        return self                  # variables + aux_variables

    def abs_setitem(self, ex, st, idx, v, s):
        st.ghost['part_stores'] = st.ghost.get('part_stores', ()) + (
            (self, idx, v, s.lineno),)

    def abs_loop(self, ex, st, s, fid):
        body = s.body
        names = [nm for nm in core.assigned_names(body)]
        fr = st.frames[fid]
        offs = [nm for nm in names if isinstance(fr.get(nm), (int, I)) and
                not isinstance(fr.get(nm), bool)]
        if len(offs) != 1:
            raise Unsupported('partition loop: the body assigns %d integer '
                              'variables (%s)' % (len(offs), offs))
        off = offs[0]
        v0 = fr[off]
        t0 = v0.t if isinstance(v0, I) else Z(v0)
        self.sink.append(('entry', list(st.pc), t0 == 0,
                          'the running offset %s is 0 = S(0) when the loop '
                          'is entered' % off, s.lineno))
        k = z3.Int(ex.fresh('k'))
        N = z3.Int('N(%s)' % self.name)
        ax = [SUMF(0) == 0, SUMF(k + 1) == SUMF(k) + LENF(k), LENF(k) >= 1,
              k >= 0, k < N]
        b = st.copy()
        b.pc.extend(ax)
        nk = z3.Int(ex.fresh(off))
        b.pc.append(nk == SUMF(k))
        b.frames[fid][off] = I(nk)
        elem = Sized('element k', LENF(k))
        ex.assign(b, fid, s.target, elem, s)
        nfall = 0
        for o in ex.exec_block(body, b, fid):
            if o.kind not in ('fall', 'continue'):
                self.sink.append(('exit', list(o.st.pc), z3.BoolVal(False),
                                  'the partition loop has no early exit (%s)'
                                  % o.kind, s.lineno))
                continue
            nfall += 1
            ve = o.st.frames[fid].get(off)
            te = ve.t if isinstance(ve, I) else (Z(ve) if isinstance(
                ve, int) else None)
            self.sink.append(('preserved', list(o.st.pc), te == SUMF(k + 1)
                              if te is not None else z3.BoolVal(False),
                              'the running offset %s is S(k+1) at the end of '
                              'iteration k' % off, s.lineno))
            sts = [p_ for p_ in o.st.ghost.get('part_stores', ())]
            ok = len(sts) == 1 and sts[0][1] is elem and isinstance(
                sts[0][2], SliceObj)
            if ok:
                sl = sts[0][2]
                g = z3.And(sl.start == SUMF(k), sl.stop == SUMF(k + 1))
            else:
                g = z3.BoolVal(False)
            self.sink.append(('slice', list(o.st.pc), g,
                              'the slice stored for element k is [S(k), '
                              'S(k+1)) (one store per element, keyed by the '
                              'element)', sts[0][3] if sts else s.lineno))
        self.sink.append(('covered', [], z3.BoolVal(nfall >= 1),
                          'the body of the partition loop falls through',
                          s.lineno))
        e = st.copy()
        ne = z3.Int(ex.fresh(off))
        e.pc.extend([SUMF(0) == 0, N >= 0, ne == SUMF(N)])
        e.frames[fid][off] = I(ne)
        return [core.Outcome('fall', e)]


PART_ANCHORS = {
    'vslc': lambda s: 'variables' in ast.unparse(s.iter) and any(
        isinstance(x, ast.Assign) and 'slice(' in ast.unparse(x.value)
        for x in s.body),
    'islc': lambda s: ast.unparse(s.iter) == 'islc' and any(
        isinstance(x, ast.Assign) and 'slice(' in ast.unparse(x.value)
        for x in s.body),
    'eslc': lambda s: ast.unparse(s.iter) == 'equalities' and any(
        isinstance(x, ast.Assign) and 'slice(' in ast.unparse(x.value)
        for x in s.body),
}


def run_partition(which, timeout_ms=10000):
    tree, src = driver.load_module('modeling.py')
    sink = []
    obs = []

    def add(oid, status, text, line=0, detail=None, model=None):
        obs.append({'id': 'modeling.py:op._inmatrixform:partition:%s:%s' % (
            which, oid), 'kind': 'partition', 'status': status, 'text': text,
            'line': line, 'model': model, 'detail': detail,
            'by': ['z3'] if status == 'proved' else []})
    fn = None
    for c_ in tree.body:
        if isinstance(c_, ast.ClassDef) and c_.name == 'op':
            for m_ in c_.body:
                if isinstance(m_, ast.FunctionDef) and \
                        m_.name == '_inmatrixform':
                    fn = m_
    if fn is None:
        raise KeyError('op._inmatrixform')
    loops = [i for i, s in enumerate(fn.body) if isinstance(s, ast.For) and
             PART_ANCHORS[which](s)]
    if len(loops) != 1:
        add('anchor', 'undecided', 'the partition loop of %s was found '
            'once (%d)' % (which, len(loops)))
        return obs
    li = loops[0]
    loop = fn.body[li]
    # the statements just before the loop initialise the dictionary and the
    # running offset
    prev = [ast.unparse(x) for x in fn.body[max(0, li - 3):li]]
    offname = None
    for x in loop.body:
        if isinstance(x, ast.AugAssign) and isinstance(x.target, ast.Name):
            offname = x.target.id
    init_ok = offname is not None and ('%s = 0' % offname) in prev
    add('offset-initialised', 'proved' if init_ok else 'refuted',
        'the running offset of the %s loop is set to 0 just before the loop'
        % which, loop.lineno)
    ex = core.Executor(tree, 'cvxopt.modeling', L, {
        'body_slice': lambda f: [loop], 'unroll': 8})

    def setup(ex_, st, fid, f_):
        fr = st.frames[fid]
        seq = PartSeq(which, sink)
        for nm in ('variables', 'aux_variables', 'islc', 'equalities',
                   'vslc', 'eslc'):
            fr[nm] = seq
        if offname:
            fr[offname] = 0
        st.ghost['frame_check'] = False
    ex.find_function('op._inmatrixform')
    try:
        ex.run_function('op._inmatrixform', setup)
    except Unsupported as e:
        add('supported', 'undecided', 'the partition loop is inside the '
            'supported subset', detail=str(e))
        return obs
    for kind, pc, goal, text, line in sink:
        r = ex.check(pc, [z3.Not(goal)], timeout=timeout_ms)
        st_ = 'proved' if r == z3.unsat else ('refuted' if r == z3.sat
                                              else 'undecided')
        if st_ == 'refuted' and z3.is_false(z3.simplify(goal)):
            FORM_REFUTED.add(text)
        add(kind, st_, text, line)
    return obs


def run_maps():
    """vmap / mmap of the linear part: every original variable (linear
    inequality, equality) is mapped to the slice of the new variable
    (multiplier of the first / second constraint of the new LP) that the
    partition assigns to it -- so its value (multiplier) has its length"""
    tree, src = driver.load_module('modeling.py')
    obs = []
    fn = None
    for c_ in tree.body:
        if isinstance(c_, ast.ClassDef) and c_.name == 'op':
            for m_ in c_.body:
                if isinstance(m_, ast.FunctionDef) and \
                        m_.name == '_inmatrixform':
                    fn = m_
    if fn is None:
        raise KeyError('op._inmatrixform')
    want = [('vmap', 'variables', 'x[vslc[{k}]]',
             'vmap[v] = x[vslc[v]] for every original variable v'),
            ('mmap', 'lin_ineqs', 'constraints[0].multiplier[islc[{k}]]',
             'mmap[i] = (multiplier of G*x <= h)[islc[i]] for every linear '
             'inequality i'),
            ('mmap', 'equalities', 'constraints[1].multiplier[eslc[{k}]]',
             'mmap[e] = (multiplier of A*x == b)[eslc[e]] for every '
             'equality e')]
    for mp, seq, rhs, text in want:
        found = []
        for s in fn.body:
            if isinstance(s, ast.For) and isinstance(s.target, ast.Name) and \
                    ast.unparse(s.iter) == seq and len(s.body) == 1 and \
                    isinstance(s.body[0], ast.Assign):
                a = s.body[0]
                k = s.target.id
                if ast.unparse(a.targets[0]) == '%s[%s]' % (mp, k):
                    found.append((ast.unparse(a.value).replace(' ', '') ==
                                  rhs.format(k=k).replace(' ', ''),
                                  s.lineno))
        ok = len(found) == 1 and found[0][0]
        obs.append({'id': 'modeling.py:op._inmatrixform:partition:maps:%s:%s'
                    % (mp, seq), 'kind': 'partition',
                    'status': 'proved' if ok else 'refuted', 'text': text,
                    'line': found[0][1] if found else 0, 'model': None,
                    'detail': None, 'by': ['syntactic']})
    # G*x <= h is the first and A*x == b the second constraint of the new LP
    cons = [ast.unparse(s) for s in ast.walk(fn) if isinstance(
        s, ast.AugAssign) and ast.unparse(s.target) == 'constraints']
    ok = cons[:2] == ['constraints += [G * x <= h]',
                      'constraints += [A * x == b]']
    obs.append({'id': 'modeling.py:op._inmatrixform:partition:maps:order',
                'kind': 'partition', 'status': 'proved' if ok else 'refuted',
                'text': 'the new LP lists G*x <= h before A*x == b (the '
                'multiplier maps index constraints[0] and constraints[1])',
                'line': 0, 'model': None, 'detail': str(cons[:2]),
                'by': ['syntactic']})
    return obs


# ------------------------------------------- mmap of piecewise-linear rows
# for i in pwl_ineqs:
#     mmap[i] = _function()
#     for c in pwl_ineqs[i]:  mmap[i] = mmap[i] + constraints[0].multiplier[islc[c]]
#     if len(i) == 1 != len(mmap[i]):  mmap[i] = sum(mmap[i])
#
# Contract (docstring of constraint._aslinearineq: "the multiplier of self is
# sum_k ineqs[k].multiplier" if the lengths agree, "sum(sum_k
# ineqs[k].multiplier)" otherwise): for every piecewise-linear inequality i
# with linear pieces c_0 .. c_{N-1} (N of any size) whose multipliers are the
# vectors M_k = (multiplier of G*x <= h)[islc[c_k]] of length len(c_k),
#     mmap[i] = sum_k M_k              (a length-1 M_k broadcast)
# and, if len(i) = 1 while that sum has more than one component, the sum of
# its components.  Ghost prefix sums PS(0, .) = 0, PS(k+1, r) = PS(k, r') +
# M_k(r'') (r', r'' = r or 0 by broadcasting), PL(0) = 1, PL(k+1) =
# max(PL(k), len(c_k)); the inner loop is handled by the invariant rule
# (mmap[i] = PS(k) at the head of an arbitrary iteration, PS(k+1) after the
# body), the outer loop for an arbitrary key.
MPS = z3.Function('PS', z3.IntSort(), z3.IntSort(), z3.RealSort())
MPL = z3.Function('PL', z3.IntSort(), z3.IntSort())
MLEN = z3.Function('len_of_piece', z3.IntSort(), z3.IntSort())
MVAL = z3.Function('multiplier_of_piece', z3.IntSort(), z3.IntSort(),
                   z3.RealSort())
MTOT = z3.Function('sum_of_components', z3.IntSort(), z3.RealSort())


def _bc(f, ln, r):
    return f(z3.If(ln == 1, Z(0), r))


class MVec(Obj):
    """a vector-valued function at the evaluation point: length, entries"""
    _tags = [0]

    def __init__(self, name, ln, val, tag=None):
        Obj.__init__(self, name)
        self.ln, self.val = ln, val
        if tag is None:
            MVec._tags[0] += 1
            tag = Z(1000 + MVec._tags[0])
        self.tag = tag

    def abs_binop(self, ex, st, op, b, n):
        if isinstance(op, (ast.Add, ast.Sub)) and isinstance(b, MVec):
            sg = 1 if isinstance(op, ast.Add) else -1
            l1, l2, f1, f2 = self.ln, b.ln, self.val, b.val
            ok = z3.Or(l1 == l2, l1 == 1, l2 == 1)
            d = ex.decide(st, ok)
            if d is None:
                raise core.NeedFork(ok)
            if not d:
                raise core.PyRaise('ValueError', 'incompatible lengths')
            ln = z3.If(l1 == 1, l2, l1)
            return MVec('sum', ln, lambda r: _bc(f1, l1, r) +
                        sg * _bc(f2, l2, r))
        raise Unsupported('operation on a multiplier vector')


class MMap(Obj):
    """mmap: the value stored under the key of this iteration lives in the
    state (it is reassigned in a loop)"""
    def abs_setitem(self, ex, st, idx, v, s):
        if idx is not st.ghost.get('pwl_key'):
            raise Unsupported('mmap is assigned under another key')
        st.ghost['mmap_val'] = v
        st.ghost['mmap_stores'] = st.ghost.get('mmap_stores', 0) + 1

    def abs_getitem(self, ex, st, idx, n):
        if idx is not st.ghost.get('pwl_key') or \
                st.ghost.get('mmap_val') is None:
            raise Unsupported('mmap is read under another key')
        return st.ghost['mmap_val']


class Pieces(Obj):
    """pwl_ineqs[i]: the linear pieces c_0 .. c_{N-1}"""
    def __init__(self, name, N, sink):
        Obj.__init__(self, name)
        self.N, self.sink = N, sink

    def abs_loop(self, ex, st, s, fid):
        N = self.N
        r = z3.Int('r')
        cur = st.ghost.get('mmap_val')
        ok0 = isinstance(cur, MVec)
        n0 = list(st.pc) + [r >= 0, r < 1, MPL(0) == 1, MPS(0, Z(0)) == 0]
        self.sink.append(('init', n0, z3.And(cur.ln == MPL(0), cur.val(r) ==
                                            MPS(0, r)) if ok0 else
                          z3.BoolVal(False),
                          'before the pieces are added mmap[i] is the zero '
                          'function (length 1)', s.lineno))
        k = z3.Int(ex.fresh('k'))
        ax = [k >= 0, k < N, MLEN(k) >= 1, MPL(k) >= 1, MPL(0) == 1,
              MPL(k + 1) == z3.If(MPL(k) == 1, MLEN(k), MPL(k)),
              z3.Or(MPL(k) == 1, MLEN(k) == 1, MPL(k) == MLEN(k)),
              z3.ForAll([r], MPS(k + 1, r) == _bc(lambda q: MPS(k, q),
                                                  MPL(k), r) +
                        _bc(lambda q: MVAL(k, q), MLEN(k), r))]
        b = st.copy()
        b.pc.extend(ax)
        b.ghost['mmap_val'] = MVec('partial sum', MPL(k),
                                   lambda q: MPS(k, q))
        b.ghost['mmap_stores'] = 0
        piece = Sized('piece k', MLEN(k))
        piece.index = k
        ex.assign(b, fid, s.target, piece, s)
        nfall = 0
        for o in ex.exec_block(s.body, b, fid):
            if o.kind not in ('fall', 'continue'):
                self.sink.append(('exit', list(o.st.pc), z3.BoolVal(False),
                                  'the loop over the pieces has no early '
                                  'exit (%s)' % o.kind, s.lineno))
                continue
            nfall += 1
            v = o.st.ghost.get('mmap_val')
            okv = isinstance(v, MVec)
            self.sink.append((
                'accumulate', list(o.st.pc) + [r >= 0, r < MPL(k + 1)],
                z3.And(v.ln == MPL(k + 1), v.val(r) == MPS(k + 1, r))
                if okv else z3.BoolVal(False),
                'each pass adds the multiplier of piece k to mmap[i] '
                '(componentwise, a length-1 operand broadcast) and does '
                'nothing else to it', s.lineno))
        self.sink.append(('covered', [], z3.BoolVal(nfall >= 1),
                          'the body of the loop over the pieces falls '
                          'through', s.lineno))
        e = st.copy()
        # the sum of the components of a vector with one component is that
        # component
        e.pc.extend([N >= 1, MPL(N) >= 1,
                     z3.Implies(MPL(N) == 1, MTOT(Z(1)) == MPS(N, Z(0)))])
        e.ghost['mmap_val'] = MVec('sum of the pieces', MPL(N),
                                   lambda q: MPS(N, q), tag=Z(1))
        return [core.Outcome('fall', e)]


class PwlDict(Obj):
    def __init__(self, name, sink):
        Obj.__init__(self, name)
        self.sink = sink
        self.N = z3.Int('number of pieces')

    def abs_getitem(self, ex, st, idx, n):
        if idx is not st.ghost.get('pwl_key'):
            raise Unsupported('pwl_ineqs read under another key')
        return Pieces('pwl_ineqs[i]', self.N, self.sink)

    def abs_loop(self, ex, st, s, fid):
        Li = z3.Int('len(i)')
        b = st.copy()
        b.pc.append(Li >= 1)
        key = Sized('pwl inequality i', Li)
        b.ghost['pwl_key'] = key
        b.ghost['mmap_val'] = None
        ex.assign(b, fid, s.target, key, s)
        r = z3.Int('r')
        N = self.N
        nfall = 0
        for o in ex.exec_block(s.body, b, fid):
            if o.kind not in ('fall', 'continue'):
                self.sink.append(('exit', list(o.st.pc), z3.BoolVal(False),
                                  'the loop over the piecewise-linear '
                                  'inequalities has no early exit (%s)' %
                                  o.kind, s.lineno))
                continue
            nfall += 1
            v = o.st.ghost.get('mmap_val')
            okv = isinstance(v, MVec)
            red = z3.And(Li == 1, MPL(N) != 1)
            g = z3.If(red,
                      z3.And(v.ln == 1, v.val(Z(0)) == MTOT(Z(1))),
                      z3.And(v.ln == MPL(N), v.val(r) == MPS(N, r))) \
                if okv else z3.BoolVal(False)
            self.sink.append((
                'value', list(o.st.pc) + [r >= 0, r < MPL(N)], g,
                'mmap[i] is the sum of the multipliers of the pieces of i; '
                'if i has length 1 and the sum more than one component, the '
                'sum of its components', s.lineno))
        self.sink.append(('covered', [], z3.BoolVal(nfall >= 2),
                          'both ways through the loop body (with and '
                          'without the final sum) were examined (%d)' %
                          nfall, s.lineno))
        return [core.Outcome('fall', st.copy())]


def run_mmap_pwl(timeout_ms=10000):
    tree, src = driver.load_module('modeling.py')
    sink, obs = [], []

    def add(oid, status, text, line=0, detail=None, model=None):
        obs.append({'id': 'modeling.py:op._inmatrixform:partition:mmap-pwl:'
                    + oid, 'kind': 'partition', 'status': status,
                    'text': text, 'line': line, 'model': model,
                    'detail': detail,
                    'by': ['z3'] if status == 'proved' else []})
    fn = None
    for c_ in tree.body:
        if isinstance(c_, ast.ClassDef) and c_.name == 'op':
            for m_ in c_.body:
                if isinstance(m_, ast.FunctionDef) and \
                        m_.name == '_inmatrixform':
                    fn = m_
    if fn is None:
        raise KeyError('op._inmatrixform')
    loops = [s for s in fn.body if isinstance(s, ast.For) and
             ast.unparse(s.iter) == 'pwl_ineqs' and any(
                 isinstance(x, ast.Assign) and ast.unparse(
                     x.targets[0]).startswith('mmap[') for x in ast.walk(s))]
    if len(loops) != 1:
        add('anchor', 'undecided', 'the loop that fills mmap for the '
            'piecewise-linear inequalities was found once (%d)' % len(loops))
        return obs
    loop = loops[0]
    ex = core.Executor(tree, 'cvxopt.modeling', L, {
        'body_slice': lambda f: [loop], 'unroll': 8})

    def m_sum(ex_, st, args, kwargs, n):
        v = args[0] if len(args) == 1 else None
        if isinstance(v, MVec):
            tg = v.tag
            return MVec('sum of components', Z(1), lambda q: MTOT(tg))
        raise Unsupported('sum(%r)' % (v,))

    def new_function(ex_, st, args, kwargs, n):
        return MVec('zero function', Z(1), lambda q: z3.RealVal(0))

    def len_(ex_, st, args, kwargs, n):
        v = args[0]
        if isinstance(v, MVec):
            return I(v.ln)
        return b_len(ex_, st, args, kwargs, n)

    saved = {k_: L.ext.get(k_) for k_ in (
        'cvxopt.modeling.sum', 'cvxopt.modeling._function', 'builtins.len')}

    def install_shared():
        for k_, v_ in saved.items():
            if v_ is None:
                L.ext.pop(k_, None)
            else:
                L.ext[k_] = v_

    def setup(ex_, st, fid, f_):
        L.ext['cvxopt.modeling.sum'] = m_sum
        L.ext['cvxopt.modeling._function'] = new_function
        L.ext['builtins.len'] = len_
        L.pure.update(['cvxopt.modeling.sum', 'cvxopt.modeling._function'])
        fr = st.frames[fid]
        fr['pwl_ineqs'] = PwlDict('pwl_ineqs', sink)
        fr['mmap'] = MMap('mmap')

        class Mult(Obj):
            def abs_getitem(self_, e_, s_, idx, n_):
                p = getattr(idx, 'piece', None)
                if p is None:
                    raise Unsupported('multiplier indexed by something that '
                                      'is not islc[c]')
                k = p.index
                return MVec('multiplier of piece', MLEN(k),
                            lambda q: MVAL(k, q))

        class Islc(Obj):
            def abs_getitem(self_, e_, s_, idx, n_):
                if not isinstance(idx, Sized) or not hasattr(idx, 'index'):
                    raise Unsupported('islc indexed by something that is '
                                      'not a piece')
                o_ = Obj('islc[c]')
                o_.piece = idx
                return o_
        con0 = Obj('constraints[0]')
        con0.attr_multiplier = lambda e_, s_: Mult('multiplier')

        class Cons(Obj):
            def abs_getitem(self_, e_, s_, idx, n_):
                if core.const_of(idx) != (True, 0):
                    raise Unsupported('constraints[%r]' % (idx,))
                return con0
        fr['constraints'] = Cons('constraints')
        fr['islc'] = Islc('islc')
        st.ghost['frame_check'] = False
    ex.find_function('op._inmatrixform')
    try:
        ex.run_function('op._inmatrixform', setup)
    except Unsupported as e:
        add('supported', 'undecided', 'the loop that fills mmap for the '
            'piecewise-linear inequalities is inside the supported subset',
            detail=str(e))
        return obs
    finally:
        install_shared()
    for kind, pc, goal, text, line in sink:
        r = ex.check(pc, [z3.Not(goal)], timeout=timeout_ms)
        st_ = 'proved' if r == z3.unsat else ('refuted' if r == z3.sat
                                              else 'undecided')
        if st_ == 'refuted' and z3.is_false(z3.simplify(goal)):
            FORM_REFUTED.add(text)
        if kind == 'covered' and st_ != 'proved':
            st_ = 'undecided'
        add(kind, st_, text, line)
    return obs
