"""C11: sum(f) and f[key] for a _function f -- the two operations that take a
vector-valued function apart.

The real bodies of `modeling.sum` and `_function.__getitem__` are executed by
pyvc over an abstract view of f at an arbitrary evaluation point:

    f = constant + linear + sum(convex terms) + sum(concave terms),  len(f) = lg
    constant     a vector of length lc in {1, lg} with entries c(i)
    linear       a vector of length ll in {1, lg} with entries l(i)
    terms        two sequences of symbolic length; term k is a vector of
                 length tl(k) in {1, lg} with entries g(k, i) (convex) resp.
                 h(k, i) (concave).  A part of length 1 is broadcast.

Class invariant of _function taken as precondition (it is what the comments
in the code state: "type(c) must be _minmax if len(c) > 1", "fk is defined as
fk = sum(fmax)"): a term is either a `_minmax` -- the componentwise max (in
the convex list) resp. min (concave list) of the functions `_flist` -- or a
`_sum_minmax` of length 1, the sum over the components of that `_minmax`.

Contract of sum (property: "sum ... f.value() equals the formula"):
    the result has a constant of length 1 equal to  sum_i c(i)  (lg c(0) for a
    broadcast constant), the same for the linear part, and for every term k of
    either list exactly one term, in the list of the same curvature, of length
    1 and value  sum_i g(k, i)  (lg g(k, 0) if the term is broadcast); for a
    `_minmax` term this sum is the `_sum_minmax` of the same kind over the
    same `_flist`.
Contract of f[key], l = _keytolist(key, lg) (assumed: a list of len(l)
indices in [0, lg); an empty list is refused with ValueError):
    the result's constant is c(l(i)) for i < len(l) (or the broadcast
    constant unchanged), the same for the linear part, and for every term k
    the terms appended to the list of the same curvature are: the term itself
    (copied) if it is broadcast, the term indexed by l if it is a `_minmax`,
    and for a `_sum_minmax` (lg = 1) the components of the `_minmax` of the
    same kind over the same `_flist`, each indexed by l.
Both return a new function and leave f alone.
"""
import ast, z3
from engine.pyvc import driver, core
from engine.pyvc.core import (Dyn, Ref, R, B, I, Ext, Unknown, Unsupported,
                              NeedFork, PyRaise, const_of, Outcome)
from contracts.py.extern_cvxopt import LIB as L

# texts of obligations that were refuted because the code is not of the
# documented FORM (the goal was the constant false: no counter-model), as
# opposed to a condition that z3 refuted with values
FORM_REFUTED = set()

Z = z3.IntVal
RS, IS, BS = z3.RealSort(), z3.IntSort(), z3.BoolSort()
# the value of  sum(_minmax(name, *flist))  and of the components of
# _minmax(name, *flist): uninterpreted in (is max?, identity of the flist)
SMM = z3.Function('sum_minmax', BS, IS, RS)
COMP = z3.Function('minmax_component', BS, IS, IS, IS, RS)
NCOMP = z3.Function('minmax_length', BS, IS, IS)
CLS_MM, CLS_SMM = 0, 1


def num_of(v):
    if isinstance(v, bool):
        return None
    if isinstance(v, int):
        return z3.IntVal(v)
    if isinstance(v, float):
        return z3.RealVal(v)
    if isinstance(v, (R, I)):
        return v.t
    return None


class Vec:
    """a vector-valued part (constant, linear part or nonlinear term)"""
    abs_object = True

    def __init__(self, kind, ln, val, sig=None, **kw):
        self.kind, self.ln, self.val, self.sig = kind, ln, val, sig
        self.cls = self.ismax = self.fl = None
        self.src = None
        self.__dict__.update(kw)

    def abs_truth(self, ex, st):
        return self.ln > 0          # __len__ of matrix / _lin / term

    def abs_unop(self, ex, st, op, n):
        if isinstance(op, ast.UAdd):
            return Vec(self.kind, self.ln, self.val, copy_of=self)
        raise Unsupported('unary operation on a part')

    def abs_rbinop(self, ex, st, op, a, n):
        s = num_of(a)
        if isinstance(op, ast.Mult) and s is not None:
            f = self.val
            s = z3.ToReal(s) if s.sort() == IS else s
            return Vec(self.kind, self.ln, lambda i: s * f(i))
        raise Unsupported('operation on a part')

    def abs_binop(self, ex, st, op, b, n):
        return self.abs_rbinop(ex, st, op, b, n)

    def abs_getitem(self, ex, st, idx, n):
        if isinstance(idx, IdxList):
            f, l = self.val, idx
            return Vec(self.kind, l.n, lambda i: f(l.at(i)),
                       indexed=(self, idx))
        c, k = const_of(idx)
        if c and isinstance(k, int) and k >= 0:
            return R(self.val(Z(k)))
        raise Unsupported('item of a part')

    def abs_getattr(self, ex, st, attr, n):
        if attr == '_flist' and self.kind == 'term' and self.fl is not None:
            return FList(self.fl)
        return core.NOTFOUND


class FList:
    abs_object = True

    def __init__(self, fl):
        self.fl = fl

    abs_star = True


class MMObj:
    """_minmax(name, *flist)"""
    abs_object = True

    def __init__(self, ismax, fl):
        self.ismax, self.fl = ismax, fl

    def abs_comp(self, ex, st, n, g, fid):
        if g.ifs or not isinstance(g.target, ast.Name):
            raise Unsupported('comprehension over a _minmax')
        j = z3.Int('j!')
        mm = self
        el = Vec('term', Z(1), lambda i: COMP(mm.ismax, mm.fl, j, i))
        el.comp_of = (mm, j)
        nf = next(ex.fid)
        st.frames[nf] = {g.target.id: el}
        st.parent[nf] = fid
        try:
            v = ex.ev(n.elt, st, nf)
        finally:
            st.frames.pop(nf, None)
        if not isinstance(v, Vec):
            raise Unsupported('comprehension does not build terms')
        return Blk(mm, j, v)


class Blk:
    """[elt(gk) for gk in _minmax(...)]: a list of terms, one per component"""
    abs_object = True

    def __init__(self, mm, j, elt):
        self.mm, self.j, self.elt = mm, j, elt


class Acc:
    """a list of terms under construction.  It is a mutable object: `+=`
    extends it in place, whatever name or attribute it is reached through;
    the segments appended so far are kept in the state (ghost['acc'])"""
    abs_object = True
    _ids = [0]

    def __init__(self):
        Acc._ids[0] += 1
        self.id = Acc._ids[0]

    def segs(self, st):
        return st.ghost.get('acc', {}).get(self.id, ())

    def set(self, st, segs):
        st.ghost['acc'] = dict(st.ghost.get('acc', {}))
        st.ghost['acc'][self.id] = tuple(segs)

    def _items(self, st, b):
        if isinstance(b, Blk):
            return (('blk', b),)
        if isinstance(b, Ref) and st.heap[b.oid].kind == 'list' and \
                'items' in st.heap[b.oid].f:
            its = st.heap[b.oid].f['items']
            if all(isinstance(x, Vec) for x in its):
                return tuple(('one', x) for x in its)
        raise Unsupported('appending something that is not a list of terms')

    def abs_inplace(self, ex, st, op, b, n):
        if not isinstance(op, ast.Add):
            raise Unsupported('operation on a list of terms')
        self.set(st, self.segs(st) + self._items(st, b))
        return self

    def abs_binop(self, ex, st, op, b, n):
        if not isinstance(op, ast.Add):
            raise Unsupported('operation on a list of terms')
        r = Acc()
        r.set(st, self.segs(st) + self._items(st, b))
        return r

    def abs_truth(self, ex, st):
        raise Unsupported('truth of a list under construction')


class IdxList:
    """l = _keytolist(key, lg)"""
    abs_object = True

    def __init__(self, n, f):
        self.n, self.f = n, f

    def at(self, i):
        return self.f(i)

    def abs_truth(self, ex, st):
        return self.n > 0


class TypeTag:
    abs_object = True

    def __init__(self, v):
        self.v = v

    def abs_is(self, ex, st, o):
        if isinstance(o, Ext) and self.v.cls is not None:
            if o.name == 'cvxopt.modeling._minmax':
                return self.v.cls == CLS_MM
            if o.name == 'cvxopt.modeling._sum_minmax':
                return self.v.cls == CLS_SMM
        raise Unsupported('type test of a term')

    abs_eq = abs_is


class VSeq:
    """one of the two term lists of the argument (read only)"""
    abs_object = True

    def __init__(self, name, n, tl, g, ismax, fl, sig):
        self.name, self.n, self.tl, self.g = name, n, tl, g
        self.ismax, self.fl, self.sig = ismax, fl, sig
        self.cls = z3.Function('class of ' + name, IS, IS)

    def elem(self, k):
        g = self.g
        return Vec('term', self.tl(k), lambda i: g(k, i), sig=self.sig(k),
                   cls=self.cls(k), ismax=z3.BoolVal(self.ismax),
                   fl=self.fl(k), src=(self, k))

    def invariant(self, k, lg):
        """class invariant of _function for term k (see module comment)"""
        if getattr(self, 'inv_fn', None) is not None:
            return self.inv_fn(k, lg)
        return [z3.Or(self.tl(k) == 1, self.tl(k) == lg),
                z3.Or(self.cls(k) == CLS_MM, self.cls(k) == CLS_SMM),
                z3.Implies(self.cls(k) == CLS_SMM, self.tl(k) == 1),
                # the sum over the components of a _minmax term is the
                # _sum_minmax of the same kind over the same functions
                z3.Implies(self.cls(k) == CLS_MM, self.sig(k) == SMM(
                    z3.BoolVal(self.ismax), self.fl(k))),
                z3.Implies(self.tl(k) == 1, self.sig(k) == self.g(k, Z(0)))]

    def abs_truth(self, ex, st):
        return self.n > 0

    def abs_getitem(self, ex, st, idx, n):
        c, k = const_of(idx)
        if c and isinstance(k, int) and k >= 0:
            if ex.decide(st, self.n > k) is not True:
                raise Unsupported('element %d of a possibly shorter list' % k)
            return self.elem(Z(k))
        raise Unsupported('item of a list of functions')

    def abs_loop(self, ex, st, s, fid):
        k = z3.Int(ex.fresh('k'))
        b = st.copy()
        b.pc += [k >= 0, k < self.n] + self.invariant(k, st.ghost['lg'])
        el = self.elem(k)
        ex.assign(b, fid, s.target, el, s)
        battrs = dict(b.ghost['attrs'])
        bacc = dict(b.ghost.get('acc', {}))
        owner = {v.id: a for a, v in battrs.items() if isinstance(v, Acc)}
        changed = set()
        for o in ex.exec_block(s.body, b, fid):
            if o.kind not in ('fall', 'continue'):
                raise Unsupported('early exit from a loop over terms')
            after = o.st.ghost['attrs']
            for a in after:
                if after[a] is not battrs.get(a):
                    raise Unsupported('the loop over %s assigns %s' % (
                        self.name, a))
            aacc = o.st.ghost.get('acc', {})
            ch = []
            for i_, sg in aacc.items():
                old = bacc.get(i_, ())
                if sg != old:
                    if i_ not in owner or sg[:len(old)] != old:
                        raise Unsupported('the loop over %s changes a list '
                                          'other than by appending to a '
                                          'term list of the result' %
                                          self.name)
                    ch.append(owner[i_])
            if len(ch) > 1:
                raise Unsupported('the loop over %s appends to two lists' %
                                  self.name)
            changed.update(ch)
            segs = aacc[battrs[ch[0]].id][len(bacc.get(
                battrs[ch[0]].id, ())):] if ch else ()
            st.ghost['iteration_spec'](ex, o.st, self, k, el, ch[0] if ch
                                       else None, segs, s)
            ex.orphans = getattr(ex, 'orphans', [])
            ex.orphans.extend(o.st.obligs)
        e = st.copy()
        for a in changed:
            acc = battrs[a]
            acc.set(e, acc.segs(e) + (('mapped', self),))
        return [Outcome('fall', e)]


class FArg:
    """the argument function (read only)"""
    abs_object = True

    def __init__(self, lg, parts):
        self.lg, self.parts = lg, parts

    def abs_getattr(self, ex, st, attr, n):
        if attr in self.parts:
            return self.parts[attr]
        return core.NOTFOUND


class FNew:
    """f = _function(): the function under construction"""
    abs_object = True

    def abs_getattr(self, ex, st, attr, n):
        at = st.ghost.get('attrs', {})
        if attr in at:
            return at[attr]
        return core.NOTFOUND


def setattr_rec(orig):
    def f(ex, st, base, attr, v, s):
        if isinstance(base, FNew):
            st.ghost['attrs'] = dict(st.ghost.get('attrs', {}))
            st.ghost['attrs'][attr] = v
            return
        if isinstance(base, (FArg, Vec, VSeq, MMArg)):
            ex.oblige(st, 'index-frame', z3.BoolVal(False), s,
                      'the argument function is not modified (attribute %s '
                      'assigned)' % attr, extra={'prop': 'C11'})
            return
        return orig(ex, st, base, attr, v, s)
    f._function_index_spec = True
    return f


_len0 = L.ext.get('builtins.len')
_type0 = L.ext.get('builtins.type')


def b_len(ex, st, args, kwargs, n):
    v = args[0]
    if isinstance(v, FArg):
        return I(v.lg)
    if isinstance(v, (Vec, IdxList)):
        return I(v.ln if isinstance(v, Vec) else v.n)
    if isinstance(v, VSeq):
        return I(v.n)
    if isinstance(v, MMArg):
        return I(v.lg)
    return _len0(ex, st, args, kwargs, n)


_list0 = L.ext.get('builtins.list')


def b_list(ex, st, args, kwargs, n):
    # list(f): the components f[0], ..., f[len(f)-1] (each of length 1)
    if len(args) == 1 and isinstance(args[0], Vec) and \
            args[0].src is not None:
        v = args[0]
        seq, k0 = v.src
        comps = VSeq('components of %s[%s]' % (seq.name, k0), v.ln,
                     lambda k: Z(1), lambda k, i: seq.g(k0, k), seq.ismax,
                     lambda k: Z(0), lambda k: seq.g(k0, k))
        comps.inv_fn = lambda k, lg: []
        comps.comps_of = (seq, k0)
        return comps
    return _list0(ex, st, args, kwargs, n)


def b_type(ex, st, args, kwargs, n):
    if len(args) == 1 and isinstance(args[0], FArg):
        return Ext('cvxopt.modeling._function')
    if len(args) == 1 and isinstance(args[0], Vec):
        if args[0].kind == 'term':
            return TypeTag(args[0])
        return Ext('cvxopt.base.matrix' if args[0].kind == 'const' else
                   'cvxopt.modeling._lin')
    return _type0(ex, st, args, kwargs, n)


def new_function(ex, st, args, kwargs, n):
    if args or kwargs:
        raise Unsupported('_function(...) with arguments')
    new = FNew()
    st.ghost['news'] = st.ghost.get('news', 0) + 1
    st.ghost['new'] = new
    st.ghost['attrs'] = {
        '_constant': Vec('const', Z(1), lambda i: z3.RealVal(0),
                         default=True),
        '_linear': Vec('lin', Z(1), lambda i: z3.RealVal(0), default=True),
        '_cvxterms': Acc(), '_ccvterms': Acc()}
    return new


def b_sum(ex, st, args, kwargs, n):
    # builtins.sum of a matrix / of a _lin: the sum of its entries
    v = args[0] if len(args) == 1 else None
    if isinstance(v, Vec) and v.kind in ('const', 'lin') and \
            v.sig is not None:
        sg = v.sig
        if v.kind == 'const':
            return R(sg)                 # a float
        return Vec('lin', Z(1), lambda i: sg)
    raise Unsupported('builtins.sum(%r)' % (v,))


def m_matrix(ex, st, args, kwargs, n):
    a = num_of(args[0]) if args else None
    if a is not None and len(args) == 1 and set(kwargs) <= {'tc'}:
        return Vec('const', Z(1), lambda i: a)
    raise Unsupported('matrix(%r)' % (args,))


class MMArg:
    """self in _minmax.__getitem__ (read only)"""
    abs_object = True

    def __init__(self, lg, flist, ismax):
        self.lg, self.flist, self.ismax = lg, flist, ismax

    def abs_getattr(self, ex, st, attr, n):
        if attr == '_flist':
            return self.flist
        if attr == '_ismax':
            return B(self.ismax)
        return core.NOTFOUND


def mk_minmax(ex, st, args, kwargs, n):
    c, nm = const_of(args[0]) if args else (False, None)
    if c and nm in ('max', 'min') and len(args) == 1 and not kwargs:
        new = FNew()
        st.ghost['news'] = st.ghost.get('news', 0) + 1
        st.ghost['new'] = new
        st.ghost['newname'] = nm
        st.ghost['attrs'] = {'_flist': Acc()}
        return new
    if c and nm in ('max', 'min') and len(args) == 2 and isinstance(
            args[1], FList):
        return MMObj(z3.BoolVal(nm == 'max'), args[1].fl)
    raise Unsupported('_minmax(%r)' % (args,))


def mk_sum_minmax(ex, st, args, kwargs, n):
    c, nm = const_of(args[0]) if args else (False, None)
    if c and nm in ('max', 'min') and len(args) == 2 and isinstance(
            args[1], FList):
        im, fl = z3.BoolVal(nm == 'max'), args[1].fl
        return Vec('term', Z(1), lambda i: SMM(im, fl), cls=Z(CLS_SMM),
                   ismax=im, fl=fl)
    raise Unsupported('_sum_minmax(%r)' % (args,))


def keytolist(ex, st, args, kwargs, n):
    lg = st.ghost['lg']
    nl = z3.Int('len(l)')
    lf = z3.Function('l', IS, IS)
    i = z3.Int('i_l')
    st.pc += [nl >= 0, z3.ForAll([i], z3.And(lf(i) >= 0, lf(i) < lg))]
    st.ghost['l'] = IdxList(nl, lambda j: lf(j))
    return st.ghost['l']


def m_sum(ex, st, args, kwargs, n):
    # the inner calls sum(s._constant), sum(s._linear): the argument is not a
    # _function, so modeling.sum is builtins.sum (its own last line)
    return b_sum(ex, st, args, kwargs, n)


_MINE = {'builtins.len': b_len, 'cvxopt.modeling.sum': m_sum,
         'builtins.list': b_list, 'builtins.type': b_type,
         'builtins.sum': b_sum, 'cvxopt.modeling._function': new_function,
         'cvxopt.modeling.matrix': m_matrix,
         'cvxopt.modeling._minmax': mk_minmax,
         'cvxopt.modeling._sum_minmax': mk_sum_minmax,
         'cvxopt.modeling._keytolist': keytolist}


def install():
    """several spec modules share one library object in a worker process"""
    L.ext.update(_MINE)
    L.pure.update(_MINE)
    if not getattr(L.setattr, '_function_index_spec', False):
        L.setattr = setattr_rec(L.setattr)


def setup_for(which):
    def setup(ex, st, fid, fn):
        install()
        fr = st.frames[fid]
        lg = z3.Int('len(f)')
        lc, ll = z3.Int('len(constant)'), z3.Int('len(linear)')
        cf = z3.Function('c', IS, RS)
        lf = z3.Function('lin', IS, RS)
        st.pc += [lg >= 1, z3.Or(lc == 1, lc == lg), z3.Or(ll == 1, ll == lg)]
        sc, sl = z3.Real('sum of constant'), z3.Real('sum of linear')
        st.pc += [z3.Implies(lc == 1, sc == cf(Z(0))),
                  z3.Implies(ll == 1, sl == lf(Z(0)))]
        seqs = {}
        for nm, ismax in (('_cvxterms', True), ('_ccvterms', False)):
            n_ = z3.Int('number of ' + nm)
            st.pc.append(n_ >= 0)
            seqs[nm] = VSeq(nm, n_, z3.Function('len of ' + nm, IS, IS),
                            z3.Function('value of ' + nm, IS, IS, RS), ismax,
                            z3.Function('flist of ' + nm, IS, IS),
                            z3.Function('sum of ' + nm, IS, RS))
        arg = FArg(lg, {
            '_constant': Vec('const', lc, lambda i: cf(i), sig=sc),
            '_linear': Vec('lin', ll, lambda i: lf(i), sig=sl),
            '_cvxterms': seqs['_cvxterms'], '_ccvterms': seqs['_ccvterms']})
        st.ghost.update({'lg': lg, 'arg': arg, 'init': (lg, lc, ll, cf, lf,
                                                       sc, sl, seqs),
                         'frame_check': False,
                         'iteration_spec': ITER_SPEC[which]})
        fr['matrix'] = Ext('cvxopt.modeling.matrix')
        if which == 'sum':
            fr['s'] = arg
        else:
            fr['self'] = arg
            fr['key'] = Unknown('key')
    return setup


def mm_setup(sc):
    def setup(ex, st, fid, fn):
        install()
        fr = st.frames[fid]
        lg = z3.Int('len(f)')
        nf = z3.Int('number of functions')
        ismax = z3.Bool('is max')
        tl = z3.Function('len of function', IS, IS)
        g = z3.Function('value of function', IS, IS, RS)
        fl = VSeq('_flist', nf, tl, g, True, z3.Function('fl_', IS, IS),
                  z3.Function('sig_', IS, RS))
        # _minmax: one function (the max over its components, length 1) or
        # several of length 1 or len(f)
        fl.inv_fn = lambda k, lg_: [z3.Or(tl(k) == 1, tl(k) == lg_)]
        st.pc += [lg >= 1, nf >= 1, tl(Z(0)) >= 1,
                  z3.Implies(nf == 1, lg == 1)]
        arg = MMArg(lg, fl, ismax)
        st.ghost.update({'lg': lg, 'arg': arg, 'init': (lg, nf, ismax, tl, g,
                                                       fl),
                         'frame_check': False,
                         'iteration_spec': mm_iteration})
        fr['self'] = arg
        fr['key'] = Unknown('key')
    return setup


def mm_iteration(ex, st, seq, k, el, attr, segs, s):
    lg, l = st.ghost['lg'], st.ghost['l']
    P = {'prop': 'C11'}
    i = z3.Int('i')
    ok = attr == '_flist' and len(segs) == 1 and segs[0][0] == 'one'
    ex.oblige(st, 'index-terms', z3.BoolVal(ok), s,
              'max/min[key]: every function of the list contributes exactly '
              'one function to the new list (appended to %s: %d)' % (
                  attr, len(segs)), extra=P)
    if not ok:
        return
    v = segs[0][1]
    bc = z3.And(seq.tl(k) == 1, lg != 1)
    n0 = len(st.pc)
    st.pc += [i >= 0, i < l.n]
    ex.oblige(st, 'index-value', z3.If(
        bc, z3.And(v.ln == 1, v.val(Z(0)) == seq.g(k, Z(0))),
        z3.And(v.ln == l.n, v.val(i) == seq.g(k, l.at(i)))), s,
        'max/min[key]: a broadcast argument is kept, any other is indexed '
        'by l: entry i of the new argument is entry l(i) of the old one',
        extra=P)
    del st.pc[n0:]
    ex.oblige(st, 'index-fresh', z3.BoolVal(v is not el), s,
              'max/min[key]: the argument placed in the result is a new '
              'object', extra=P)


def mm_outcomes(ex, outs):
    P = {'prop': 'C11'}
    nret = nref = 0
    for o in outs:
        st = o.st
        lg, nf, ismax, tl, g, fl = st.ghost['init']
        l = st.ghost.get('l')
        node = _N()
        if o.kind == 'raise':
            node.lineno = o.val[2] if len(o.val) > 2 else 0
            ok = o.val[0] == 'ValueError' and l is not None
            ex.oblige(st, 'index-refuses', z3.And(z3.BoolVal(ok), l.n == 0)
                      if ok else z3.BoolVal(False), node,
                      'max/min[key] raises only ValueError, for an empty '
                      'index list (%s)' % (o.val[0],), extra=P)
            nref += 1
            continue
        nret += 1
        ex.oblige(st, 'index-fresh', z3.BoolVal(
            o.val is st.ghost.get('new') and st.ghost.get('news') == 1),
            node, 'max/min[key] returns the new object it built', extra=P)
        ex.oblige(st, 'index-refuses', l.n > 0, node,
                  'max/min[key] with an empty index list is refused',
                  extra=P)
        ex.oblige(st, 'index-value', z3.BoolVal(
            st.ghost.get('newname') == 'max') == ismax, node,
            'max/min[key] is a max iff the indexed object is', extra=P)
        a = st.ghost.get('attrs', {}).get('_flist')
        segs = a.segs(st) if isinstance(a, Acc) else None
        okshape = segs is not None and len(segs) == 1 and \
            segs[0][0] == 'mapped'
        if not okshape:
            ex.oblige(st, 'index-terms', z3.BoolVal(False), node,
                      'max/min[key]: the new argument list is built by one '
                      'pass over the arguments', extra=P)
            continue
        src = segs[0][1]
        if src is fl:
            goal = nf != 1
        elif getattr(src, 'comps_of', None) is not None and \
                src.comps_of[0] is fl and z3.eq(z3.simplify(
                    src.comps_of[1]), Z(0)):
            goal = nf == 1
        else:
            goal = z3.BoolVal(False)
        ex.oblige(st, 'index-terms', goal, node,
                  'max/min[key]: the pass is over the argument list for a '
                  'componentwise max/min of several functions, and over the '
                  'components of the single argument for the max/min over '
                  'the components of one function -- exactly in these cases',
                  extra=P)
    if outs:
        ex.oblige(outs[0].st, 'covered', z3.BoolVal(nret >= 2 and nref >= 1),
                  _N(), 'max/min[key]: both forms return, an empty index '
                  'list is refused (%d, %d paths)' % (nret, nref), extra=P)
    return {'paths': len(outs), 'returns': nret}


class _N:
    lineno = 0
    col_offset = 0


def _node(s):
    n = _N()
    n.lineno = getattr(s, 'lineno', 0)
    return n


# ------------------------------------------------------------------ sum(f)
def sum_iteration(ex, st, seq, k, el, attr, segs, s):
    lg = st.ghost['lg']
    P = {'prop': 'C11'}
    ok = attr == seq.name and len(segs) == 1 and segs[0][0] == 'one'
    ex.oblige(st, 'sum-terms', z3.BoolVal(ok), s,
              'sum(f): every term of %s contributes exactly one term, to %s '
              'of the result (appended to %s: %d)' % (
                  seq.name, seq.name, attr, len(segs)), extra=P)
    if not ok:
        return
    v = segs[0][1]
    want = z3.If(seq.tl(k) == 1, z3.ToReal(lg) * seq.g(k, Z(0)), seq.sig(k))
    ex.oblige(st, 'sum-value', z3.And(v.ln == 1, v.val(Z(0)) == want), s,
              'sum(f): the term that replaces term k of %s has length 1 and '
              'value sum_i term(i): len(f) times the term if it is broadcast, '
              'the sum over the components of the %s otherwise' % (
                  seq.name, 'max' if seq.ismax else 'min'), extra=P)


def sum_outcomes(ex, outs):
    i = z3.Int('i')
    P = {'prop': 'C11'}
    nret = 0
    for o in outs:
        st = o.st
        lg, lc, ll, cf, lf, sc, sl, seqs = st.ghost['init']
        node = _N()
        if o.kind == 'raise':
            node.lineno = o.val[2] if len(o.val) > 2 else 0
            ex.oblige(st, 'sum-exceptions', z3.BoolVal(False), node,
                      'sum(f) of a function raises no exception (%s)' % (
                          o.val[0],), extra=P)
            continue
        nret += 1
        at = st.ghost.get('attrs', {})
        ex.oblige(st, 'sum-fresh', z3.BoolVal(
            o.val is st.ghost.get('new') and st.ghost.get('news') == 1),
            node, 'sum(f) returns the new function it built', extra=P)
        c1, l1 = at.get('_constant'), at.get('_linear')
        for nm, v, ln0, f0, s0 in (('constant', c1, lc, cf, sc),
                                   ('linear part', l1, ll, lf, sl)):
            okv = isinstance(v, Vec)
            want = z3.If(z3.And(ln0 == 1, lg != 1), z3.ToReal(lg) * f0(Z(0)),
                         s0)
            ex.oblige(st, 'sum-value', z3.And(v.ln == 1, v.val(Z(0)) == want)
                      if okv else z3.BoolVal(False), node,
                      'sum(f): the %s of the result has length 1 and is the '
                      'sum of the entries of the %s of f (len(f) times the '
                      'entry if it is broadcast)' % (nm, nm), extra=P)
        for nm in ('_cvxterms', '_ccvterms'):
            a = at.get(nm)
            ex.oblige(st, 'sum-terms', z3.BoolVal(
                isinstance(a, Acc) and a.segs(st) == (('mapped', seqs[nm]),)),
                node, 'sum(f): %s of the result is built by one pass over '
                '%s of f and nothing else' % (nm, nm), extra=P)
    if outs:
        ex.oblige(outs[0].st, 'covered', z3.BoolVal(nret >= 1), _N(),
                  'sum(f) returns (%d paths)' % nret, extra=P)
    return {'paths': len(outs), 'returns': nret}


# -------------------------------------------------------------------- f[key]
def getitem_iteration(ex, st, seq, k, el, attr, segs, s):
    lg = st.ghost['lg']
    l = st.ghost['l']
    P = {'prop': 'C11'}
    i, j = z3.Int('i'), z3.Int('j!')
    ok = attr == seq.name and len(segs) == 1
    ex.oblige(st, 'index-terms', z3.BoolVal(ok), s,
              'f[key]: what term k of %s contributes is appended to %s of '
              'the result, once (appended to %s: %d segments)' % (
                  seq.name, seq.name, attr, len(segs)), extra=P)
    if not ok:
        return
    kind, v = segs[0]
    bc = z3.And(seq.tl(k) == 1, lg != 1)
    n0 = len(st.pc)
    st.pc += [i >= 0, i < l.n]
    if kind == 'one':
        # broadcast term: kept (length 1); _minmax: indexed by l
        g = z3.If(bc, z3.And(v.ln == 1, v.val(Z(0)) == seq.g(k, Z(0))),
                  z3.And(seq.cls(k) == CLS_MM, v.ln == l.n,
                         v.val(i) == seq.g(k, l.at(i))))
        ex.oblige(st, 'index-value', g, s,
                  'f[key]: a broadcast term of %s is kept as it is, a '
                  'componentwise %s is indexed by l: entry i of the new term '
                  'is entry l(i) of the old one' % (
                      seq.name, 'max' if seq.ismax else 'min'), extra=P)
        ex.oblige(st, 'index-fresh', z3.BoolVal(v is not el), s,
                  'f[key]: the term placed in the result is a new object, '
                  'not the term of f itself', extra=P)
    else:
        mm, e = v.mm, v.elt
        g = z3.And(z3.Not(bc), seq.cls(k) == CLS_SMM,
                   mm.ismax == z3.BoolVal(seq.ismax), mm.fl == seq.fl(k),
                   e.ln == l.n,
                   e.val(i) == COMP(z3.BoolVal(seq.ismax), seq.fl(k), j,
                                    l.at(i)))
        ex.oblige(st, 'index-value', g, s,
                  'f[key]: a sum of %s over components (%s, len(f) = 1) '
                  'contributes the components of the %s of its own function '
                  'list, each indexed by l' % (
                      'max' if seq.ismax else 'min', seq.name,
                      'max' if seq.ismax else 'min'), extra=P)
    del st.pc[n0:]


def getitem_outcomes(ex, outs):
    i = z3.Int('i')
    P = {'prop': 'C11'}
    nret = nref = 0
    for o in outs:
        st = o.st
        lg, lc, ll, cf, lf, sc, sl, seqs = st.ghost['init']
        l = st.ghost.get('l')
        node = _N()
        if o.kind == 'raise':
            node.lineno = o.val[2] if len(o.val) > 2 else 0
            ok = o.val[0] == 'ValueError' and l is not None
            ex.oblige(st, 'index-refuses', z3.And(z3.BoolVal(ok), l.n == 0)
                      if ok else z3.BoolVal(False), node,
                      'f[key] raises only ValueError, for an empty index '
                      'list (%s)' % (o.val[0],), extra=P)
            nref += 1
            continue
        nret += 1
        at = st.ghost.get('attrs', {})
        ex.oblige(st, 'index-fresh', z3.BoolVal(
            o.val is st.ghost.get('new') and st.ghost.get('news') == 1),
            node, 'f[key] returns the new function it built', extra=P)
        ex.oblige(st, 'index-refuses', l.n > 0, node,
                  'f[key] with an empty index list is refused', extra=P)
        n0 = len(st.pc)
        st.pc += [i >= 0, i < l.n]
        for nm, v, ln0, f0 in (('constant', at.get('_constant'), lc, cf),
                               ('linear part', at.get('_linear'), ll, lf)):
            if not isinstance(v, Vec):
                ex.oblige(st, 'index-value', z3.BoolVal(False), node,
                          'f[key]: the %s of the result is a vector' % nm,
                          extra=P)
                continue
            bc = z3.And(ln0 == 1, lg != 1)
            g = z3.And(z3.Or(v.ln == 1, v.ln == l.n),
                       z3.Implies(v.ln == 1, z3.Or(bc, l.n == 1, z3.And(
                           ln0 == 1, f0(Z(0)) == 0))),
                       v.val(z3.If(v.ln == 1, Z(0), i)) ==
                       f0(z3.If(ln0 == 1, Z(0), l.at(i))))
            ex.oblige(st, 'index-value', g, node,
                      'f[key]: entry i of the %s of the result is entry l(i) '
                      'of the %s of f (a broadcast %s stays broadcast)' % (
                          nm, nm, nm), extra=P)
            ex.oblige(st, 'index-fresh', z3.BoolVal(
                v is not st.ghost['arg'].parts['_constant' if nm ==
                                               'constant' else '_linear']),
                node, 'f[key]: the %s of the result is a new object' % nm,
                extra=P)
        del st.pc[n0:]
        for nm in ('_cvxterms', '_ccvterms'):
            a = at.get(nm)
            ex.oblige(st, 'index-terms', z3.BoolVal(
                isinstance(a, Acc) and a.segs(st) == (('mapped', seqs[nm]),)),
                node, 'f[key]: %s of the result is built by one pass over '
                '%s of f and nothing else' % (nm, nm), extra=P)
    if outs:
        ex.oblige(outs[0].st, 'covered', z3.BoolVal(nret >= 1 and nref >= 1),
                  _N(), 'f[key] returns for a nonempty index list and '
                  'refuses an empty one (%d, %d paths)' % (nret, nref),
                  extra=P)
    return {'paths': len(outs), 'returns': nret}


ITER_SPEC = {'sum': sum_iteration, 'getitem': getitem_iteration}

FUNCS = {
    'sum': {'setup': lambda sc: setup_for('sum'), 'scenarios': {'function': {}},
            'on_outcomes': sum_outcomes, 'config': {'unroll': 8}},
    '_function.__getitem__': {
        'setup': lambda sc: setup_for('getitem'),
        'scenarios': {'function': {}}, 'on_outcomes': getitem_outcomes,
        'config': {'unroll': 8}},
    '_minmax.__getitem__': {
        'setup': mm_setup, 'scenarios': {'minmax': {}},
        'on_outcomes': mm_outcomes, 'config': {'unroll': 8}}}


# ------------------------------------------------ _minmax.__init__(op, *s)
# The constructor behind max(...) / min(...).  Documented (modeling.rst,
# "Maximum" / "Minimum"): the arguments of max can be numbers, dense 'd'
# column matrices, variables, affine functions or CONVEX piecewise-linear
# functions (min: CONCAVE), each of length len(f) or 1; the result is convex
# (concave).  Property C11: "combinations that are not convex or concave, or
# whose dimensions do not match, are refused with an exception instead of
# producing a function, and a function accepted as convex really is".
#
# Contract, for an argument list of any length (the loop over the arguments
# is executed for one arbitrary argument of symbolic kind -- number, matrix,
# variable, function with symbolic curvature flags -- with the running
# constant and the running length havoced):
#   * a function argument is taken into _flist (as a copy) only if it is
#     convex for 'max' resp. concave for 'min'; otherwise TypeError
#   * a variable is taken as a copy; a number / column matrix goes into the
#     running constant; anything else: TypeError
#   * lengths: an argument of length other than 1 or the running length
#     (when that is not 1) is refused with ValueError
# and the same curvature rule for the single-argument form.
class MArg:
    """one argument of max / min, of symbolic kind"""
    abs_object = True
    KINDS = ('number', 'matrix', 'variable', 'function', 'other')

    def __init__(self, tag):
        self.tag = tag
        self.kind = z3.Int('kind of ' + tag)
        self.convex = z3.Bool(tag + ' is convex')
        self.concave = z3.Bool(tag + ' is concave')
        self.ln = z3.Int('len(' + tag + ')')
        self.cols = z3.Int('columns of ' + tag)

    def is_(self, k):
        return self.kind == self.KINDS.index(k)

    def abs_method(self, ex, st, name, args, kwargs, n):
        if name in ('_isconvex', '_isconcave'):
            # only functions have these methods
            d = ex.decide(st, self.is_('function'))
            if d is None:
                raise NeedFork(self.is_('function'))
            if not d:
                raise PyRaise('AttributeError', name)
            return B(self.convex if name == '_isconvex' else self.concave)
        raise Unsupported('method %s of an argument' % name)

    def abs_unop(self, ex, st, op, n):
        if isinstance(op, ast.UAdd):
            c = MCopy(self)
            return c
        raise Unsupported('unary operation on an argument')

    def abs_getattr(self, ex, st, attr, n):
        if attr == 'size':
            return (I(self.ln), I(self.cols))
        return core.NOTFOUND


class MCopy:
    abs_object = True

    def __init__(self, of):
        self.of = of


class MType:
    abs_object = True

    def __init__(self, a):
        self.a = a

    def abs_is(self, ex, st, o):
        a = self.a
        if o is int or o is float or (isinstance(o, Ext) and o.name in (
                'builtins.int', 'builtins.float')):
            # int and float together are the kind 'number'; which of the two
            # is a free boolean per test
            nm = 'int' if (o is int or getattr(o, 'name', '') ==
                           'builtins.int') else 'float'
            return z3.And(a.is_('number'), z3.Bool('%s is %s' % (a.tag, nm)))
        if isinstance(o, Ext) and o.name == 'cvxopt.modeling.variable':
            return a.is_('variable')
        if isinstance(o, Ext) and o.name == 'cvxopt.modeling._function':
            return a.is_('function')
        raise Unsupported('type test against %r' % (o,))

    abs_eq = abs_is


class MSeq:
    """the arguments s of _minmax(op, *s), two or more"""
    abs_object = True

    def __init__(self, n):
        self.n = n

    def abs_loop(self, ex, st, s, fid):
        sink = st.ghost['sink']
        a = MArg('argument')
        b = st.copy()
        fr = b.frames[fid]
        # the running constant is None or a matrix, the running length >= 1
        lg = z3.Int('running length')
        b.pc += [lg >= 1, a.ln >= 1, a.kind >= 0, a.kind <= 4,
                 z3.Implies(a.is_('number'), a.ln == 1),
                 z3.Implies(a.is_('number'), z3.Or(z3.Bool(
                     'argument is int'), z3.Bool('argument is float'))),
                 z3.Not(z3.And(z3.Bool('argument is int'),
                               z3.Bool('argument is float')))]
        fr['lg'] = I(lg)
        hascnst = z3.Bool('a constant was seen before')
        fr['cnst'] = MCnst(hascnst)
        b.ghost['flist_added'] = ()
        ex.assign(b, fid, s.target, a, s)
        ismax = st.ghost['ismax']
        for o in ex.exec_block(s.body, b, fid):
            added = o.st.ghost.get('flist_added', ())
            if o.kind == 'raise':
                exc = o.val[0]
                fits = z3.Or(a.is_('number'),
                             z3.And(a.is_('matrix'), a.cols == 1),
                             a.is_('variable'),
                             z3.And(a.is_('function'), z3.If(
                                 ismax, a.convex, a.concave)))
                oklen = z3.Or(a.ln == 1, lg == 1, a.ln == lg)
                sink.append(('minmax-refuses', list(o.st.pc), z3.Or(
                    z3.And(z3.BoolVal(exc == 'TypeError'), z3.Not(fits)),
                    z3.And(z3.BoolVal(exc == 'ValueError'), z3.Not(oklen))),
                    'an argument of max / min is refused only with TypeError '
                    'for an unsupported kind or curvature, or with '
                    'ValueError for a length that does not fit (%s)' % exc,
                    o.val[2] if len(o.val) > 2 else s.lineno))
                continue
            if o.kind not in ('fall', 'continue'):
                raise Unsupported('early exit from the loop over the '
                                  'arguments')
            took = len(added) == 1 and isinstance(added[0], MCopy) and \
                added[0].of is a
            sink.append(('minmax-accepts', list(o.st.pc), z3.And(
                z3.Or(z3.BoolVal(took), z3.BoolVal(len(added) == 0)),
                z3.Implies(z3.BoolVal(took), z3.Or(
                    a.is_('variable'), z3.And(a.is_('function'), z3.If(
                        ismax, a.convex, a.concave)))),
                z3.Implies(z3.BoolVal(len(added) == 0), z3.Or(
                    a.is_('number'), z3.And(a.is_('matrix'), a.cols == 1))),
                z3.Or(a.ln == 1, lg == 1, a.ln == lg)),
                'an argument is accepted only if it is a number, a column '
                'matrix, a variable, or a function that is convex for max '
                'resp. concave for min -- and only with a length that fits; '
                'a variable or function is taken into the list as a copy',
                s.lineno))
        e = st.copy()
        e.frames[fid]['cnst'] = MCnst(z3.Bool('a constant was seen'))
        e.frames[fid]['lg'] = I(z3.Int('final length'))
        return [Outcome('fall', e)]


class MCnst:
    """the running constant: None or a matrix"""
    abs_object = True

    def __init__(self, present):
        self.present = present

    def abs_is(self, ex, st, o):
        if o is None:
            return z3.Not(self.present)
        raise Unsupported('identity test of the running constant')


class MFList:
    abs_object = True

    def abs_inplace(self, ex, st, op, b, n):
        if isinstance(b, Ref) and st.heap[b.oid].kind == 'list' and \
                'items' in st.heap[b.oid].f:
            st.ghost['flist_added'] = st.ghost.get('flist_added', ()) + \
                tuple(st.heap[b.oid].f['items'])
            return self
        raise Unsupported('extending _flist with %r' % (b,))


class MSelf:
    abs_object = True

    def abs_getattr(self, ex, st, attr, n):
        at = st.ghost.get('mattrs', {})
        return at.get(attr, core.NOTFOUND)


def minmax_init_obligations(timeout_ms=10000):
    tree, src = driver.load_module('modeling.py')
    obs, sink = [], []

    def add(oid, kind, status, text, line=0, detail=None):
        obs.append({'site': None, 'id': 'modeling.py:_minmax.__init__:%s:%s'
                    % (kind, oid), 'kind': kind, 'status': status,
                    'text': text, 'line': line, 'model': None,
                    'detail': detail,
                    'by': ['z3'] if status == 'proved' else []})
    saved = {k_: L.ext.get(k_) for k_ in (
        'builtins.len', 'builtins.type', 'cvxopt.modeling.matrix',
        'cvxopt.modeling._isdmatrix', 'cvxopt.modeling._vecmax',
        'cvxopt.modeling._vecmin', 'cvxopt.modeling._function')}
    saved_setattr = L.setattr
    len0, type0 = saved['builtins.len'], saved['builtins.type']

    def setattr_(ex, st, base, attr, v, s):
        if isinstance(base, MSelf):
            st.ghost['mattrs'] = dict(st.ghost.get('mattrs', {}))
            if attr == '_flist':
                v = MFList()
            st.ghost['mattrs'][attr] = v
            return
        return saved_setattr(ex, st, base, attr, v, s)

    def b_len(ex_, st, args, kwargs, n):
        v = args[0]
        if isinstance(v, MSeq):
            return I(v.n)
        if isinstance(v, MArg):
            return I(v.ln)
        if isinstance(v, tuple):
            return len(v)
        return len0(ex_, st, args, kwargs, n)

    def b_type(ex_, st, args, kwargs, n):
        if len(args) == 1 and isinstance(args[0], MArg):
            return MType(args[0])
        return type0(ex_, st, args, kwargs, n)

    def m_matrix(ex_, st, args, kwargs, n):
        if args and isinstance(args[0], MArg):
            # matrix(number, tc='d'): a 1 x 1 matrix
            a = args[0]
            m = MArg('argument as matrix')
            st.pc += [m.is_('matrix'), m.ln == 1, m.cols == 1]
            return m
        raise Unsupported('matrix(%r)' % (args,))

    def isd(ex_, st, args, kwargs, n):
        if isinstance(args[0], MArg):
            return B(args[0].is_('matrix'))
        return False

    def vec(ex_, st, args, kwargs, n):
        return MCnst(z3.BoolVal(True))

    def new_fn(ex_, st, args, kwargs, n):
        return Unknown('_function()')

    def run(op_name, single):
        ex = core.Executor(tree, 'cvxopt.modeling', L, {'unroll': 8})

        def setup(ex_, st, fid, f_):
            L.ext.update({'builtins.len': b_len, 'builtins.type': b_type,
                          'cvxopt.modeling.matrix': m_matrix,
                          'cvxopt.modeling._isdmatrix': isd,
                          'cvxopt.modeling._vecmax': vec,
                          'cvxopt.modeling._vecmin': vec,
                          'cvxopt.modeling._function': new_fn})
            L.setattr = setattr_
            fr = st.frames[fid]
            fr['self'] = MSelf()
            fr['op'] = op_name
            ismax = z3.BoolVal(op_name == 'max')
            if single:
                a = MArg('the argument')
                # "f = max(s) ... The argument can be a variable or a
                # function" (docstring of max)
                st.pc += [z3.Or(a.is_('variable'), a.is_('function')),
                          a.ln >= 1]
                fr['s'] = (a,)
                st.ghost['single'] = a
            else:
                n_ = z3.Int('number of arguments')
                st.pc.append(n_ >= 2)
                fr['s'] = MSeq(n_)
            fr['variable'] = Ext('cvxopt.modeling.variable')
            fr['_function'] = Ext('cvxopt.modeling._function')
            fr['matrix'] = Ext('cvxopt.modeling.matrix')
            st.ghost.update({'sink': sink, 'ismax': ismax,
                             'frame_check': False})
        ex.find_function('_minmax.__init__')
        outs = ex.run_function('_minmax.__init__', setup)
        if single:
            for o in outs:
                a = o.st.ghost['single']
                ismax = o.st.ghost['ismax']
                fits = z3.Or(a.is_('variable'), z3.And(
                    a.is_('function'), z3.If(ismax, a.convex, a.concave)))
                if o.kind == 'raise':
                    sink.append(('minmax-refuses', list(o.st.pc), z3.And(
                        z3.BoolVal(o.val[0] == 'TypeError'), z3.Not(fits)),
                        'the single-argument form is refused only with '
                        'TypeError for an argument that is not a variable or '
                        'a function of the right curvature (%s)' % o.val[0],
                        o.val[2] if len(o.val) > 2 else 0))
                else:
                    sink.append(('minmax-accepts', list(o.st.pc), fits,
                                 'the single-argument form accepts a '
                                 'variable, or a function that is convex '
                                 'for max resp. concave for min', 0))
        return ex
    try:
        try:
            for op_name in ('max', 'min'):
                ex = run(op_name, False)
                ex = run(op_name, True)
        except Unsupported as e:
            add('supported', 'minmax-accepts', 'undecided', '_minmax.__init__ '
                'is inside the supported subset', detail=str(e))
            return obs
    finally:
        for k_, v_ in saved.items():
            if v_ is None:
                L.ext.pop(k_, None)
            else:
                L.ext[k_] = v_
        L.setattr = saved_setattr
    seen = {}
    rank = {'proved': 0, 'undecided': 1, 'refuted': 2}
    for kind, pc, goal, text, line in sink:
        r = ex.check(pc, [z3.Not(goal)], timeout=timeout_ms)
        st_ = 'proved' if r == z3.unsat else ('refuted' if r == z3.sat
                                              else 'undecided')
        if st_ == 'refuted' and z3.is_false(z3.simplify(goal)):
            FORM_REFUTED.add(text)
        key = (kind, text)
        if key not in seen or rank[st_] > rank[seen[key][0]]:
            seen[key] = (st_, line)
    for i_, ((kind, text), (st_, line)) in enumerate(sorted(seen.items())):
        add('%s#%d' % (kind, i_), kind, st_, text, line)
    return obs


# ------------------------------------------------------ max(*s) / min(*s)
# Documented (docstring): "f = max(s) with s a list or tuple of variables,
# functions, constants, returns f = max(*s)"; otherwise the arguments are
# handed to _minmax('max', *s), which refuses unsupported kinds, curvatures
# and incompatible lengths (contract above).  Property C11: combinations
# whose dimensions do not match or that are not convex / concave "are refused
# with an exception instead of producing a function".
# Contract (scenario: at least one argument is a variable or a function, so
# the built-in max raises NotImplementedError -- their comparison operators
# do):
#   * if _minmax accepts the arguments, the result is a new function whose
#     only nonlinear term is that max (convex list) / min (concave list);
#   * if _minmax refuses them, max(*s) returns max(*s[0]) only when s is a
#     single list or tuple, and raises otherwise -- it never returns a
#     function built from a part of the arguments.
class TArg:
    abs_object = True

    def __init__(self, tag):
        self.tag = tag
        self.islist = z3.Bool(tag + ' is a list')
        self.istuple = z3.Bool(tag + ' is a tuple')

    abs_star = True


class TType:
    abs_object = True

    def __init__(self, a):
        self.a = a

    def abs_is(self, ex, st, o):
        if o is list or (isinstance(o, Ext) and o.name == 'builtins.list'):
            return self.a.islist
        if o is tuple or (isinstance(o, Ext) and o.name == 'builtins.tuple'):
            return self.a.istuple
        return z3.Bool('%s is %r' % (self.a.tag, getattr(o, 'name', o)))

    abs_eq = abs_is

    def abs_contains_in(self, ex, st, seq):
        return None


class MMBuilt:
    abs_object = True

    def __init__(self, name, args):
        self.name, self.args = name, args


class Recur:
    abs_object = True

    def __init__(self, fn, arg):
        self.fn, self.arg = fn, arg


class FRes:
    abs_object = True

    def abs_getattr(self, ex, st, attr, n):
        return st.ghost.get('fres', {}).get(attr, core.NOTFOUND)


def maxmin_obligations(timeout_ms=10000):
    tree, src = driver.load_module('modeling.py')
    obs, sink = [], []

    def add(oid, kind, status, text, line=0, detail=None):
        obs.append({'id': 'modeling.py:max/min:%s:%s' % (kind, oid),
                    'kind': kind, 'status': status, 'text': text,
                    'line': line, 'model': None, 'detail': detail,
                    'by': ['z3'] if status == 'proved' else []})
    names = ['builtins.max', 'builtins.min', 'builtins.type',
             'builtins.isinstance', 'cvxopt.modeling._minmax',
             'cvxopt.modeling._function', 'cvxopt.modeling.max',
             'cvxopt.modeling.min']
    saved = {k_: L.ext.get(k_) for k_ in names}
    saved_setattr = L.setattr
    type0 = saved['builtins.type']
    isinst0 = saved['builtins.isinstance']

    def setattr_(ex, st, base, attr, v, s):
        if isinstance(base, FRes):
            st.ghost['fres'] = dict(st.ghost.get('fres', {}))
            st.ghost['fres'][attr] = v
            return
        return saved_setattr(ex, st, base, attr, v, s)

    def run(fname, nargs):
        ex = core.Executor(tree, 'cvxopt.modeling', L, {'unroll': 8})
        accepted = z3.Bool('_minmax accepts the arguments')

        def b_builtin(ex_, st, args, kwargs, n):
            raise PyRaise('NotImplementedError', 'comparison of modeling '
                          'objects')

        def mk_mm(ex_, st, args, kwargs, n):
            d = ex_.decide(st, accepted)
            if d is None:
                raise NeedFork(accepted)
            if not d:
                raise PyRaise('TypeError', 'unsupported argument type')
            return MMBuilt(const_of(args[0])[1], tuple(args[1:]))

        def new_fn(ex_, st, args, kwargs, n):
            f = FRes()
            st.ghost['fobj'] = f
            return f

        def recur(which):
            def h(ex_, st, args, kwargs, n):
                return Recur(which, tuple(args))
            return h

        def b_type(ex_, st, args, kwargs, n):
            if len(args) == 1 and isinstance(args[0], TArg):
                return TType(args[0])
            return type0(ex_, st, args, kwargs, n)

        def b_isinstance(ex_, st, args, kwargs, n):
            if len(args) == 2 and isinstance(args[0], TArg):
                cl = args[1] if isinstance(args[1], tuple) else (args[1],)
                ts = []
                for c in cl:
                    if c is list or (isinstance(c, Ext) and c.name ==
                                     'builtins.list'):
                        ts.append(args[0].islist)
                    elif c is tuple or (isinstance(c, Ext) and c.name ==
                                        'builtins.tuple'):
                        ts.append(args[0].istuple)
                    else:
                        ts.append(z3.Bool('%s is a %r' % (args[0].tag, c)))
                return B(z3.Or(ts))
            return isinst0(ex_, st, args, kwargs, n)

        def setup(ex_, st, fid, f_):
            L.ext.update({'builtins.max': b_builtin,
                          'builtins.min': b_builtin,
                          'builtins.type': b_type,
                          'builtins.isinstance': b_isinstance,
                          'cvxopt.modeling._minmax': mk_mm,
                          'cvxopt.modeling._function': new_fn,
                          'cvxopt.modeling.max': recur('max'),
                          'cvxopt.modeling.min': recur('min')})
            L.setattr = setattr_
            fr = st.frames[fid]
            args = tuple(TArg('argument %d' % i) for i in range(nargs))
            for a in args:
                st.pc.append(z3.Not(z3.And(a.islist, a.istuple)))
            fr['s'] = args
            st.ghost.update({'args': args, 'frame_check': False})
            fr['builtins'] = Ext('builtins')
        ex.find_function(fname)
        outs = ex.run_function(fname, setup)
        for o in outs:
            st = o.st
            args = st.ghost['args']
            single_seq = z3.And(z3.BoolVal(nargs == 1),
                                z3.Or(args[0].islist, args[0].istuple))
            if o.kind == 'raise':
                sink.append(('max-refuses', list(st.pc), z3.And(
                    z3.Not(accepted), z3.BoolVal(o.val[0] in (
                        'NotImplementedError', 'TypeError', 'ValueError'))),
                    '%s(...) raises only if _minmax refuses the arguments '
                    '(%s)' % (fname, o.val[0]),
                    o.val[2] if len(o.val) > 2 else 0))
                continue
            v = o.val
            if isinstance(v, Recur):
                ok = v.fn == fname and len(v.arg) == 1 and \
                    v.arg[0] is args[0]
                sink.append(('max-refuses', list(st.pc), z3.And(
                    z3.BoolVal(ok), z3.Not(accepted), single_seq),
                    '%s(*s) falls back to %s(*s[0]) only when _minmax '
                    'refuses s and s is a single list or tuple: refused '
                    'arguments never yield a function built from a part of '
                    'them' % (fname, fname), 0))
                continue
            fr_ = st.ghost.get('fres', {})
            key = '_cvxterms' if fname == 'max' else '_ccvterms'
            term = fr_.get(key)
            items = st.heap[term.oid].f.get('items') if isinstance(
                term, Ref) and st.heap[term.oid].kind == 'list' else None
            ok = v is st.ghost.get('fobj') and items is not None and \
                len(items) == 1 and isinstance(items[0], MMBuilt) and \
                items[0].name == fname and items[0].args == args and \
                set(fr_) == {key}
            sink.append(('max-value', list(st.pc), z3.And(z3.BoolVal(ok),
                                                          accepted),
                         '%s(*s) returns a new function whose only nonlinear '
                         'term is _minmax(%r, *s), in the list of its '
                         'curvature, when _minmax accepts the arguments' % (
                             fname, fname), 0))
        return ex
    try:
        try:
            for fname in ('max', 'min'):
                for nargs in (1, 2, 3):
                    ex = run(fname, nargs)
        except Unsupported as e:
            add('supported', 'max-refuses', 'undecided', 'max / min are '
                'inside the supported subset', detail=str(e))
            return obs
    finally:
        for k_, v_ in saved.items():
            if v_ is None:
                L.ext.pop(k_, None)
            else:
                L.ext[k_] = v_
        L.setattr = saved_setattr
    seen = {}
    rank = {'proved': 0, 'undecided': 1, 'refuted': 2}
    for kind, pc, goal, text, line in sink:
        r = ex.check(pc, [z3.Not(goal)], timeout=timeout_ms)
        st_ = 'proved' if r == z3.unsat else ('refuted' if r == z3.sat
                                              else 'undecided')
        if st_ == 'refuted' and z3.is_false(z3.simplify(goal)):
            FORM_REFUTED.add(text)
        key = (kind, text)
        if key not in seen or rank[st_] > rank[seen[key][0]]:
            seen[key] = (st_, line)
    for i_, ((kind, text), (st_, line)) in enumerate(sorted(seen.items())):
        add('%s#%d' % (kind, i_), kind, st_, text, line)
    return obs


# ------------------------------------------------------ _function.__len__
# len(f) is the common length L of the parts: every part (constant, linear
# part, every term) has length 1 or L, and if L > 1 some part has length L
# (class invariant, precondition).  The two loops over the term lists are
# executed for an arbitrary term: a term that is passed over must have length
# 1; at exhaustion every term -- in particular a witness of L > 1 -- was
# passed over.  Obligation len-value: the value returned is L on every path.
class LenSeq:
    abs_object = True

    def __init__(self, name, n, tl, wit):
        self.name, self.n, self.tl, self.wit = name, n, tl, wit

    def abs_truth(self, ex, st):
        return self.n > 0

    def abs_loop(self, ex, st, s, fid):
        k = z3.Int(ex.fresh('k'))
        b = st.copy()
        Lg = st.ghost['L']
        b.pc += [k >= 0, k < self.n, z3.Or(self.tl(k) == 1,
                                           self.tl(k) == Lg)]
        ex.assign(b, fid, s.target, Vec('term', self.tl(k),
                                        lambda i: z3.RealVal(0)), s)
        outs = []
        for o in ex.exec_block(s.body, b, fid):
            if o.kind in ('fall', 'continue'):
                ex.oblige(o.st, 'len-value', self.tl(k) == 1, s,
                          '__len__ passes over a term of %s only if it has '
                          'length 1' % self.name, extra={'prop': 'C11'})
                ex.orphans = getattr(ex, 'orphans', [])
                ex.orphans.extend(o.st.obligs)
            elif o.kind == 'break':
                raise Unsupported('break in __len__')
            else:
                outs.append(o)
        e = st.copy()
        e.pc.append(z3.Implies(z3.And(self.wit >= 0, self.wit < self.n),
                               self.tl(self.wit) == 1))
        outs.append(Outcome('fall', e))
        return outs


def flen_setup(sc):
    def setup(ex, st, fid, fn):
        install()
        fr = st.frames[fid]
        Lg = z3.Int('L')
        lc, ll = z3.Int('len(constant)'), z3.Int('len(linear)')
        ng, nh = z3.Int('number of convex terms'), z3.Int(
            'number of concave terms')
        tg = z3.Function('len of convex term', IS, IS)
        th = z3.Function('len of concave term', IS, IS)
        wg, wh = z3.Int('witness (convex)'), z3.Int('witness (concave)')
        st.pc += [Lg >= 1, ng >= 0, nh >= 0, z3.Or(lc == 1, lc == Lg),
                  z3.Or(ll == 1, ll == Lg),
                  z3.Implies(Lg > 1, z3.Or(
                      lc == Lg, ll == Lg,
                      z3.And(wg >= 0, wg < ng, tg(wg) == Lg),
                      z3.And(wh >= 0, wh < nh, th(wh) == Lg)))]
        arg = FArg(Lg, {
            '_constant': Vec('const', lc, lambda i: z3.RealVal(0)),
            '_linear': Vec('lin', ll, lambda i: z3.RealVal(0)),
            '_cvxterms': LenSeq('_cvxterms', ng, tg, wg),
            '_ccvterms': LenSeq('_ccvterms', nh, th, wh)})
        fr['self'] = arg
        st.ghost.update({'L': Lg, 'frame_check': False})
        # len(self) inside __len__ would be the function itself: not used
    return setup


def flen_outcomes(ex, outs):
    P = {'prop': 'C11'}
    nret = 0
    for o in outs:
        st = o.st
        node = _N()
        if o.kind == 'raise':
            ex.oblige(st, 'len-value', z3.BoolVal(False), node,
                      'len(f) raises no exception (%s)' % (o.val[0],),
                      extra=P)
            continue
        nret += 1
        v = o.val
        t = v.t if isinstance(v, I) else (z3.IntVal(v) if isinstance(
            v, int) and not isinstance(v, bool) else None)
        ex.oblige(st, 'len-value', t == st.ghost['L'] if t is not None else
                  z3.BoolVal(False), node,
                  'len(f) of a function is the common length of its parts '
                  '(the first part longer than 1 decides; 1 if there is '
                  'none)', extra=P)
    if outs:
        ex.oblige(outs[0].st, 'covered', z3.BoolVal(nret >= 5), _N(),
                  'the five ways of returning are reached (%d)' % nret,
                  extra=P)
    return {'paths': len(outs), 'returns': nret}


FUNCS['_function.__len__'] = {
    'setup': flen_setup, 'scenarios': {'any': {}},
    'on_outcomes': flen_outcomes, 'config': {'unroll': 8}}


# ------------------------------------------------------- _function.value()
# f.value() = constant + linear.value() + sum_k convex_k.value()
#             + sum_k concave_k.value()     (a length-1 summand broadcast),
# and None as soon as one part has no value (a variable without a value).
# The values of the parts are taken from their own value() methods (matrix
# arithmetic, not decided here); this contract is about the accumulation:
# ghost prefix sums PV(k+1, i) = PV(k, i') + g_k(i''), the loops over the term
# lists of symbolic length by the invariant rule with early return.
PVG = z3.Function('PV_convex', IS, IS, RS)
PVH = z3.Function('PV_concave', IS, IS, RS)


class Val:
    """a column matrix: length and entries (or the value None)"""
    abs_object = True

    def __init__(self, ln, val):
        self.ln, self.val = ln, val

    def abs_binop(self, ex, st, op, b, n):
        if isinstance(b, MaybeVal):
            if ex.decide(st, z3.Not(b.none)) is not True:
                raise PyRaise('TypeError', 'matrix + None')
            b = b.v
        if isinstance(op, ast.Add) and isinstance(b, Val):
            l1, l2, f1, f2 = self.ln, b.ln, self.val, b.val
            ok = z3.Or(l1 == l2, l1 == 1, l2 == 1)
            if ex.decide(st, ok) is not True:
                raise Unsupported('sum of matrices whose sizes are not '
                                  'provably compatible')
            return Val(z3.If(l1 == 1, l2, l1), lambda i: f1(z3.If(
                l1 == 1, Z(0), i)) + f2(z3.If(l2 == 1, Z(0), i)))
        raise Unsupported('operation on a value')

    def abs_is(self, ex, st, o):
        if o is None:
            return False
        raise Unsupported('identity test of a value')


class MaybeVal:
    """what part.value() returns: None (flag) or a column matrix"""
    abs_object = True

    def __init__(self, none, v):
        self.none, self.v = none, v

    def abs_is(self, ex, st, o):
        if o is None:
            return self.none
        raise Unsupported('identity test of a value')

    def abs_binop(self, ex, st, op, b, n):
        raise Unsupported('a value that may be None is used in arithmetic')

    def abs_rbinop(self, ex, st, op, a, n):
        if ex.decide(st, z3.Not(self.none)) is True and isinstance(a, Val):
            return a.abs_binop(ex, st, op, self.v, n)
        raise Unsupported('a value that may be None is used in arithmetic')


class ValPart:
    abs_object = True

    def __init__(self, mv, coeff=None):
        self.mv, self.coeff = mv, coeff

    def abs_method(self, ex, st, name, args, kwargs, n):
        if name == 'value' and not args:
            return self.mv
        raise Unsupported('method %s of a part' % name)

    def abs_getattr(self, ex, st, attr, n):
        if attr == '_coeff' and self.coeff is not None:
            class T:
                abs_object = True

                def abs_truth(s_, ex_, st_):
                    return self.coeff
            return T()
        return core.NOTFOUND


class ValSeq:
    abs_object = True

    def __init__(self, name, n, none, tl, g, PV, Lg):
        self.name, self.n, self.none, self.tl, self.g = name, n, none, tl, g
        self.PV, self.Lg = PV, Lg

    def abs_loop(self, ex, st, s, fid):
        k = z3.Int(ex.fresh('k'))
        i = z3.Int('i')
        fr = st.frames[fid]
        cur = fr.get('val')
        if not isinstance(cur, Val):
            raise Unsupported('the accumulator is not a value')
        base = cur
        sink = st.ghost['sink']
        PV, tl, g = self.PV, self.tl, self.g
        b = st.copy()
        bl = lambda ln, f, q: f(z3.If(ln == 1, Z(0), q))
        b.pc += [k >= 0, k < self.n, z3.Or(tl(k) == 1, tl(k) == self.Lg),
                 z3.ForAll([i], PV(0, i) == 0),
                 z3.ForAll([i], PV(k + 1, i) == PV(k, i) + bl(
                     tl(k), lambda q: g(k, q), i))]
        L_ = self.Lg
        # at the head of iteration k: val = base + PV(k) (broadcast to L)
        b.frames[fid]['val'] = Val(L_, lambda q: bl(base.ln, base.val, q) +
                                   PV(k, q))
        el = ValPart(MaybeVal(self.none(k), Val(tl(k), lambda q: g(k, q))))
        ex.assign(b, fid, s.target, el, s)
        outs = []
        for o in ex.exec_block(s.body, b, fid):
            if o.kind in ('fall', 'continue'):
                v = o.st.frames[fid].get('val')
                okv = isinstance(v, Val)
                n0 = list(o.st.pc) + [i >= 0, i < L_]
                sink.append(('value-accumulates', n0, z3.And(
                    z3.Not(self.none(k)),
                    bl(v.ln, v.val, i) == bl(base.ln, base.val, i) +
                    PV(k + 1, i)) if okv else z3.BoolVal(False),
                    'one pass over %s adds the value of term k to the '
                    'accumulator (a length-1 value broadcast) and goes on '
                    'only if that value is not None' % self.name, s.lineno))
            elif o.kind == 'return':
                sink.append(('value-none', list(o.st.pc), z3.And(
                    z3.BoolVal(o.val is None), self.none(k)),
                    'value() returns from inside the loop over %s only with '
                    'None, when the value of the current term is None' %
                    self.name, s.lineno))
            else:
                raise Unsupported('exit %s from the loop over %s' % (
                    o.kind, self.name))
        e = st.copy()
        N = self.n
        e.pc += [z3.ForAll([i], PV(0, i) == 0), N >= 0]
        # after the loop: every term had a value
        e.frames[fid]['val'] = Val(z3.If(N == 0, base.ln, L_), lambda q: bl(
            base.ln, base.val, q) + PV(N, q))
        e.ghost['all_have_values'] = e.ghost.get('all_have_values', ()) + (
            self,)
        return [Outcome('fall', e)]


def value_obligations(timeout_ms=10000):
    tree, src = driver.load_module('modeling.py')
    obs, sink = [], []

    def add(oid, kind, status, text, line=0, detail=None):
        obs.append({'id': 'modeling.py:_function.value:%s:%s' % (kind, oid),
                    'kind': kind, 'status': status, 'text': text,
                    'line': line, 'model': None, 'detail': detail,
                    'by': ['z3'] if status == 'proved' else []})
    ex = core.Executor(tree, 'cvxopt.modeling', L, {'unroll': 8})
    i = z3.Int('i')
    Lg = z3.Int('len(f)')
    lc, ll = z3.Int('len(constant)'), z3.Int('len(linear value)')
    cf, lf = z3.Function('c', IS, RS), z3.Function('lin', IS, RS)
    lnone = z3.Bool('the linear part has no value')
    haslin = z3.Bool('the linear part has variables')
    seqs = {}
    for nm, PV in (('_cvxterms', PVG), ('_ccvterms', PVH)):
        seqs[nm] = ValSeq(nm, z3.Int('number of ' + nm),
                          z3.Function('no value: ' + nm, IS, z3.BoolSort()),
                          z3.Function('len of value: ' + nm, IS, IS),
                          z3.Function('value of ' + nm, IS, IS, RS), PV, Lg)

    def setup(ex_, st, fid, f_):
        install()
        fr = st.frames[fid]
        st.pc += [Lg >= 1, z3.Or(lc == 1, lc == Lg), z3.Or(ll == 1,
                                                           ll == Lg),
                  seqs['_cvxterms'].n >= 0, seqs['_ccvterms'].n >= 0]
        fr['self'] = FArg(Lg, {
            '_constant': Val(lc, lambda q: cf(q)),
            '_linear': ValPart(MaybeVal(lnone, Val(ll, lambda q: lf(q))),
                               coeff=haslin),
            '_cvxterms': seqs['_cvxterms'], '_ccvterms': seqs['_ccvterms']})
        st.ghost.update({'sink': sink, 'frame_check': False})
    ex.find_function('_function.value')
    try:
        outs = ex.run_function('_function.value', setup)
    except Unsupported as e:
        add('supported', 'value-accumulates', 'undecided', '_function.value '
            'is inside the supported subset', detail=str(e))
        return obs
    bl = lambda ln, f, q: f(z3.If(ln == 1, Z(0), q))
    nret = 0
    for o in outs:
        st = o.st
        if o.kind != 'return':
            sink.append(('value-formula', list(st.pc), z3.BoolVal(False),
                         'value() raises no exception (%s)' % (
                             o.val[0] if o.kind == 'raise' else o.kind,), 0))
            continue
        if o.val is None:
            sink.append(('value-none', list(st.pc), z3.And(haslin, lnone),
                         'outside the loops value() returns None only when '
                         'the linear part has no value', 0))
            continue
        nret += 1
        v = o.val
        ng, nh = seqs['_cvxterms'].n, seqs['_ccvterms'].n
        want = lambda q: bl(lc, cf, q) + z3.If(haslin, bl(ll, lf, q), 0) + \
            PVG(ng, q) + PVH(nh, q)
        done = st.ghost.get('all_have_values', ())
        sink.append(('value-formula', list(st.pc) + [i >= 0, i < Lg], z3.And(
            z3.BoolVal(isinstance(v, Val) and len(done) == 2 and
                       done[0] is seqs['_cvxterms'] and
                       done[1] is seqs['_ccvterms']),
            z3.Not(z3.And(haslin, lnone)),
            bl(v.ln, v.val, i) == want(i)) if isinstance(v, Val) else
            z3.BoolVal(False),
            'value() is constant + value of the linear part + the sum of '
            'the values of all convex and all concave terms, entry by entry '
            '(length-1 summands broadcast), after every part was found to '
            'have a value', 0))
    sink.append(('covered', [], z3.BoolVal(nret >= 2), 'value() returns a '
                 'value with and without a linear part (%d)' % nret, 0))
    seen = {}
    rank = {'proved': 0, 'undecided': 1, 'refuted': 2}
    for kind, pc, goal, text, line in sink:
        r = ex.check(pc, [z3.Not(goal)], timeout=timeout_ms)
        st_ = 'proved' if r == z3.unsat else ('refuted' if r == z3.sat
                                              else 'undecided')
        if st_ == 'refuted' and z3.is_false(z3.simplify(goal)):
            FORM_REFUTED.add(text)
        if kind == 'covered' and st_ != 'proved':
            st_ = 'undecided'
        key = (kind, text)
        if key not in seen or rank[st_] > rank[seen[key][0]]:
            seen[key] = (st_, line)
    for i_, ((kind, text), (st_, line)) in enumerate(sorted(seen.items())):
        add('%s#%d' % (kind, i_), kind, st_, text, line)
    return obs


# ------------------------------------- a * max(...), -max(...), +max(...)
# _minmax.__mul__(a) (a a number or a 1x1 matrix), __neg__, __pos__:
#   a * max(f_0, f_1, ...) = max(a f_0, a f_1, ...)  for a >= 0,
#                          = min(a f_0, a f_1, ...)  for a <  0   (and dually
# for min);  -max(f_k) = min(-f_k);  +max(f_k) = max(+f_k) (copies).
# The argument list has symbolic length; the comprehension over it is the
# element-wise image.
class MapSeq:
    abs_object = True
    abs_star = True

    def __init__(self, src, elt, k):
        self.src, self.elt, self.k = src, elt, k


def _vseq_comp(self, ex, st, n, g, fid):
    if g.ifs or not isinstance(g.target, ast.Name):
        raise Unsupported('comprehension over the arguments')
    k = z3.Int('k!')
    el = self.elem(k)
    nf = next(ex.fid)
    st.frames[nf] = {g.target.id: el}
    st.parent[nf] = fid
    try:
        v = ex.ev(n.elt, st, nf)
    finally:
        st.frames.pop(nf, None)
    if not isinstance(v, Vec):
        raise Unsupported('comprehension does not build functions')
    return MapSeq(self, v, k)


VSeq.abs_comp = _vseq_comp
_vec_unop0 = Vec.abs_unop


def _vec_unop(self, ex, st, op, n):
    if isinstance(op, ast.USub):
        f = self.val
        return Vec(self.kind, self.ln, lambda i: -f(i))
    return _vec_unop0(self, ex, st, op, n)


Vec.abs_unop = _vec_unop


class MMBuilt2:
    abs_object = True

    def __init__(self, name, seq):
        self.name, self.seq = name, seq


def mmul_obligations(timeout_ms=10000):
    tree, src = driver.load_module('modeling.py')
    obs, sink = [], []

    def add(fn, oid, kind, status, text, line=0, detail=None):
        obs.append({'id': 'modeling.py:%s:%s:%s' % (fn, kind, oid),
                    'kind': kind, 'status': status, 'text': text,
                    'line': line, 'model': None, 'detail': detail,
                    'by': ['z3'] if status == 'proved' else []})
    saved = {k_: L.ext.get(k_) for k_ in (
        'cvxopt.modeling._minmax', 'cvxopt.modeling._sum_minmax',
        'cvxopt.modeling._ismatrix', 'builtins.type')}
    type0 = saved['builtins.type']

    def mk_for(ctor):
        def mk(ex_, st, args, kwargs, n):
            c, nm = const_of(args[0]) if args else (False, None)
            if c and nm in ('max', 'min') and len(args) == 2 and isinstance(
                    args[1], MapSeq):
                r = MMBuilt2(nm, args[1])
                r.ctor = ctor
                return r
            raise Unsupported('%s(%r)' % (ctor, args))
        return mk

    def ismat(ex_, st, args, kwargs, n):
        return False            # the operand of this scenario is a float
    a = z3.Real('a')
    i, kk = z3.Int('i'), z3.Int('kk')
    ex = None
    try:
        for cls, meth, factor in [(c_, m_, f_) for c_ in (
                '_minmax', '_sum_minmax') for m_, f_ in (
                    ('__mul__', a), ('__neg__', z3.RealVal(-1)),
                    ('__pos__', z3.RealVal(1)))]:
            ex = core.Executor(tree, 'cvxopt.modeling', L, {'unroll': 8})
            lg = z3.Int('len(f)')
            nf = z3.Int('number of functions')
            ismax = z3.Bool('is max')
            tl = z3.Function('len of function', IS, IS)
            g = z3.Function('value of function', IS, IS, RS)
            fl = VSeq('_flist', nf, tl, g, True, z3.Function('fl_', IS, IS),
                      z3.Function('sig_', IS, RS))
            fl.inv_fn = lambda k, lg_: []

            def setup(ex_, st, fid, f_, fl=fl, ismax=ismax, lg=lg, nf=nf):
                install()
                L.ext['cvxopt.modeling._minmax'] = mk_for('_minmax')
                L.ext['cvxopt.modeling._sum_minmax'] = mk_for('_sum_minmax')
                L.ext['cvxopt.modeling._ismatrix'] = ismat
                fr = st.frames[fid]
                fr['self'] = MMArg(lg, fl, ismax)
                fr['other'] = R(a)
                st.pc += [lg >= 1, nf >= 1]
                st.ghost.update({'lg': lg, 'frame_check': False})
            fname = '%s.%s' % (cls, meth)
            try:
                ex.find_function(fname)
                outs = ex.run_function(fname, setup)
            except (Unsupported, KeyError) as e:
                add(fname, 'supported', 'minmax-scale', 'undecided',
                    '%s is inside the supported subset' % fname,
                    detail=repr(e))
                continue
            for o in outs:
                st = o.st
                if o.kind != 'return' or not isinstance(o.val, MMBuilt2):
                    sink.append((ex, fname, 'minmax-scale', list(st.pc),
                                 z3.BoolVal(False), '%s returns a new max / '
                                 'min object' % fname, 0))
                    continue
                v = o.val
                ms = v.seq
                elt = ms.elt
                kq = ms.k
                val_at = lambda k_, i_: z3.substitute(elt.val(i_), (kq, k_))
                sink.append((ex, fname, 'minmax-scale', list(st.pc) + [
                    kk >= 0, kk < nf, i >= 0], z3.And(
                        z3.BoolVal(ms.src is fl and v.ctor == cls),
                        z3.BoolVal(v.name == 'max') == z3.If(
                            factor >= 0, ismax, z3.Not(ismax)),
                        val_at(kk, i) == factor * g(kk, i),
                        z3.substitute(elt.ln, (kq, kk)) == tl(kk)),
                    '%s: the result is an object of the same class, the max '
                    '(min) of the scaled arguments -- every argument, scaled by the factor, same '
                    'lengths -- and max and min change places exactly for a '
                    'negative factor' % fname, 0))
    finally:
        for k_, v_ in saved.items():
            if v_ is None:
                L.ext.pop(k_, None)
            else:
                L.ext[k_] = v_
    seen = {}
    rank = {'proved': 0, 'undecided': 1, 'refuted': 2}
    for ex_, fn, kind, pc, goal, text, line in sink:
        r = ex_.check(pc, [z3.Not(goal)], timeout=timeout_ms)
        st_ = 'proved' if r == z3.unsat else ('refuted' if r == z3.sat
                                              else 'undecided')
        if st_ == 'refuted' and z3.is_false(z3.simplify(goal)):
            FORM_REFUTED.add(text)
        key = (fn, kind, text)
        if key not in seen or rank[st_] > rank[seen[key][0]]:
            seen[key] = (st_, line)
    for i_, ((fn, kind, text), (st_, line)) in enumerate(sorted(
            seen.items())):
        add(fn, '%s#%d' % (kind, i_), kind, st_, text, line)
    return obs
