"""G4: abstract inner-product algebra (DESIGN 2.3).

Ghost value of a vector object: f['val'] = {atom: coefficient (z3 Real)} or
None (unknown).  Atoms: input vectors ('c', 'b', 'h', 'q', ...), loop-head
snapshots of solver vectors, and images of atoms under the input operators:
'A(a)', 'At(a)', 'G(a)', 'Gt(a)', 'P(a)'.  Inner products of atoms are
symmetric uninterpreted reals:  ip[a|b] (Euclidean, blas.dot / xdot / ydot)
and sip[a|b] (cone inner product, misc.sdot).  Floats are reals.

Only active when the executor config has 'algebra': True (it needs the
exact, nonlinear semantics of * and / on reals: 'exact_arith', 'exact_sqrt').
"""
import z3

ONE = z3.RealVal(1)


def enabled(ex):
    return bool(ex.cfg.get('algebra'))


def atom(name):
    return {name: ONE}


def scale(val, a):
    if val is None:
        return None
    return {k: a * v for k, v in val.items()}


def add(u, v):
    if u is None or v is None:
        return None
    out = dict(u)
    for k, c in v.items():
        out[k] = out[k] + c if k in out else c
    return out


def apply_op(val, op):
    """image under a linear operator given by a name: 'A', 'At', ..."""
    if val is None:
        return None
    return {'%s(%s)' % (op, k): c for k, c in val.items()}


def ipconst(kind, a, b):
    x, y = sorted((a, b))
    return z3.Real('%s[%s|%s]' % (kind, x, y))


def poly(kind, u, v):
    tot = z3.RealVal(0)
    for a, ca in u.items():
        for b, cb in v.items():
            tot = tot + ca * cb * ipconst(kind, a, b)
    return tot


def inner(kind, u, v, ex=None):
    """<u, v>.  With an executor: a fresh real constant whose defining
    polynomial (in the coefficients and the atom products) is kept in the
    executor's side table of algebra facts -- the path conditions stay
    linear, the definitions are used only when an algebra obligation is
    discharged.  Without: the polynomial itself."""
    if u is None or v is None:
        return None
    t = poly(kind, u, v)
    if ex is None:
        return t
    k = z3.Real(ex.fresh('ipval'))
    facts(ex).append(k == t)
    return k


def facts(ex):
    if not hasattr(ex, 'alg_facts'):
        ex.alg_facts = []
    return ex.alg_facts


def nonneg_facts(kind, u):
    """<u,u> >= 0 (positive semidefinite form)"""
    t = inner(kind, u, u)
    return [] if t is None else [t >= 0]


def valof(st, ref):
    from engine.pyvc.core import Ref
    if isinstance(ref, Ref) and ref.oid in st.heap:
        return st.heap[ref.oid].f.get('val')
    return None


def setval(st, ref, val):
    from engine.pyvc.core import Ref
    if isinstance(ref, Ref) and ref.oid in st.heap:
        st.heap[ref.oid].f['val'] = val
