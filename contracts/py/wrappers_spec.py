"""Wrapper entry points lp / socp / sdp / qp (coneprog.py) and cp / gp
(cvxprog.py): verified against the *contracts* of the solvers they call
(conelp, coneqp, cpl, cp), not their bodies (modular verification).

Callee contract (assumed here, proved for the callee in coneprog_spec /
cvxprog_spec): returns a result dictionary whose status and None-pattern are
the documented ones; does not modify its arguments.
Obligations on the wrapper:
  * options flow (C09a): the callee receives, as `options=`, the caller's
    own `options=` dictionary when one was given and the module-level
    dictionary otherwise;
  * status propagation and None-pattern (C01/C02/C03/C04);
  * frame (C09d) on everything the wrapper itself does;
  * exception types (C10).
"""
import ast, z3
from engine.pyvc.core import (I, R, B, Dyn, Ref, Ext, Unknown, PyRaise,
                              const_of, TAG_STR, TAG_NONE, strid, NeedFork,
                              Unsupported)
from contracts.py.extern_cvxopt import LIB as L, is_matrix, mat, arg
from contracts.py import coneprog_spec as cs
from contracts.py import cvxprog_spec as vs

CONELP_STATUSES = cs.STATUSES


def expected_options(ex, st):
    """the dictionary a nested solver call must receive"""
    u = st.ghost.get('user_options')
    if u is not None:
        return u, "the caller's options= dictionary"
    return cs.global_options(ex, st), 'the module-level solvers.options'


def check_options_flow(ex, st, kwargs, n, callee):
    exp, what = expected_options(ex, st)
    got = kwargs.get('options')
    ok = isinstance(got, Ref) and got.oid == exp.oid
    ex.oblige(st, 'options-flow', ok, n,
              '%s is called with options= %s' % (callee, what),
              extra={'prop': 'C09'})


def pick_status(ex, st, n, statuses, what):
    """nondeterministic status of the callee (forks)"""
    for s_ in statuses[:-1]:
        if ex.choose(st, n, '%s_returns_%s' % (what, s_.replace(' ', '_'))):
            return s_
    return statuses[-1]


def fresh_vec(ex, st, name, nrows, n, full_sym=True):
    return L.new_matrix(ex, st, nrows, 1, 'd', site=n.lineno, name=name,
                        symval=z3.Int('SYM_ALL') if full_sym else None)


def conelp_like_result(ex, st, n, statuses, what, cdim, nx, ny,
                       with_cert=True):
    status = pick_status(ex, st, n, list(statuses), what)
    num = lambda nm: ex.fresh_real('%s.%s' % (what, nm))
    d = {'status': status}
    opt = status in ('optimal', 'unknown')
    d['x'] = fresh_vec(ex, st, what + '.x', nx, n) if status != \
        'primal infeasible' else None
    d['s'] = fresh_vec(ex, st, what + '.s', cdim, n) if status != \
        'primal infeasible' else None
    d['y'] = fresh_vec(ex, st, what + '.y', ny, n) if status != \
        'dual infeasible' else None
    d['z'] = fresh_vec(ex, st, what + '.z', cdim, n) if status != \
        'dual infeasible' else None
    for k in ('gap', 'primal infeasibility', 'dual infeasibility'):
        d[k] = num(k) if opt else None
    d['relative gap'] = ex.fresh_dyn(what + '.relgap') if opt else None
    d['primal objective'] = num('pcost') if opt else (
        None if status == 'primal infeasible' else -1.0)
    d['dual objective'] = num('dcost') if opt else (
        1.0 if status == 'primal infeasible' else None)
    d['primal slack'] = num('pslack') if status != 'primal infeasible' \
        else None
    d['dual slack'] = num('dslack') if status != 'dual infeasible' else None
    if with_cert:
        d['residual as primal infeasibility certificate'] = (
            num('pinfres') if status == 'primal infeasible' else (
                ex.fresh_dyn(what + '.pinfres') if status == 'unknown'
                else None))
        d['residual as dual infeasibility certificate'] = (
            num('dinfres') if status == 'dual infeasible' else (
                ex.fresh_dyn(what + '.dinfres') if status == 'unknown'
                else None))
    d['iterations'] = ex.fresh_int(what + '.iterations')
    ref = ex.alloc(st, 'dict', {'items': d, 'open': False},
                   {'owner': 'FRESH', 'site': n.lineno,
                    'name': what + ' result', 'callee_result': what})
    st.ghost['callee_result'] = ref
    st.ghost['callee_status'] = status
    return ref


def nrows_of(ex, st, v, default):
    if is_matrix(st, v):
        return mat(st, v).f['nrows']
    return default


@L.register('cvxopt.coneprog.conelp')
def callee_conelp(ex, st, args, kwargs, n):
    fn = ex.funcs['conelp']
    defaults = [None] * len(fn.args.defaults)
    b = ex.bind_args(st, fn, defaults, list(args), dict(kwargs), n)
    check_options_flow(ex, st, kwargs, n, 'conelp')
    st.ghost['callee_args'] = b
    cdim = nrows_of(ex, st, b['h'], ex.fresh_int('cdim'))
    nx = nrows_of(ex, st, b['c'], ex.fresh_int('n'))
    ny = nrows_of(ex, st, b['b'], 0) if b['b'] is not None else 0
    return conelp_like_result(ex, st, n, CONELP_STATUSES, 'conelp', cdim,
                              nx, ny)


@L.register('cvxopt.coneprog.coneqp')
def callee_coneqp(ex, st, args, kwargs, n):
    fn = ex.funcs['coneqp']
    defaults = [None] * len(fn.args.defaults)
    b = ex.bind_args(st, fn, defaults, list(args), dict(kwargs), n)
    check_options_flow(ex, st, kwargs, n, 'coneqp')
    st.ghost['callee_args'] = b
    cdim = nrows_of(ex, st, b['h'], 0) if b['h'] is not None else 0
    nx = nrows_of(ex, st, b['q'], ex.fresh_int('n'))
    ny = nrows_of(ex, st, b['b'], 0) if b['b'] is not None else 0
    return conelp_like_result(ex, st, n, ('optimal', 'unknown'), 'coneqp',
                              cdim, nx, ny, with_cert=False)


# ------------------------------------------------------------------ setups
def lp_setup(sc):
    def setup(ex, st, fid, fn):
        fr = st.frames[fid]
        sp = bool(sc.get('sparse', False))
        fr['c'] = cs.input_matrix(ex, st, 'c', ncols=1)
        fr['G'] = cs.input_matrix(ex, st, 'G', sparse=sp)
        fr['h'] = cs.input_matrix(ex, st, 'h', ncols=1)
        fr['A'] = cs.input_matrix(ex, st, 'A', sparse=sp) if sc.get(
            'A', True) else None
        fr['b'] = cs.input_matrix(ex, st, 'b', ncols=1) if sc.get(
            'A', True) else None
        fr['kktsolver'] = None
        fr['solver'] = sc.get('solver')
        fr['primalstart'] = cs.start_dict(
            ex, st, 'primalstart', ['x', 's'], None) if sc.get(
                'starts') else None
        fr['dualstart'] = cs.start_dict(
            ex, st, 'dualstart', ['y', 'z'], None) if sc.get(
                'starts') else None
        fr['kwargs'] = cs.kwargs_dict(ex, st, sc.get('options', False))
        ex.axioms.append(cs.SYM_AXIOM)
        st.ghost['scenario'] = sc
    return setup


def matrix_list(ex, st, name, lens, owner, square=False, ncols=None):
    """symbolic list of input matrices whose k-th element has lens(k) rows"""
    ln = lens['len']
    proto_rows = lens['fn']

    def elem(ex, st, k):
        if isinstance(k, I):
            k = k.t
        if isinstance(k, int):
            k = z3.IntVal(k)
        if z3.is_real(k):
            k = z3.ToInt(k)
        rows = proto_rows(k)
        r = I(rows)
        key = ('mlist', name, str(z3.simplify(k)))
        hit = st.ghost.get(key)
        if hit is not None and hit.oid in st.heap:
            return hit
        m = L.new_matrix(ex, st, r, r if square else (ncols if ncols is not
                                                       None else 1), 'd',
                         owner=owner, name='%s[%s]' % (name, k))
        st.ghost[key] = m
        return m
    return ex.alloc(st, 'list', {'len': ln, 'elem': ('map', elem)},
                    {'owner': owner, 'name': name})


def socp_setup(sc):
    def setup(ex, st, fid, fn):
        fr = st.frames[fid]
        sp = bool(sc.get('sparse', False))
        n_ = ex.fresh_int('n')
        ex.axioms.append(n_.t >= 0)
        fr['c'] = cs.input_matrix(ex, st, 'c', nrows=n_, ncols=1)
        fr['Gl'] = cs.input_matrix(ex, st, 'Gl', ncols=n_, sparse=sp) \
            if sc.get('l', True) else None
        fr['hl'] = cs.input_matrix(ex, st, 'hl', ncols=1) if sc.get(
            'l', True) else None
        if sc.get('q', True):
            mq = z3.Function('mq', z3.IntSort(), z3.IntSort())
            nq = ex.fresh_int('len(Gq)')
            ex.axioms.append(nq.t >= 0)
            lens = {'len': nq, 'fn': lambda k: mq(k)}
            fr['Gq'] = matrix_list(ex, st, 'Gq', lens, 'INPUT:Gq', ncols=n_)
            fr['hq'] = matrix_list(ex, st, 'hq', lens, 'INPUT:hq', ncols=1)
            st.ghost['mq'] = (mq, nq)
        else:
            fr['Gq'] = None
            fr['hq'] = None
        fr['A'] = cs.input_matrix(ex, st, 'A', ncols=n_, sparse=sp) if \
            sc.get('A', True) else None
        fr['b'] = cs.input_matrix(ex, st, 'b', ncols=1) if sc.get(
            'A', True) else None
        fr['kktsolver'] = None
        fr['solver'] = sc.get('solver')
        fr['primalstart'] = None
        fr['dualstart'] = None
        if sc.get('starts') and sc.get('q', True):
            fr['primalstart'] = start_with_list(ex, st, 'primalstart', 'x',
                                                'sl', 'sq', lens, False)
            fr['dualstart'] = start_with_list(ex, st, 'dualstart', 'y',
                                              'zl', 'zq', lens, False)
        fr['kwargs'] = cs.kwargs_dict(ex, st, sc.get('options', False))
        ex.axioms.append(cs.SYM_AXIOM)
        st.ghost['scenario'] = sc
    return setup


def start_with_list(ex, st, name, vkey, lkey, listkey, lens, square):
    items = {vkey: cs.input_matrix(ex, st, "%s['%s']" % (name, vkey),
                                   ncols=1),
             lkey: cs.input_matrix(ex, st, "%s['%s']" % (name, lkey),
                                   ncols=1),
             listkey: matrix_list(ex, st, "%s['%s']" % (name, listkey), lens,
                                  'INPUT:%s' % name, square=square)}
    return ex.alloc(st, 'dict', {'items': items, 'open': False},
                    {'owner': 'INPUT:' + name, 'name': name})


def sdp_setup(sc):
    def setup(ex, st, fid, fn):
        fr = st.frames[fid]
        sp = bool(sc.get('sparse', False))
        n_ = ex.fresh_int('n')
        ex.axioms.append(n_.t >= 0)
        fr['c'] = cs.input_matrix(ex, st, 'c', nrows=n_, ncols=1)
        fr['Gl'] = cs.input_matrix(ex, st, 'Gl', ncols=n_, sparse=sp) \
            if sc.get('l', True) else None
        fr['hl'] = cs.input_matrix(ex, st, 'hl', ncols=1) if sc.get(
            'l', True) else None
        if sc.get('s', True):
            ms = z3.Function('ms', z3.IntSort(), z3.IntSort())
            ns = ex.fresh_int('len(Gs)')
            ex.axioms.append(ns.t >= 0)
            fr['Gs'] = matrix_list(ex, st, 'Gs', {
                'len': ns, 'fn': lambda k: ms(k) * ms(k)}, 'INPUT:Gs',
                ncols=n_)
            fr['hs'] = matrix_list(ex, st, 'hs', {
                'len': ns, 'fn': lambda k: ms(k)}, 'INPUT:hs', square=True)
            st.ghost['ms'] = (ms, ns)
            slens = {'len': ns, 'fn': lambda k: ms(k)}
        else:
            fr['Gs'] = None
            fr['hs'] = None
        fr['A'] = cs.input_matrix(ex, st, 'A', ncols=n_, sparse=sp) if \
            sc.get('A', True) else None
        fr['b'] = cs.input_matrix(ex, st, 'b', ncols=1) if sc.get(
            'A', True) else None
        fr['kktsolver'] = None
        fr['solver'] = sc.get('solver')
        fr['primalstart'] = None
        fr['dualstart'] = None
        if sc.get('starts') and sc.get('s', True):
            fr['primalstart'] = start_with_list(ex, st, 'primalstart', 'x',
                                                'sl', 'ss', slens, True)
            fr['dualstart'] = start_with_list(ex, st, 'dualstart', 'y',
                                              'zl', 'zs', slens, True)
        fr['kwargs'] = cs.kwargs_dict(ex, st, sc.get('options', False))
        ex.axioms.append(cs.SYM_AXIOM)
        st.ghost['scenario'] = sc
    return setup


def qp_setup(sc):
    def setup(ex, st, fid, fn):
        fr = st.frames[fid]
        sp = bool(sc.get('sparse', False))
        fr['P'] = cs.input_matrix(ex, st, 'P', sparse=sp)
        fr['q'] = cs.input_matrix(ex, st, 'q', ncols=1)
        fr['G'] = cs.input_matrix(ex, st, 'G', sparse=sp) if sc.get(
            'G', True) else None
        fr['h'] = cs.input_matrix(ex, st, 'h', ncols=1) if sc.get(
            'G', True) else None
        fr['A'] = cs.input_matrix(ex, st, 'A', sparse=sp) if sc.get(
            'A', True) else None
        fr['b'] = cs.input_matrix(ex, st, 'b', ncols=1) if sc.get(
            'A', True) else None
        fr['solver'] = sc.get('solver')
        fr['kktsolver'] = None
        fr['initvals'] = None
        fr['kwargs'] = cs.kwargs_dict(ex, st, sc.get('options', False))
        ex.axioms.append(cs.SYM_AXIOM)
        st.ghost['scenario'] = sc
    return setup


WRAP_SCENARIOS = {
    'defaults': {},
    'starts': {'starts': True, 'options': True},
    'options': {'options': True},
    'options-noA-sparse': {'options': True, 'A': False, 'sparse': True},
}


# ---------------------------------------------------------------- outcomes
def wrapper_on_outcomes(fname, callee, prop_ok, split=None):
    """split: {result key: source key} for keys derived from the callee's
    s / z (socp, sdp)"""
    def on_outcomes(ex, outs):
        summ = {'returns': {}, 'raises': {}}
        for o in outs:
            st = o.st
            if o.kind == 'raise':
                et, msg, line = o.val
                summ['raises'][et] = summ['raises'].get(et, 0) + 1
                key = '%s@%s' % (et, line)
                summ.setdefault('raise_sites', {})
                summ['raise_sites'][key] = summ['raise_sites'].get(key, 0) + 1
                ex.oblige(st, 'exception-type', et in ('TypeError',
                                                       'ValueError'), None,
                          'only TypeError/ValueError leave %s (%s raised at '
                          'line %s)' % (fname, et, line),
                          extra={'prop': 'C10'})
                st.obligs[-1].line = line or 0
                continue
            if o.kind != 'return':
                continue
            v = o.val
            res = st.ghost.get('callee_result')
            if res is None:
                # a path that did not call the native solver (external
                # solver branch): not covered by this contract
                summ['returns']['<no native call>'] = summ['returns'].get(
                    '<no native call>', 0) + 1
                continue
            status = st.ghost.get('callee_status')
            summ['returns'][status] = summ['returns'].get(status, 0) + 1
            prop = 'C02' if status in ('primal infeasible',
                                       'dual infeasible') else prop_ok
            where = '%s after %s returned %r' % (fname, callee, status)

            def ob(kind, goal, text, prop=prop):
                ex.oblige(st, kind, goal, None, '%s: %s' % (where, text),
                          extra={'prop': prop})
            ob('returns-dict', isinstance(v, Ref) and st.heap[
                v.oid].kind == 'dict', 'a result dictionary is returned',
                'C10')
            if not (isinstance(v, Ref) and st.heap[v.oid].kind == 'dict'):
                continue
            d = st.heap[v.oid].f['items']
            ob('status-propagation', d.get('status') == status or (
                isinstance(d.get('status'), str) and d.get('status') ==
                status), "result['status'] is the status returned by %s" %
                callee)
            rd = st.heap[res.oid].f['items'] if res.oid in st.heap else {}
            for key in ('x', 'y'):
                if key in d:
                    same = (d[key] is None) == (status == (
                        'primal infeasible' if key == 'x' else
                        'dual infeasible'))
                    ob('none-pattern', same,
                       "result['%s'] is None exactly for the status that "
                       "has no such vector" % key)
            if split:
                for key, src in split.items():
                    none_exp = status == ('primal infeasible' if src == 's'
                                          else 'dual infeasible')
                    val = d.get(key, 'MISSING')
                    ob('none-pattern', (val is None) == none_exp and val !=
                       'MISSING', "result['%s'] is None exactly when %s "
                       "returned no %s" % (key, callee, src))
                for key, src in (('sl', 's'), ('zl', 'z')):
                    v_ = d.get(key)
                    if key in d and is_matrix(st, v_) and isinstance(
                            rd.get(src), Ref):
                        vf = mat(st, v_).f
                        dims_ = st.ghost.get('callee_args', {}).get('dims')
                        ml_ = ex.num(st, st.heap[dims_.oid].f['items']['l'])[1]
                        ok_ = vf.get('slice_src') == rd[src].oid and \
                            vf.get('slice_lo_t') is not None
                        ob('block-split', z3.And(vf['slice_lo_t'] == 0,
                                                 vf['slice_hi_t'] == ml_)
                           if ok_ else False,
                           "result['%s'] is the 'l' block (first dims['l'] "
                           "rows) of the %s returned by conelp" % (key, src))
                for src in ('s', 'z'):
                    ob('result-fields', src not in d,
                       "the combined vector '%s' is removed from the "
                       "wrapper's result" % src)
            for key in ('gap', 'relative gap', 'primal objective',
                        'dual objective', 'primal infeasibility',
                        'dual infeasibility', 'primal slack', 'dual slack',
                        'residual as primal infeasibility certificate',
                        'residual as dual infeasibility certificate',
                        'iterations'):
                if key in rd:
                    ob('field-propagation', key in d and d[key] is rd[key],
                       "result['%s'] is the value returned by %s" % (key,
                                                                    callee))
        return summ
    return on_outcomes


FUNCS = {
    'lp': {'setup': lp_setup, 'scenarios': dict(WRAP_SCENARIOS),
        'on_outcomes': wrapper_on_outcomes('lp', 'conelp', 'C01'),
        'config': {'unroll': 4}},
    'socp': {'setup': socp_setup, 'scenarios': WRAP_SCENARIOS,
             'on_outcomes': wrapper_on_outcomes(
                 'socp', 'conelp', 'C01', {'sl': 's', 'sq': 's', 'zl': 'z',
                                           'zq': 'z'}),
             'config': {'unroll': 4}},
    'sdp': {'setup': sdp_setup, 'scenarios': WRAP_SCENARIOS,
            'on_outcomes': wrapper_on_outcomes(
                'sdp', 'conelp', 'C01', {'sl': 's', 'ss': 's', 'zl': 'z',
                                         'zs': 'z'}),
            'config': {'unroll': 4}},
    'qp': {'setup': qp_setup, 'scenarios': WRAP_SCENARIOS,
           'on_outcomes': wrapper_on_outcomes('qp', 'coneqp', 'C03'),
           'config': {'unroll': 4}},
}


# ----------------------------------------------------- cvxprog: cp and gp
def cpl_like_result(ex, st, n, what, xval, mnl):
    status = pick_status(ex, st, n, ['optimal', 'unknown'], what)
    num = lambda nm: ex.fresh_real('%s.%s' % (what, nm))
    d = {'status': status, 'x': xval,
         'y': Unknown('y of ' + what),
         'znl': fresh_vec(ex, st, what + '.znl', mnl, n, full_sym=False),
         'snl': fresh_vec(ex, st, what + '.snl', mnl, n, full_sym=False),
         'zl': fresh_vec(ex, st, what + '.zl', ex.fresh_int('cdim'), n),
         'sl': fresh_vec(ex, st, what + '.sl', ex.fresh_int('cdim'), n),
         'gap': num('gap'), 'relative gap': ex.fresh_dyn(what + '.relgap'),
         'primal objective': num('pcost'), 'dual objective': num('dcost'),
         'primal slack': num('pslack'), 'dual slack': num('dslack'),
         'primal infeasibility': num('pres'),
         'dual infeasibility': num('dres')}
    ref = ex.alloc(st, 'dict', {'items': d, 'open': False},
                   {'owner': 'FRESH', 'site': n.lineno,
                    'name': what + ' result'})
    st.ghost['callee_result'] = ref
    st.ghost['callee_status'] = status
    st.ghost['callee_fields'] = dict(d)
    return ref


@L.register('cvxopt.cvxprog.cpl')
def callee_cpl(ex, st, args, kwargs, n):
    fn = ex.funcs['cpl']
    defaults = [None] * len(fn.args.defaults)
    b = ex.bind_args(st, fn, defaults, list(args), dict(kwargs), n)
    check_options_flow(ex, st, kwargs, n, 'cpl')
    st.ghost['callee_args'] = b
    # x has the structure xnewcopy produces from the x0 returned by F()
    F = b['F']
    r = ex.call(st, F, [], {}, n, None)
    if not (isinstance(r, tuple) and len(r) == 2):
        raise Unsupported('F() of the nested problem did not return a pair')
    mnl, x0 = r
    xn = b.get('xnewcopy')
    if xn is None:
        xval = L.new_matrix(ex, st, vs_nrows(ex, st, x0), 1, 'd',
                            site=n.lineno, name='cpl.x')
    else:
        xval = ex.call(st, xn, [x0], {}, n, None)
    st.ghost['callee_mnl'] = mnl
    return cpl_like_result(ex, st, n, 'cpl', xval, mnl)


def vs_nrows(ex, st, v):
    if is_matrix(st, v):
        return mat(st, v).f['nrows']
    return ex.fresh_int('n')


@L.register('cvxopt.cvxprog.cp')
def callee_cp(ex, st, args, kwargs, n):
    fn = ex.funcs['cp']
    defaults = [None] * len(fn.args.defaults)
    b = ex.bind_args(st, fn, defaults, list(args), dict(kwargs), n)
    check_options_flow(ex, st, kwargs, n, 'cp')
    st.ghost['callee_args'] = b
    r = ex.call(st, b['F'], [], {}, n, None)
    if not (isinstance(r, tuple) and len(r) == 2):
        raise Unsupported('F() of the nested problem did not return a pair')
    mnl, x0 = r
    xval = L.new_matrix(ex, st, vs_nrows(ex, st, x0), 1, 'd', site=n.lineno,
                        name='cp.x')
    return cpl_like_result(ex, st, n, 'cp', xval, mnl)


def cp_on_outcomes(ex, outs):
    summ = {'returns': {}, 'raises': {}}
    for o in outs:
        st = o.st
        if o.kind == 'raise':
            et, msg, line = o.val
            summ['raises'][et] = summ['raises'].get(et, 0) + 1
            key = '%s@%s' % (et, line)
            summ.setdefault('raise_sites', {})
            summ['raise_sites'][key] = summ['raise_sites'].get(key, 0) + 1
            ex.oblige(st, 'exception-type', et in ('TypeError', 'ValueError'),
                      None, 'only TypeError/ValueError leave cp (%s raised '
                      'at line %s)' % (et, line), extra={'prop': 'C10'})
            st.obligs[-1].line = line or 0
            continue
        if o.kind != 'return':
            continue
        v = o.val
        status = st.ghost.get('callee_status')
        summ['returns'][status] = summ['returns'].get(status, 0) + 1
        if st.ghost.get('callee_result') is None:
            continue

        def ob(kind, goal, text, prop='C04'):
            ex.oblige(st, kind, goal, None, 'cp after cpl returned %r: %s' %
                      (status, text), extra={'prop': prop})
        ok = isinstance(v, Ref) and st.heap[v.oid].kind == 'dict'
        ob('returns-dict', ok, 'a result dictionary is returned', 'C10')
        if not ok:
            continue
        d = st.heap[v.oid].f['items']
        cf = st.ghost['callee_fields']
        ob('status-propagation', d.get('status') == status,
           "result['status'] is the status returned by cpl")
        # the epigraph variable t and its multiplier are stripped
        x = d.get('x')
        ob('epigraph-stripped', is_matrix(st, x) and isinstance(
            cf['x'], Ref) and st.heap[cf['x'].oid].kind == 'list' and
            st.heap[cf['x'].oid].f.get('items', [None])[0] is not None and
            isinstance(st.heap[cf['x'].oid].f['items'][0], Ref) and
            st.heap[cf['x'].oid].f['items'][0].oid == x.oid,
            "result['x'] is the x-component of the epigraph variable [x, t]")
        mnl_e = st.ghost.get('callee_mnl')
        for key in ('znl', 'snl'):
            m = d.get(key)
            if is_matrix(st, m) and mnl_e is not None:
                got = ex.num(st, mat(st, m).f['nrows'])[1]
                exp = ex.num(st, mnl_e)[1] - 1
                ob('epigraph-stripped', z3.And(got == exp,
                                               z3.BoolVal(mat(st, m).f.get(
                                                   'slice_lo') == 1)),
                   "result['%s'] is the nested %s without its first entry "
                   "(the epigraph constraint)" % (key, key))
            else:
                ob('epigraph-stripped', False, "result['%s'] is a vector"
                   % key)
        for key in ('zl', 'sl', 'gap', 'relative gap', 'primal objective',
                    'dual objective', 'primal slack', 'dual slack',
                    'primal infeasibility', 'dual infeasibility', 'y'):
            ob('field-propagation', key in d and d[key] is cf[key],
               "result['%s'] is the value returned by cpl" % key)
    return summ


def gp_setup(sc):
    def setup(ex, st, fid, fn):
        fr = st.frames[fid]
        sp = bool(sc.get('sparse', False))
        nk = ex.fresh_int('len(K)')
        ex.axioms.append(nk.t >= 1)
        Kf = z3.Function('K', z3.IntSort(), z3.IntSort())
        fr['K'] = ex.alloc(st, 'list', {'len': nk, 'elem': (
            'fn', lambda k, Kf=Kf: Kf(k))}, {'owner': 'INPUT:K',
                                           'name': 'K', 'lo': 1,
                                           'nonneg': True})
        fr['F'] = cs.input_matrix(ex, st, 'F', sparse=sp)
        fr['g'] = cs.input_matrix(ex, st, 'g', ncols=1)
        fr['G'] = cs.input_matrix(ex, st, 'G', sparse=sp) if sc.get(
            'G', True) else None
        fr['h'] = cs.input_matrix(ex, st, 'h', ncols=1) if sc.get(
            'G', True) else None
        fr['A'] = cs.input_matrix(ex, st, 'A', sparse=sp) if sc.get(
            'A', True) else None
        fr['b'] = cs.input_matrix(ex, st, 'b', ncols=1) if sc.get(
            'A', True) else None
        fr['kktsolver'] = None
        fr['kwargs'] = cs.kwargs_dict(ex, st, sc.get('options', False))
        ex.axioms.append(cs.SYM_AXIOM)
        st.ghost['scenario'] = sc
    return setup


def gp_on_outcomes(ex, outs):
    summ = {'returns': {}, 'raises': {}}
    for o in outs:
        st = o.st
        if o.kind == 'raise':
            et, msg, line = o.val
            summ['raises'][et] = summ['raises'].get(et, 0) + 1
            ex.oblige(st, 'exception-type', et in ('TypeError', 'ValueError'),
                      None, 'only TypeError/ValueError leave gp (%s raised '
                      'at line %s)' % (et, line), extra={'prop': 'C10'})
            st.obligs[-1].line = line or 0
            continue
        if o.kind != 'return':
            continue
        res = st.ghost.get('callee_result')
        status = st.ghost.get('callee_status')
        summ['returns'][status] = summ['returns'].get(status, 0) + 1
        ex.oblige(st, 'status-propagation', res is not None and isinstance(
            o.val, Ref) and o.val.oid == res.oid, None,
            "gp returns the result of cp unchanged", extra={'prop': 'C04'})
    return summ


FUNCS_CVXPROG = {
    'cp': {'setup': vs.cp_setup, 'scenarios': {
        'defaults': {}, 'options': {'options': True},
        'noG-noA-sparse': {'G': False, 'A': False, 'b': False,
                           'dims': False, 'options': True, 'sparse': True},
        'customy-nob': {'customy': True, 'b': False,
                        'kktsolver': 'callable'}},
        'on_outcomes': cp_on_outcomes, 'config': {'unroll': 4}},
    'gp': {'setup': gp_setup, 'scenarios': WRAP_SCENARIOS,
           'on_outcomes': gp_on_outcomes, 'config': {'unroll': 4}},
}


# ------------------------------------------- splitting of s, z into blocks
class RangeBlockInv:
    """invariant for `for k in range(len(X))` loops that advance an offset by
    X[k] (or its square):   off == off(entry) + sum_{j<k} X[j]   (resp.
    squares).  Determined from the syntactic shape of the loop body."""

    def __init__(self, s):
        self.s = s
        self.kvar = s.target.id if isinstance(s.target, ast.Name) else None
        self.aliases = {}      # m -> X  for  m = X[k]
        self.incs = []         # (offset var, list name, 'lin'|'sq')
        self.listname = None
        it = s.iter
        if isinstance(it, ast.Call) and it.args and isinstance(
                it.args[0], ast.Call) and getattr(it.args[0].func, 'id',
                                                  None) == 'len' and \
                isinstance(it.args[0].args[0], ast.Name):
            self.listname = it.args[0].args[0].id
        for st_ in ast.walk(ast.Module(body=s.body, type_ignores=[])):
            if isinstance(st_, ast.Assign) and len(st_.targets) == 1 and \
                    isinstance(st_.targets[0], ast.Name) and self.is_elem(
                        st_.value):
                self.aliases[st_.targets[0].id] = st_.value.value.id
        for st_ in ast.walk(ast.Module(body=s.body, type_ignores=[])):
            if isinstance(st_, ast.AugAssign) and isinstance(
                    st_.op, ast.Add) and isinstance(st_.target, ast.Name):
                kind = self.classify(st_.value)
                if kind:
                    self.incs.append((st_.target.id,) + kind)

    def is_elem(self, v):
        return (isinstance(v, ast.Subscript) and isinstance(v.value, ast.Name)
                and isinstance(v.slice, ast.Name) and v.slice.id == self.kvar)

    def base_list(self, v):
        if self.is_elem(v):
            return v.value.id
        if isinstance(v, ast.Name) and v.id in self.aliases:
            return self.aliases[v.id]
        return None

    def classify(self, v):
        b = self.base_list(v)
        if b:
            return (b, 'lin')
        if isinstance(v, ast.BinOp) and isinstance(v.op, ast.Pow) and \
                isinstance(v.right, ast.Constant) and v.right.value == 2:
            b = self.base_list(v.left)
            if b:
                return (b, 'sq')
        if isinstance(v, ast.BinOp) and isinstance(v.op, ast.Mult):
            b1, b2 = self.base_list(v.left), self.base_list(v.right)
            if b1 and b1 == b2:
                return (b1, 'sq')
        return None

    def begin(self, ex, st, fid, it):
        st.ghost.pop(('rblock_entry', self.s.lineno), None)

    def __call__(self, ex, st, fid, k, it):
        out = []
        key = ('rblock_entry', self.s.lineno)
        ent = st.ghost.get(key)
        if ent is None:
            ent = {}
            for (v, lst, kind) in self.incs:
                cur = ex.lookup(st, fid, v, self.s)
                ent[v] = ex.num(st, cur)[1]
            st.ghost[key] = ent
        for (v, lst, kind) in self.incs:
            lref = ex.lookup(st, fid, lst, self.s)
            if not (isinstance(lref, Ref) and st.heap[lref.oid].kind ==
                    'list'):
                continue
            lo = st.heap[lref.oid]
            if 'items' in lo.f:
                continue
            if lo.f.get('elem', ('x',))[0] != 'fn':
                continue
            e = lo.f['elem'][1]
            from contracts.py.extern_cvxopt import psum_fn, sqsum_fn
            F = psum_fn(ex, st, lref) if kind == 'lin' else sqsum_fn(
                ex, st, lref)
            # definitional step of the prefix function at k
            step = e(k) if kind == 'lin' else e(k) * e(k)
            st.pc.append(F(k + 1) == F(k) + step)
            cur = ex.num(st, ex.lookup(st, fid, v, self.s))[1]
            out.append(('%s == %s(entry) + sum of the first k %s of %s' % (
                v, v, 'entries' if kind == 'lin' else 'squares', lst),
                cur == ent[v] + F(k)))
        return out


_rinv_cache = {}
_prev_find = L.find_invariant


def _find_invariant2(ex, s):
    f = _prev_find(ex, s)
    if f is not None:
        return f
    if isinstance(s, ast.For) and isinstance(s.iter, ast.Call) and getattr(
            s.iter.func, 'id', None) == 'range':
        key = (ex.fname, s.lineno, id(s))
        if key not in _rinv_cache:
            inv = RangeBlockInv(s)
            _rinv_cache[key] = inv if inv.incs else None
        return _rinv_cache[key]
    return None


L.find_invariant = _find_invariant2

BLOCK_OF = {'sq': ('s', 'q'), 'zq': ('z', 'q'), 'ss': ('s', 's'),
            'zs': ('z', 's')}


def block_copy_hook(ex, st, dest, src_oid, lo, hi, node):
    """dest[:] = src[lo:hi] where dest is element k of a list stored in the
    result under 'sq'/'zq'/'ss'/'zs': the slice must be block k of the cone
    vector returned by conelp"""
    res = st.ghost.get('callee_result')
    if res is None or res.oid not in st.heap:
        return
    do = st.heap[dest.oid]
    eo = do.f.get('elem_of')
    if eo is None:
        return
    loid, k = eo
    rd = st.heap[res.oid].f['items']
    keyname = None
    for kk, vv in rd.items():
        if isinstance(vv, Ref) and vv.oid == loid:
            keyname = kk
    if keyname not in BLOCK_OF:
        return
    vec, cone = BLOCK_OF[keyname]
    status = st.ghost.get('callee_status')
    prop = 'C02' if status in ('primal infeasible', 'dual infeasible') \
        else 'C01'
    src_ok = isinstance(rd.get(vec), Ref) and rd[vec].oid == src_oid
    args = st.ghost.get('callee_args', {})
    dims = args.get('dims')
    if not (isinstance(dims, Ref) and st.heap[dims.oid].kind == 'dict'):
        return
    dd = st.heap[dims.oid].f['items']
    from contracts.py.extern_cvxopt import psum_fn, sqsum_fn
    ml = ex.num(st, dd['l'])[1]

    def total(lref, sq=False):
        lo_ = st.heap[lref.oid]
        if 'items' in lo_.f:
            t = z3.IntVal(0)
            for x in lo_.f['items']:
                xv = ex.num(st, x)[1]
                t = t + (xv * xv if sq else xv)
            return t, None
        F = sqsum_fn(ex, st, lref) if sq else psum_fn(ex, st, lref)
        return F(lo_.f['len'].t), F
    qtot, qF = total(dd['q'])
    if cone == 'q':
        lst = dd['q']
        F = qF
        base = ml
        sq = False
    else:
        lst = dd['s']
        stot, F = total(dd['s'], sq=True)
        base = ml + qtot
        sq = True
    lo_ = st.heap[lst.oid]
    if F is None or lo_.f.get('elem', ('x',))[0] != 'fn':
        return
    e = lo_.f['elem'][1]
    exp_lo = base + F(k)
    exp_hi = exp_lo + (e(k) * e(k) if sq else e(k))
    goal = z3.BoolVal(False)
    if src_ok and lo is not None and hi is not None:
        goal = z3.And(lo == exp_lo, hi == exp_hi)
    ex.oblige(st, 'block-split', goal, node,
              "result['%s'][k] is block k of the '%s' part of the %s "
              "returned by conelp (rows [off(k), off(k+1)))" % (
                  keyname, cone, vec), extra={'prop': prop})


L.hooks['block_copy'] = block_copy_hook
