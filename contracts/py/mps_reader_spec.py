"""C14, reader semantics: the constraints op.fromfile builds from the row
types, the RANGES values and the BOUNDS it has parsed are exactly the ones the
fixed MPS format defines.

VERIFIED TEXT: the two statements of op.fromfile

    for l, type in iter(rowtypes.items()): ...
    for l, bnds in iter(bounds.items()): ...

are taken out of the function's AST on every run by structural anchors (a
`for` whose target is a pair and whose iterable is `rowtypes.items()` resp.
`bounds.items()`) and executed by pyvc for ONE ARBITRARY entry of the
dictionary (the loop bodies only append to the two constraint lists, so the
entries are processed independently).  What the extraction drops: the section
parsers before these loops (they are represented by the precondition: rowtypes
maps a label to 'L', 'G' or 'E'; ranges[l] is None or a float; bounds[l] is a
pair of None-or-float) and the bookkeeping after them.

Contract (MPS format; functions[l] is  a'x - rhs  because the RHS section
stores -rhs as the constant):
    L row:           a'x <= rhs;            with range R:  rhs - |R| <= a'x
    G row:           a'x >= rhs;            with range R:  a'x <= rhs + |R|
    E row, R None/0: a'x  = rhs
    E row, R > 0:    rhs <= a'x <= rhs + R
    E row, R < 0:    rhs + R <= a'x <= rhs
    bounds (lo, up): lo <= x (unless lo is None), x <= up (unless up is None)
The obligation is semantic: for every real value t of f = a'x - rhs (resp. of
the variable) the conjunction of the constraints appended for the entry holds
iff t lies in the interval above; an `==` constraint must go to _equalities
and `<=`/`>=` constraints to _inequalities.
"""
import ast, z3
from engine.pyvc import driver, core
from engine.pyvc.core import Dyn, Ref, R, B, I, Unsupported
from contracts.py.extern_cvxopt import LIB as L


class AbsFun:
    """an affine modeling function / a variable: rich comparisons build
    constraint records"""
    abs_object = True

    def __init__(self, name):
        self.name = name

    def abs_cmp(self, ex, st, op, other, node, refl):
        if type(op) not in (ast.LtE, ast.GtE, ast.Eq):
            raise Unsupported('comparison %s on a modeling function' %
                              type(op).__name__)
        if other is None or (isinstance(other, Dyn) and ex.check(
                st.pc, [other.tag == core.TAG_NONE]) != z3.unsat):
            raise core.PyRaise('TypeError', 'comparison of a modeling '
                               'function with None')
        k, t = ex.num(st, other, node)
        if k == 'int':
            t = z3.ToReal(t)
        rel = {ast.LtE: '<=', ast.GtE: '>=', ast.Eq: '=='}[type(op)]
        if refl:
            rel = {'<=': '>=', '>=': '<=', '==': '=='}[rel]
        return AbsCon(self, rel, t)

    def abs_getattr(self, ex, st, attr, n):
        return core.NOTFOUND


class AbsCon:
    abs_object = True

    def __init__(self, f, rel, bound):
        self.f, self.rel, self.bound = f, rel, bound

    def abs_getattr(self, ex, st, attr, n):
        return core.NOTFOUND

    def holds(self, t):
        return {'<=': t <= self.bound, '>=': t >= self.bound,
                '==': t == self.bound}[self.rel]

    def __repr__(self):
        return 'Con(%s %s %s)' % (self.f.name, self.rel, self.bound)


class AbsMap:
    def __init__(self, f):
        self.f = f

    def abs_getitem(self, ex, st, idx, n):
        return self.f(idx)


class Label:
    """a dictionary key (row / column label): an opaque string"""
    def __init__(self, n):
        self.n = n

    def abs_eq(self, ex, st, o):
        return isinstance(o, Label) and o.n == self.n

    def abs_binop(self, ex, st, op, b, n):
        return Label(self.n + '+')


class OneItem:
    """d.items() of a dictionary: the loop body is executed for one arbitrary
    entry"""
    def __init__(self, pair):
        self.pair = pair

    def abs_loop(self, ex, st, s, fid):
        ex.assign(st, fid, s.target, self.pair, s)
        outs = []
        for o in ex.exec_block(s.body, st, fid):
            if o.kind in ('fall', 'continue', 'break'):
                outs.append(core.Outcome('fall', o.st))
            else:
                outs.append(o)
        return outs


class Dict1:
    def __init__(self, pair):
        self.pair = pair

    def abs_method(self, ex, st, name, args, kwargs, n):
        if name == 'items':
            return OneItem(self.pair)
        raise Unsupported('dict.%s' % name)

    def abs_getattr(self, ex, st, attr, n):
        return core.NOTFOUND


class Empty:
    def abs_method(self, ex, st, name, args, kwargs, n):
        return ()

    def abs_getattr(self, ex, st, attr, n):
        return core.NOTFOUND


@L.register('builtins.iter', pure=True)
def b_iter(ex, st, args, kwargs, n):
    return args[0]


def instance_setattr(ex, st, base, attr, v, s):
    return False


def setattr_abs(orig):
    def f(ex, st, base, attr, v, s):
        if isinstance(base, AbsCon):
            return          # c.name = l : a label, not part of the contract
        return orig(ex, st, base, attr, v, s)
    return f


def opt_float(ex, st, name):
    d = ex.fresh_dyn(name)
    st.pc.append(z3.Or(d.tag == core.TAG_NONE, d.tag == core.TAG_FLOAT))
    return d


def body_slice(which):
    def f(fn):
        out = []
        for s in fn.body:
            if isinstance(s, ast.For) and isinstance(s.target, ast.Tuple):
                seg = ast.unparse(s.iter)
                if which in seg and '.items()' in seg:
                    out.append(s)
        if len(out) != 1:
            raise Unsupported('anchor: the loop over %s.items() was found %d '
                              'times in op.fromfile' % (which, len(out)))
        return out
    return f


def base_setup(ex, st, fid):
    fr = st.frames[fid]
    ineq = ex.alloc(st, 'list', {'items': []}, {'owner': 'FRESH'})
    eq = ex.alloc(st, 'list', {'items': []}, {'owner': 'FRESH'})
    fr['self'] = ex.alloc(st, 'instance', {'cls': 'op', 'attrs': {
        '_inequalities': ineq, '_equalities': eq}}, {'owner': 'FRESH'})
    st.ghost['self'] = fr['self']
    st.ghost['frame_check'] = False
    return fr


def setup_rows(ex, st, fid, fn):
    fr = base_setup(ex, st, fid)
    ty = ex.fresh_dyn('rowtype')
    st.pc.append(ty.tag == core.TAG_STR)
    st.pc.append(z3.Or([ty.s == core.strid(c) for c in 'LGE']))
    rg = opt_float(ex, st, 'range')
    f = AbsFun('f')
    fr['rowtypes'] = Dict1((Label('l'), ty))
    fr['functions'] = AbsMap(lambda k: f)
    fr['ranges'] = AbsMap(lambda k: rg)
    st.ghost['in'] = (ty, rg)


def setup_bounds(ex, st, fid, fn):
    fr = base_setup(ex, st, fid)
    lo, up = opt_float(ex, st, 'lower'), opt_float(ex, st, 'upper')
    bl = ex.alloc(st, 'list', {'items': [lo, up]}, {'owner': 'FRESH'})
    v = AbsFun('x')
    fr['bounds'] = Dict1((Label('l'), bl))
    fr['variables'] = AbsMap(lambda k: v)
    st.ghost['in'] = (lo, up)


def spec_rows(ty, rg, t):
    isn = rg.tag == core.TAG_NONE
    r = rg.r
    absr = z3.If(r >= 0, r, -r)
    Lc, Gc, Ec = [ty.s == core.strid(c) for c in 'LGE']
    return z3.If(Lc, z3.And(t <= 0, z3.Or(isn, t >= -absr)),
                 z3.If(Gc, z3.And(t >= 0, z3.Or(isn, t <= absr)),
                       z3.If(z3.Or(isn, r == 0), t == 0,
                             z3.If(r > 0, z3.And(t >= 0, t <= r),
                                   z3.And(t <= 0, t >= r)))))


def spec_bounds(lo, up, t):
    return z3.And(z3.Or(lo.tag == core.TAG_NONE, t >= lo.r),
                  z3.Or(up.tag == core.TAG_NONE, t <= up.r))


def run(which, timeout_ms=10000):
    """-> list of obligation dicts"""
    tree, src = driver.load_module('modeling.py')
    ex = core.Executor(tree, 'cvxopt.modeling', L, {
        'body_slice': body_slice(which), 'unroll': 8})
    orig = L.setattr
    L.setattr = setattr_abs(orig)
    obs = []

    def add(oid, status, text, line=0, model=None, detail=None):
        obs.append({'id': 'modeling.py:op.fromfile:reader-semantics:' + oid,
                    'kind': 'reader-semantics', 'status': status,
                    'text': text, 'line': line, 'model': model,
                    'detail': detail,
                    'by': ['z3'] if status == 'proved' else []})
    try:
        ex.find_function('op.fromfile')
        try:
            outs = ex.run_function('op.fromfile', setup_rows if which ==
                                   'rowtypes' else setup_bounds)
        except Unsupported as e:
            add(which + ':supported', 'undecided',
                'the loop over %s.items() is inside the supported subset' %
                which, detail=str(e))
            return obs
        t = z3.Real('t')
        what = 'rows' if which == 'rowtypes' else 'columns'
        n = 0
        for o in outs:
            st = o.st
            a, b = st.ghost['in']
            at = st.heap[st.ghost['self'].oid].f['attrs']
            ineq, eq = at['_inequalities'], at['_equalities']
            li = st.heap[ineq.oid].f.get('items') if isinstance(
                ineq, Ref) else None
            le = st.heap[eq.oid].f.get('items') if isinstance(
                eq, Ref) else None
            if o.kind == 'raise':
                r = ex.check(st.pc, [])
                add('%s:no-exception' % what, 'proved' if r == z3.unsat else
                    ('refuted' if r == z3.sat else 'undecided'),
                    'building the constraints of an entry of %s raises no '
                    'exception (%s)' % (which, o.val[:2]), o.val[2]
                    if len(o.val) > 2 else 0)
                continue
            if li is None or le is None or not all(isinstance(
                    c, AbsCon) for c in li + le):
                add('%s:lists' % what, 'undecided', 'the constraint lists '
                    'hold the constraints appended', detail=repr((li, le)))
                continue
            n += 1
            got = z3.And([c.holds(t) for c in li + le] + [z3.BoolVal(True)])
            want = spec_rows(a, b, t) if which == 'rowtypes' else \
                spec_bounds(a, b, t)
            goal = z3.And(got == want,
                          z3.BoolVal(all(c.rel != '==' for c in li)),
                          z3.BoolVal(all(c.rel == '==' for c in le)))
            r = ex.check(st.pc, [z3.Not(goal)], timeout=timeout_ms)
            model = None
            if r == z3.sat:
                model = driver.model_for(ex, core.Oblig(
                    'x', 'reader-semantics', list(st.pc), goal, '', 0),
                    timeout_ms)
            add('%s:interval' % what, 'proved' if r == z3.unsat else (
                'refuted' if r == z3.sat else 'undecided'),
                ('the constraints built for a row of type L/G/E with its '
                 'RANGES value admit exactly the values of a\'x the format '
                 'defines; == goes to _equalities, <= / >= to _inequalities'
                 if which == 'rowtypes' else
                 'the constraints built from a pair of bounds (lower, upper) '
                 'admit exactly lower <= x <= upper (None = no bound); == '
                 'goes to _equalities'), 0, model,
                detail='path with %d inequalities, %d equalities' % (
                    len(li), len(le)))
        add('%s:covered' % what, 'proved' if n >= 3 else 'undecided',
            'at least three paths through the loop body were examined (%d)'
            % n)
    finally:
        L.setattr = orig
    return obs


def feed(report, tier):
    from engine.verdict import Ob
    to = 10000 if tier == 'quick' else 60000
    for which in ('rowtypes', 'bounds', 'empty-rows'):
        try:
            obs = run_empty_rows(to) if which == 'empty-rows' else \
                run(which, to)
        except KeyError as e:
            report.error('function under contract no longer exists: %s' % e)
            return
        # one site per id: refuted if any path instance is refuted
        sites = {}
        for o in obs:
            s = sites.setdefault(o['id'], dict(o, n=0))
            s['n'] += 1
            rank = {'proved': 0, 'undecided': 1, 'refuted': 2}
            if rank[o['status']] > rank[s['status']]:
                s.update(status=o['status'], model=o['model'],
                         detail=o['detail'], by=o['by'])
        for oid, s in sites.items():
            report.add(Ob(oid, s['kind'], s['status'], s['text'],
                          'modeling.py op.fromfile', by=s['by'],
                          model=s['model'],
                          detail='%s (%d path instances)' % (
                              s['detail'], s['n']),
                          meta={'line': s['line']}))
    report.assumptions += [
        'cut: the loops over rowtypes.items() and bounds.items() of '
        'op.fromfile are verified for one arbitrary entry, with the '
        'dictionaries as the section parsers leave them (row type in '
        "{'L','G','E'}, ranges[l] None or float, bounds[l] a pair of "
        'None-or-float); modeling comparisons f <= a, f >= a, f == a build '
        'the constraint they denote']


# ------------------------------------------------ rows without variables
class EmptyCon:
    """a constraint c with a symbolic number of variables, a type and a
    constant; `self._inequalities + self._equalities` is a sequence with one
    arbitrary such element"""
    abs_object = True

    def __init__(self, nv, iseq, const):
        self.nv, self.iseq, self.const = nv, iseq, const

    def abs_getattr(self, ex, st, attr, n):
        if attr == '_f':
            return _Path(self, ('_f',))
        if attr == 'name':
            return 'row'
        return core.NOTFOUND

    def abs_method(self, ex, st, name, args, kwargs, n):
        if name == 'type':
            return _TypeStr(self.iseq)
        raise Unsupported('constraint.%s' % name)

    def abs_eq(self, ex, st, o):
        return o is self


class _TypeStr:
    def __init__(self, iseq):
        self.iseq = iseq

    def abs_eq(self, ex, st, o):
        if o == '=':
            return self.iseq
        if o == '<':
            return z3.Not(self.iseq)
        return False


class _Path:
    def __init__(self, con, path):
        self.con, self.path = con, path

    def abs_getattr(self, ex, st, attr, n):
        p = self.path + (attr,)
        if p == ('_f', '_linear', '_coeff'):
            return _Sized(self.con.nv)
        return _Path(self.con, p)

    def abs_getitem(self, ex, st, idx, n):
        if self.path == ('_f', '_constant'):
            return R(self.con.const)
        raise Unsupported('item of %r' % (self.path,))


class _Sized:
    def __init__(self, ln):
        self.ln = ln


class RemList:
    """self._inequalities / self._equalities: removals are recorded; `a + b`
    is a NEW sequence (iterating it does not alias the lists)"""
    def __init__(self, name, elem):
        self.name, self.elem = name, elem

    def abs_binop(self, ex, st, op, b, n):
        return OneItem(self.elem)

    def abs_method(self, ex, st, name, args, kwargs, n):
        if name == 'remove':
            st.ghost['removed'] = st.ghost.get('removed', ()) + (
                (self.name, args[0]),)
            return None
        raise Unsupported('list.%s' % name)

    def abs_getattr(self, ex, st, attr, n):
        return core.NOTFOUND

    def abs_loop(self, ex, st, s, fid):
        # iterating the list itself while the body removes from it
        st.ghost['iterates_own_list'] = True
        return OneItem(self.elem).abs_loop(ex, st, s, fid)


_len1 = L.ext.get('builtins.len')


@L.register('builtins.len', pure=True)
def b_len1(ex, st, args, kwargs, n):
    if isinstance(args[0], _Sized):
        return I(args[0].ln)
    return _len1(ex, st, args, kwargs, n)


@L.register('builtins.print')
def b_print(ex, st, args, kwargs, n):
    return None


def run_empty_rows(timeout_ms=10000):
    tree, src = driver.load_module('modeling.py')

    def sl(fn):
        out = [s for s in fn.body if isinstance(s, ast.For) and any(
            isinstance(x, ast.Call) and isinstance(x.func, ast.Attribute)
            and x.func.attr == 'remove' for x in ast.walk(s))]
        if not out:
            raise Unsupported('anchor: no loop that removes constraints')
        return out
    ex = core.Executor(tree, 'cvxopt.modeling', L, {'body_slice': sl,
                                                     'unroll': 8})
    obs = []

    def add(oid, status, text, line=0, model=None, detail=None):
        obs.append({'id': 'modeling.py:op.fromfile:reader-semantics:' + oid,
                    'kind': 'reader-semantics', 'status': status,
                    'text': text, 'line': line, 'model': model,
                    'detail': detail,
                    'by': ['z3'] if status == 'proved' else []})

    def setup(ex_, st, fid, fn):
        fr = st.frames[fid]
        nv = z3.Int('number of variables')
        iseq = z3.Bool('is equality')
        const = z3.Real('constant')
        st.pc.append(nv >= 0)
        c = EmptyCon(nv, iseq, const)
        fr['self'] = _SelfLists(RemList('_inequalities', c),
                                RemList('_equalities', c))
        st.ghost['frame_check'] = False
        st.ghost['con'] = c
    ex.find_function('op.fromfile')
    try:
        outs = ex.run_function('op.fromfile', setup)
    except Unsupported as e:
        add('empty-rows:supported', 'undecided', 'the loop that removes '
            'rows without variables is inside the supported subset',
            detail=str(e))
        return obs
    nret = 0
    for o in outs:
        st = o.st
        c = st.ghost['con']
        empty = c.nv == 0
        # consistent: the row 0 = const (resp. 0 <= ... i.e. const <= 0)
        consistent = z3.If(c.iseq, c.const == 0, c.const <= 0)
        if st.ghost.get('iterates_own_list'):
            add('empty-rows:iteration', 'refuted', 'the loop that removes '
                'rows without variables iterates over a new sequence, not '
                'over a list it removes from (a removal would make it skip '
                'the next row)')
        if o.kind == 'raise':
            ok = o.val[0] == 'ValueError'
            r = ex.check(st.pc, [z3.Not(z3.And(empty, z3.Not(consistent)))])
            add('empty-rows:refusal', 'proved' if ok and r == z3.unsat else
                'refuted', 'ValueError is raised exactly for a row without '
                'variables whose constant contradicts it (%s)' %
                (o.val[0],), o.val[2] if len(o.val) > 2 else 0)
            continue
        nret += 1
        rem = st.ghost.get('removed', ())
        want_list = None
        if len(rem) == 0:
            goal = z3.Not(z3.And(empty, consistent))
            if ex.check(st.pc, [z3.Not(empty)]) == z3.unsat:
                goal = z3.BoolVal(False)
        elif len(rem) == 1 and rem[0][1] is c:
            goal = z3.And(empty, consistent,
                          c.iseq if rem[0][0] == '_equalities'
                          else z3.Not(c.iseq))
        else:
            goal = z3.BoolVal(False)
        r = ex.check(st.pc, [z3.Not(goal)], timeout=timeout_ms)
        add('empty-rows:removal', 'proved' if r == z3.unsat else (
            'refuted' if r == z3.sat else 'undecided'),
            'a row is removed (from the list of its type, once) exactly '
            'when it has no variables and its constant is consistent; rows '
            'with variables are kept')
    add('empty-rows:covered', 'proved' if nret >= 2 else 'undecided',
        'paths that keep and that remove a row were examined (%d)' % nret)
    return obs


class _SelfLists:
    abs_object = True

    def __init__(self, ineq, eq):
        self.ineq, self.eq = ineq, eq

    def abs_getattr(self, ex, st, attr, n):
        if attr == '_inequalities':
            return self.ineq
        if attr == '_equalities':
            return self.eq
        return core.NOTFOUND
