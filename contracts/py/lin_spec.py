"""C11, coefficient merging: _lin._addterm(a, v) adds the term a*v to a linear
function, for every shape of the coefficient already stored for v and every
shape of a.

The real method body is executed by pyvc with SYMBOLIC MATRICES: a heap object
with symbolic size (r, c) and an entry function E(R, j) (a z3 term builder).
The cvxopt operations the method uses are given their documented meaning on
that model (this is the trusted base of the check):

    x.size, +x (copy), x + y (same size: entrywise; a 1x1 or scalar operand
    is added to every entry; other sizes: TypeError), x[k*[0], :] (row 0
    repeated k times), x[0] (first entry), x[::s] and x[::s] = y / += y
    (extended slice over the column-major linear index; y a scalar or 1x1
    matrix is broadcast, otherwise one entry per selected position)

The extended slice is supported where its index set has a closed form, and
the closed forms are lemmas proved on every run (obligation kind
`slice-lemma`): on an L x L matrix the step L+1 selects exactly the diagonal,
t-th selected entry = (t, t); on a 1 x n row (or n x 1 column) a step >= n
selects only entry 0.

Contract of _addterm (property statement: "f.value() equals the formula
evaluated directly ... the coefficient-merging rules for a variable that
occurs twice with differently shaped coefficients"): let n = len(v), lg =
len(self) before, and the EFFECTIVE entry of a stored coefficient X in a
function of length m be
    Eff(X, R, j) = X[R, j]                 if X is m x n          (m > 1)
                 = X[0, j]                 if X is 1 x n          (n > 1 or m = 1)
                 = X[0, 0]                 if X is 1 x 1 and n = 1
                 = X[0, 0] if R = j else 0 if X is 1 x 1 and n > 1  (scalar*v)
Then, if _addterm returns normally: the new length is m = lg if lg > 1 else
the length of the term a*v; the new coefficient c' has a legal size for m; and
for all R < m, j < n:   Eff(c', R, j) = Eff(c, R, j) + Eff(a, R, j)
(Eff(c) = 0 if v was not in the function).  It raises only TypeError, stores
only the coefficient of v, and a coefficient taken over from a matrix argument
is a copy (no aliasing of the operand).

Preconditions: the representation invariant of _lin for the coefficient of v
(size (lg, n), (1, n) or dense (1, 1); a (1, 1) coefficient of a vector
variable means lg = n); a is a real scalar or a nonempty 'd' matrix.
"""
import ast, z3
from engine.pyvc import driver, core
from engine.pyvc.core import (Dyn, Ref, R, B, I, Ext, Unknown, Unsupported,
                              NeedFork, PyRaise, const_of)
from contracts.py.extern_cvxopt import LIB as L

Z = z3.IntVal


# ------------------------------------------------------------ the model
def new_symmat(ex, st, r, c, E, dense, name):
    return ex.alloc(st, 'instance', {
        'cls': 'symmat', 'attrs': {'size': (I(r), I(c))}, 'r': r, 'c': c,
        'E': E, 'dense': dense, 'name': name}, {'owner': 'FRESH',
                                                 'name': name})


def sm(st, v):
    if isinstance(v, Ref):
        o = st.heap[v.oid]
        if o.kind == 'instance' and o.f.get('cls') == 'symmat':
            return o
    return None


def scalar_term(ex, st, v):
    """z3 Real of a python / symbolic real or int scalar, else None"""
    if isinstance(v, bool):
        return None
    if isinstance(v, (int, float)):
        return z3.RealVal(v)
    if isinstance(v, R):
        return v.t
    if isinstance(v, I):
        return z3.ToReal(v.t)
    return None


def decide(ex, st, cond):
    d = ex.decide(st, cond)
    if d is None:
        raise NeedFork(cond)
    return d


def is11(o):
    return z3.And(o.f['r'] == 1, o.f['c'] == 1)


def add_values(ex, st, a, b, n):
    """cvxopt's x + y"""
    oa, ob = sm(st, a), sm(st, b)
    sa, sb = scalar_term(ex, st, a), scalar_term(ex, st, b)
    if oa is not None and ob is not None:
        same = z3.And(oa.f['r'] == ob.f['r'], oa.f['c'] == ob.f['c'])
        if decide(ex, st, same):
            Ea, Eb = oa.f['E'], ob.f['E']
            return new_symmat(ex, st, oa.f['r'], oa.f['c'],
                              lambda R_, j_: Ea(R_, j_) + Eb(R_, j_),
                              z3.Or(oa.f['dense'], ob.f['dense']), 'sum')
        if decide(ex, st, is11(ob)):
            Ea, Eb = oa.f['E'], ob.f['E']
            return new_symmat(ex, st, oa.f['r'], oa.f['c'],
                              lambda R_, j_: Ea(R_, j_) + Eb(Z(0), Z(0)),
                              z3.BoolVal(True), 'sum')
        if decide(ex, st, is11(oa)):
            Ea, Eb = oa.f['E'], ob.f['E']
            return new_symmat(ex, st, ob.f['r'], ob.f['c'],
                              lambda R_, j_: Ea(Z(0), Z(0)) + Eb(R_, j_),
                              z3.BoolVal(True), 'sum')
        raise PyRaise('TypeError', 'incompatible dimensions')
    if oa is not None and sb is not None:
        Ea = oa.f['E']
        return new_symmat(ex, st, oa.f['r'], oa.f['c'],
                          lambda R_, j_: Ea(R_, j_) + sb, z3.BoolVal(True),
                          'sum')
    if ob is not None and sa is not None:
        Eb = ob.f['E']
        return new_symmat(ex, st, ob.f['r'], ob.f['c'],
                          lambda R_, j_: sa + Eb(R_, j_), z3.BoolVal(True),
                          'sum')
    raise Unsupported('+ of %r and %r' % (a, b))


def slice_case(ex, st, o, step):
    """closed form of x[::step] on the symbolic matrix o: returns
    (hit(R,j), t(R,j), count, position of the t-th selected entry)"""
    r, c = o.f['r'], o.f['c']
    if decide(ex, st, z3.And(r == c, step == r + 1)):
        return (lambda R_, j_: R_ == j_, lambda R_, j_: j_, r,
                lambda t_: (t_, t_), 'diagonal')
    if decide(ex, st, z3.And(r == 1, step >= c)):
        return (lambda R_, j_: j_ == 0, lambda R_, j_: Z(0), Z(1),
                lambda t_: (Z(0), Z(0)), 'first entry of a row')
    if decide(ex, st, z3.And(c == 1, step >= r)):
        return (lambda R_, j_: R_ == 0, lambda R_, j_: Z(0), Z(1),
                lambda t_: (Z(0), Z(0)), 'first entry of a column')
    raise Unsupported('extended slice with no closed form (size %s x %s, '
                      'step %s)' % (r, c, step))


def zero_list_len(ex, st, v):
    """k for a list k*[0], else None"""
    if not isinstance(v, Ref) or st.heap[v.oid].kind != 'list':
        return None
    o = st.heap[v.oid]
    if 'items' in o.f:
        if all(const_of(x) == (True, 0) for x in o.f['items']):
            return Z(len(o.f['items']))
        return None
    e = o.f.get('elem', ('unknown',))
    if e[0] == 'const' and const_of(e[1]) == (True, 0):
        return o.f['len'].t
    return None


FULL = ('slice', None, None, None)


def getitem(ex, st, ref, idx, n, _prev=L.hooks.get('instance_getitem')):
    o = sm(st, ref)
    if o is None:
        return _prev(ex, st, ref, idx, n) if _prev else Unknown('item')
    E = o.f['E']
    c, k = const_of(idx)
    if c and k == 0:
        return R(E(Z(0), Z(0)))
    if isinstance(idx, tuple) and len(idx) == 2 and idx[1] == FULL:
        kz = zero_list_len(ex, st, idx[0])
        if kz is not None:
            return new_symmat(ex, st, kz, o.f['c'],
                              lambda R_, j_: E(Z(0), j_), o.f['dense'],
                              'row 0 repeated')
    if isinstance(idx, tuple) and idx and idx[0] == 'slice' and \
            idx[1] is None and idx[2] is None and idx[3] is not None:
        kk, stp = ex.num(st, idx[3], n)
        hit, tt, cnt, pos, _why = slice_case(ex, st, o, stp)
        return new_symmat(ex, st, cnt, Z(1),
                          lambda R_, j_: E(*pos(R_)), o.f['dense'],
                          'selected entries')
    if idx == FULL:
        raise Unsupported('x[:]')
    raise Unsupported('index %r of a symbolic matrix' % (idx,))


def setitem(ex, st, base, idx, v, s, _prev=L.hooks.get('instance_setitem')):
    o = sm(st, base)
    if o is None:
        return _prev(ex, st, base, idx, v, s) if _prev else None
    if not (isinstance(idx, tuple) and idx and idx[0] == 'slice' and
            idx[1] is None and idx[2] is None and idx[3] is not None):
        raise Unsupported('indexed assignment %r' % (idx,))
    kk, stp = ex.num(st, idx[3], s)
    hit, tt, cnt, pos, _why = slice_case(ex, st, o, stp)
    E = o.f['E']
    sv = scalar_term(ex, st, v)
    ov = sm(st, v)
    if sv is not None:
        newE = lambda R_, j_: z3.If(hit(R_, j_), sv, E(R_, j_))
    elif ov is not None:
        Ev = ov.f['E']
        if decide(ex, st, is11(ov)):
            newE = lambda R_, j_: z3.If(hit(R_, j_), Ev(Z(0), Z(0)),
                                        E(R_, j_))
        elif decide(ex, st, z3.And(ov.f['r'] * ov.f['c'] == cnt,
                                   z3.Or(ov.f['c'] == 1, ov.f['r'] == 1))):
            col = decide(ex, st, ov.f['c'] == 1)
            newE = lambda R_, j_: z3.If(
                hit(R_, j_), Ev(tt(R_, j_), Z(0)) if col else
                Ev(Z(0), tt(R_, j_)), E(R_, j_))
        else:
            raise PyRaise('TypeError', 'incompatible sizes in assignment')
    else:
        raise Unsupported('assignment of %r' % (v,))
    o.f['E'] = newE
    st.ghost['mutated'] = st.ghost.get('mutated', ()) + (base.oid,)


def binop(ex, st, op, a, b, n, _prev=L.hooks.get('instance_binop')):
    if sm(st, a) is None and sm(st, b) is None:
        return _prev(ex, st, op, a, b, n) if _prev else Unknown('binop')
    if op == 'pos':
        o = sm(st, a)
        E = o.f['E']
        return new_symmat(ex, st, o.f['r'], o.f['c'], E, o.f['dense'],
                          'copy')
    if op == 'Add':
        return add_values(ex, st, a, b, n)
    raise Unsupported('operator %s on a symbolic matrix' % op)


def inplace(ex, st, op, cur, v, s, _prev=L.hooks.get('instance_inplace')):
    if sm(st, cur) is None:
        return _prev(ex, st, op, cur, v, s) if _prev else cur
    if op == 'Add':
        # matrices.rst: an in-place operation must not change the type of
        # its left operand: sparse += scalar / dense is not allowed
        oc = sm(st, cur)
        ov = sm(st, v)
        densifies = z3.BoolVal(True) if ov is None else ov.f['dense']
        if decide(ex, st, z3.And(z3.Not(oc.f['dense']), densifies)):
            raise PyRaise('TypeError', 'invalid inplace operation')
        return add_values(ex, st, cur, v, s)
    raise Unsupported('in-place %s on a symbolic matrix' % op)


L.hooks['instance_getitem'] = getitem
L.hooks['instance_setitem'] = setitem
L.hooks['instance_binop'] = binop
L.hooks['instance_inplace'] = inplace


def _reg(name, f):
    @L.register('cvxopt.modeling.' + name, pure=True)
    def h(ex, st, args, kwargs, n):
        return f(ex, st, args[0])
    return h


_reg('_ismatrix', lambda ex, st, a: sm(st, a) is not None)
_reg('_isdmatrix', lambda ex, st, a: B(sm(st, a).f['dense']) if sm(st, a)
     is not None else False)
_reg('_isspmatrix', lambda ex, st, a: B(z3.Not(sm(st, a).f['dense']))
     if sm(st, a) is not None else False)
_reg('_isscalar', lambda ex, st, a: True if scalar_term(ex, st, a) is not None
     else (B(z3.And(sm(st, a).f['dense'], is11(sm(st, a)))) if sm(st, a)
           is not None else False))


@L.register('cvxopt.modeling.matrix', pure=True)
def m_matrix(ex, st, args, kwargs, n):
    s_ = scalar_term(ex, st, args[0]) if args else None
    if s_ is not None:
        return new_symmat(ex, st, Z(1), Z(1), lambda R_, j_: s_,
                          z3.BoolVal(True), 'matrix(scalar)')
    o = sm(st, args[0]) if args else None
    if o is not None:
        E = o.f['E']
        return new_symmat(ex, st, o.f['r'], o.f['c'], E, z3.BoolVal(True),
                          'dense copy')
    raise Unsupported('matrix(%r)' % (args,))


class VarObj:
    abs_object = True

    def __init__(self, n):
        self.n = n

    def abs_eq(self, ex, st, o):
        return o is self

    abs_is = abs_eq

    def abs_getattr(self, ex, st, attr, n):
        return core.NOTFOUND


class CoeffMap:
    """self._coeff: only the entry of v is visible to _addterm"""
    def __init__(self, v, present):
        self.v, self.present = v, present

    def abs_contains(self, ex, st, item):
        if item is self.v:
            return self.present
        raise Unsupported('membership test of another key')

    def abs_getitem(self, ex, st, idx, n):
        if idx is not self.v:
            raise Unsupported('coefficient of another variable is read')
        cur = st.ghost.get('coeff')
        if cur is None:
            raise PyRaise('KeyError', 'v')
        return cur

    def abs_setitem(self, ex, st, idx, val, s):
        if idx is not self.v:
            st.ghost['other_store'] = True
            return
        st.ghost['coeff'] = val
        st.ghost['nstores'] = st.ghost.get('nstores', 0) + 1


class SelfObj:
    abs_object = True

    def __init__(self, lg, cm):
        self.lg, self.cm = lg, cm

    def abs_getattr(self, ex, st, attr, n):
        if attr == '_coeff':
            return self.cm
        return core.NOTFOUND


_len0 = L.ext.get('builtins.len')


@L.register('builtins.len', pure=True)
def b_len(ex, st, args, kwargs, n):
    v = args[0]
    if isinstance(v, SelfObj):
        return I(v.lg)
    if isinstance(v, VarObj):
        return I(v.n)
    return _len0(ex, st, args, kwargs, n)


@L.register('builtins.iter', pure=True)
def b_iter(ex, st, args, kwargs, n):
    return args[0]


_type0 = L.ext.get('builtins.type')


@L.register('builtins.type', pure=True)
def b_type(ex, st, args, kwargs, n):
    if len(args) == 1 and isinstance(args[0], VarObj):
        return Ext('cvxopt.modeling.variable')
    return _type0(ex, st, args, kwargs, n)


_OWN = {k_: L.ext[k_] for k_ in ['cvxopt.modeling._ismatrix', 'cvxopt.modeling._isdmatrix', 'cvxopt.modeling._isspmatrix', 'cvxopt.modeling._isscalar', 'cvxopt.modeling.matrix', 'builtins.len', 'builtins.type', 'builtins.iter']}


def install():
    """(re)install this module's contracts of shared names: several spec
    modules may live in one worker process"""
    L.ext.update(_OWN)
    L.hooks['instance_getitem'] = getitem
    L.hooks['instance_setitem'] = setitem
    L.hooks['instance_binop'] = binop
    L.hooks['instance_inplace'] = inplace

def setup_for(sc):
    def setup(ex, st, fid, fn):
        install()
        fr = st.frames[fid]
        lg, n = z3.Int('lg'), z3.Int('n')
        st.pc += [lg >= 1, n >= 1]
        v = VarObj(n)
        present = sc['present']
        fr['self'] = SelfObj(lg, CoeffMap(v, present))
        fr['v'] = v
        if present:
            rc, cc = z3.Int('c.rows'), z3.Int('c.cols')
            dc = z3.Bool('dense(c)')
            Ec = z3.Function('c', z3.IntSort(), z3.IntSort(), z3.RealSort())
            st.pc.append(z3.Or(
                z3.And(rc == lg, cc == n), z3.And(rc == 1, cc == n),
                z3.And(rc == 1, cc == 1, dc, z3.Or(n == 1, lg == n))))
            cref = new_symmat(ex, st, rc, cc, lambda R_, j_: Ec(R_, j_), dc,
                              'c')
            st.ghost['coeff'] = cref
            st.ghost['c0'] = (rc, cc, Ec, dc)
        if sc['a'] == 'scalar':
            fr['a'] = R(z3.Real('a'))
            st.ghost['a0'] = ('scalar', z3.Real('a'))
        else:
            ra, ca = z3.Int('a.rows'), z3.Int('a.cols')
            da = z3.Bool('dense(a)')
            Ea = z3.Function('a', z3.IntSort(), z3.IntSort(), z3.RealSort())
            st.pc += [ra >= 1, ca >= 1]
            aref = new_symmat(ex, st, ra, ca, lambda R_, j_: Ea(R_, j_), da,
                              'a')
            fr['a'] = aref
            st.ghost['a0'] = ('matrix', ra, ca, Ea, da, aref.oid)
        st.ghost['lgn'] = (lg, n)
        fr['matrix'] = Ext('cvxopt.modeling.matrix')
        st.ghost['frame_check'] = False
    return setup


def eff(r, c, E, R_, j_, n):
    """effective entry of a stored coefficient (see module doc)"""
    one = z3.And(r == 1, c == 1)
    return z3.If(one, z3.If(n == 1, E(Z(0), Z(0)),
                            z3.If(R_ == j_, E(Z(0), Z(0)), z3.RealVal(0))),
                 z3.If(r == 1, E(Z(0), j_), E(R_, j_)))


def on_outcomes(ex, outs):
    nret = 0
    Rr, jj = z3.Int('R'), z3.Int('j')

    class N:
        lineno = 0
        col_offset = 0
    for o in outs:
        st = o.st
        lg, n = st.ghost['lgn']
        a0 = st.ghost['a0']
        node = N()
        if o.kind == 'raise':
            node.lineno = o.val[2] if len(o.val) > 2 else 0
            ex.oblige(st, 'addterm-exceptions', z3.BoolVal(
                o.val[0] == 'TypeError'), node,
                '_addterm raises only TypeError (%s)' % (o.val[0],),
                extra={'prop': 'C11'})
        else:
            nret += 1
        # length of the term a*v, dense 1x1 matrices count as scalars
        if a0[0] == 'scalar':
            ar, ac = Z(1), Z(1)
            aE = lambda R_, j_: a0[1]
            a_scalar = z3.BoolVal(True)
            a_ok = z3.BoolVal(True)
        else:
            _, ar, ac, Ea, da, aoid = a0
            aE = lambda R_, j_: Ea(R_, j_)
            a_scalar = z3.And(ar == 1, ac == 1, da)
            a_ok = z3.Or(a_scalar, ac == n)
        alen = z3.If(z3.And(ar == 1, ac == 1), z3.If(n > 1, z3.If(
            a_scalar, n, Z(1)), Z(1)), ar)
        m = z3.If(lg > 1, lg, alen)
        compat = z3.And(a_ok, z3.Or(lg == 1, alen == 1, alen == lg))
        if o.kind == 'raise':
            ex.oblige(st, 'addterm-refuses', z3.Not(compat), node,
                      '_addterm refuses (TypeError) only terms whose length '
                      'or number of columns does not match', extra={
                          'prop': 'C11'})
            continue
        ex.oblige(st, 'addterm-accepts', compat, node,
                  '_addterm accepts a term only if its length is 1 or '
                  'len(self) (or len(self) is 1) and its coefficient has '
                  'len(v) columns or is a scalar', extra={'prop': 'C11'})
        cur = st.ghost.get('coeff')
        oc = sm(st, cur)
        ex.oblige(st, 'addterm-frame', z3.BoolVal(
            oc is not None and not st.ghost.get('other_store')), node,
            '_addterm stores a matrix as the coefficient of v and touches no '
            'other coefficient', extra={'prop': 'C11'})
        if oc is None:
            continue
        r1, c1, E1 = oc.f['r'], oc.f['c'], oc.f['E']
        legal = z3.Or(z3.And(r1 == m, c1 == n), z3.And(r1 == 1, c1 == n),
                      z3.And(r1 == 1, c1 == 1, oc.f['dense'],
                             z3.Or(n == 1, m == n)))
        hyp = [compat]
        st2 = st
        n0 = len(st.pc)
        st.pc.append(compat)
        ex.oblige(st, 'addterm-shape', legal, node,
                  'the coefficient stored by _addterm has a legal size for '
                  'the new length of the function ((m, n), (1, n) or dense '
                  '(1, 1) with m = n for a vector variable)',
                  extra={'prop': 'C11'})
        if 'c0' in st.ghost:
            rc, cc, Ec, dc = st.ghost['c0']
            old = eff(rc, cc, lambda R_, j_: Ec(R_, j_), Rr, jj, n)
        else:
            old = z3.RealVal(0)
        if a0[0] == 'scalar':
            term = eff(Z(1), Z(1), aE, Rr, jj, n)
        else:
            term = z3.If(z3.And(ar == 1, ac == 1, z3.Not(da), n > 1),
                         aE(Z(0), jj),     # sparse 1x1 with n > 1: illegal
                         eff(ar, ac, aE, Rr, jj, n))
        new = eff(r1, c1, E1, Rr, jj, n)
        st.pc += [Rr >= 0, Rr < m, jj >= 0, jj < n, legal]
        ex.oblige(st, 'addterm-value', new == old + term, node,
                  'after _addterm(a, v) the effective coefficient of v is '
                  'the old one plus a, entry by entry (all shapes of the '
                  'stored coefficient and of a)', extra={'prop': 'C11'})
        del st.pc[n0:]
        if a0[0] == 'matrix':
            ex.oblige(st, 'addterm-alias', z3.BoolVal(
                isinstance(cur, Ref) and cur.oid != a0[5] and
                a0[5] not in st.ghost.get('mutated', ())), node,
                'the matrix argument is neither stored nor modified (the '
                'coefficient is a copy)', extra={'prop': 'C11'})
    if outs:
        class N2:
            lineno = 0
            col_offset = 0
        ex.oblige(outs[0].st, 'covered', z3.BoolVal(nret >= 1), N2(),
                  'a normal return of _addterm is reached',
                  extra={'prop': 'C11'})
    return {'paths': len(outs), 'returns': nret}


def slice_lemmas():
    Lz, Rz, jz, tz, nz, sz = z3.Ints('L R j t n s')
    return [
        ('diagonal', 'on an L x L column-major matrix the linear indices '
         't*(L+1) are exactly the diagonal entries: t*(L+1) = R + j*L with '
         '0 <= R, j < L  iff  R = j = t',
         [Lz >= 1, Rz >= 0, Rz < Lz, jz >= 0, jz < Lz, tz >= 0],
         (tz * (Lz + 1) == Rz + jz * Lz) == z3.And(Rz == jz, tz == jz)),
        ('first-entry', 'on a vector of n entries a step s >= n selects only '
         'entry 0: t*s = j with 0 <= j < n  iff  t = 0 = j',
         [nz >= 1, sz >= nz, jz >= 0, jz < nz, tz >= 0],
         (tz * sz == jz) == z3.And(tz == 0, jz == 0)),
    ]


FUNCS = {'_lin._addterm': {
    'setup': setup_for,
    'scenarios': {'new-scalar': {'present': False, 'a': 'scalar'},
                  'new-matrix': {'present': False, 'a': 'matrix'},
                  'merge-scalar': {'present': True, 'a': 'scalar'},
                  'merge-matrix': {'present': True, 'a': 'matrix'}},
    'on_outcomes': on_outcomes, 'config': {'unroll': 8}}}


# ------------------------------------------------------------ _lin.__len__
# len(f) of a linear function is the common length L of its terms: every
# coefficient has effective length 1 or L (representation invariant), and if
# L > 1 some coefficient has effective length L.  Contract: __len__ returns L.
RK = z3.Function('rows_of_entry', z3.IntSort(), z3.IntSort())
CK = z3.Function('cols_of_entry', z3.IntSort(), z3.IntSort())
NK = z3.Function('len_of_variable', z3.IntSort(), z3.IntSort())
DK = z3.Function('dense_entry', z3.IntSort(), z3.BoolSort())


def efflen(k):
    return z3.If(RK(k) > 1, RK(k), z3.If(z3.And(RK(k) == 1, CK(k) == 1, DK(k),
                                                NK(k) > 1), NK(k), 1))


def legal_entry(k, Lg):
    r, c, n = RK(k), CK(k), NK(k)
    return z3.And(n >= 1, z3.Or(
        z3.And(r == Lg, c == n), z3.And(r == 1, c == n),
        z3.And(r == 1, c == 1, DK(k), z3.Or(n == 1, Lg == n))))


class EntrySeq:
    """self._coeff.items() of a _lin: a sequence of (variable, coefficient)
    pairs of symbolic length; the loop body is executed for an arbitrary
    entry; an entry that falls through must have effective length 1, and at
    the exit every entry (in particular the witness of L > 1) fell through"""
    def __init__(self, Lg, N, kw):
        self.Lg, self.N, self.kw = Lg, N, kw

    def abs_method(self, ex, st, name, args, kwargs, n):
        if name == 'items':
            return self
        raise Unsupported('dict.%s' % name)

    def abs_getattr(self, ex, st, attr, n):
        return core.NOTFOUND

    def abs_truth(self, ex, st):
        return self.N > 0

    def abs_loop(self, ex, st, s, fid):
        k = z3.Int(ex.fresh('k'))
        b = st.copy()
        b.pc += [k >= 0, k < self.N, legal_entry(k, self.Lg),
                 z3.Or(efflen(k) == 1, efflen(k) == self.Lg)]
        v = VarObj(NK(k))
        c = new_symmat(ex, b, RK(k), CK(k), lambda R_, j_: z3.RealVal(0),
                       DK(k), 'entry k')
        ex.assign(b, fid, s.target, (v, c), s)
        outs = []

        class N_:
            lineno = s.lineno
            col_offset = 0
        for o in ex.exec_block(s.body, b, fid):
            if o.kind in ('fall', 'continue'):
                ex.oblige(o.st, 'len-value', efflen(k) == 1, N_(),
                          '__len__ passes over a term only if it carries no '
                          'length information (effective length 1)',
                          extra={'prop': 'C11'})
                ex.orphans = getattr(ex, 'orphans', [])
                ex.orphans.extend(o.st.obligs)
            elif o.kind == 'break':
                raise Unsupported('break in __len__')
            else:
                outs.append(o)
        e = st.copy()
        # exhaustion: every entry fell through, in particular the witness
        e.pc.append(z3.Implies(z3.And(self.kw >= 0, self.kw < self.N),
                               efflen(self.kw) == 1))
        outs.append(core.Outcome('fall', e))
        return outs


def len_setup(sc):
    def setup(ex, st, fid, fn):
        install()
        fr = st.frames[fid]
        Lg, N, kw = z3.Int('L'), z3.Int('number of terms'), z3.Int('witness')
        st.pc += [Lg >= 1, N >= 0,
                  z3.Implies(Lg > 1, z3.And(kw >= 0, kw < N,
                                            efflen(kw) == Lg,
                                            legal_entry(kw, Lg)))]
        seq = EntrySeq(Lg, N, kw)

        class Me:
            abs_object = True

            def abs_getattr(self_, ex_, st_, attr, n):
                if attr == '_coeff':
                    return seq
                return core.NOTFOUND
        fr['self'] = Me()
        st.ghost['L'] = Lg
        st.ghost['frame_check'] = False
    return setup


def len_outcomes(ex, outs):
    class N:
        lineno = 0
        col_offset = 0
    nret = 0
    for o in outs:
        st = o.st
        if o.kind == 'raise':
            ex.oblige(st, 'len-value', z3.BoolVal(False), N(),
                      '__len__ raises no exception (%s)' % (o.val[0],),
                      extra={'prop': 'C11'})
            continue
        nret += 1
        v = o.val
        t = v.t if isinstance(v, I) else (z3.IntVal(v) if isinstance(
            v, int) and not isinstance(v, bool) else None)
        ex.oblige(st, 'len-value', t == st.ghost['L'] if t is not None else
                  z3.BoolVal(False), N(),
                  'len(f) of a linear function is the common length of its '
                  'terms (the first coefficient with more than one row, or a '
                  'scalar coefficient of a vector variable, decides; 1 if '
                  'there is none)', extra={'prop': 'C11'})
    if outs:
        ex.oblige(outs[0].st, 'covered', z3.BoolVal(nret >= 3), N(),
                  'the three ways of returning are reached (%d)' % nret,
                  extra={'prop': 'C11'})
    return {'paths': len(outs)}


FUNCS['_lin.__len__'] = {'setup': len_setup, 'scenarios': {'any': {}},
                         'on_outcomes': len_outcomes,
                         'config': {'unroll': 8}}


# ---------------------------------------------------- _lin.__getitem__
# f[key] for a linear function: every coefficient is replaced by the rows
# l(0), l(1), ... of its *effective* coefficient (l = _keytolist(key, len(f)),
# by its own contract a list of len(l) >= 0 indices in [0, len(f))).
# The loop over self._coeff.items() is executed for an arbitrary entry
# (variable of length n, stored coefficient of a legal shape with entry
# function EK(k, ., .)); the body must store exactly one new coefficient c'
# under the same variable in the new function, and for every i < len(l) and
# column j < n
#       eff(c')(i, j)  =  eff(c)(l(i), j)
# with c' of a shape that is legal for a function of length len(l), and c' a
# new object.  Operations added to the matrix model for this: x[l, :] (gather
# rows by an index list), spmatrix(a, range(m), l, (m, n)) (entry a at (i,
# l(i))), matrix(x, tc='d') (dense copy).
EK = z3.Function('entry_of_coefficient', z3.IntSort(), z3.IntSort(),
                 z3.IntSort(), z3.RealSort())
LIDX = z3.Function('l', z3.IntSort(), z3.IntSort())


class IdxL:
    """l = _keytolist(key, len(self))"""
    abs_object = True

    def __init__(self, n):
        self.n = n

    def abs_truth(self, ex, st):
        return self.n > 0


class NewCoeffs:
    abs_object = True

    def abs_setitem(self, ex, st, idx, val, s):
        st.ghost['stores'] = st.ghost.get('stores', ()) + ((idx, val),)


class NewLin:
    abs_object = True

    def __init__(self):
        self.coeffs = NewCoeffs()

    def abs_getattr(self, ex, st, attr, n):
        if attr == '_coeff':
            return self.coeffs
        return core.NOTFOUND


class GetSeq(EntrySeq):
    def abs_loop(self, ex, st, s, fid):
        k = z3.Int(ex.fresh('k'))
        b = st.copy()
        b.pc += [k >= 0, k < self.N, legal_entry(k, self.Lg)]
        v = VarObj(NK(k))
        c = new_symmat(ex, b, RK(k), CK(k), lambda R_, j_: EK(k, R_, j_),
                       DK(k), 'entry k')
        ex.assign(b, fid, s.target, (v, c), s)
        base = len(b.ghost.get('stores', ()))
        l = st.ghost['l']
        i, j = z3.Int('i'), z3.Int('j')
        P = {'prop': 'C11'}
        for o in ex.exec_block(s.body, b, fid):
            if o.kind not in ('fall', 'continue'):
                raise Unsupported('early exit from the loop over the '
                                  'coefficients')
            new = o.st.ghost.get('stores', ())[base:]
            ok = len(new) == 1 and new[0][0] is v and sm(o.st, new[0][1]) \
                is not None
            ex.oblige(o.st, 'lin-index-terms', z3.BoolVal(ok), s,
                      'f[key] of a linear function stores exactly one '
                      'coefficient per variable of f, under that variable '
                      '(%d stores)' % len(new), extra=P)
            if ok:
                c2 = sm(o.st, new[0][1])
                r2, cc2, E2, n = c2.f['r'], c2.f['c'], c2.f['E'], NK(k)
                m = l.n
                n0 = len(o.st.pc)
                o.st.pc += [i >= 0, i < m, j >= 0, j < n, m >= 1]
                ex.oblige(o.st, 'lin-index-value', eff(
                    r2, cc2, E2, i, j, n) == eff(RK(k), CK(k), lambda R_, j_:
                                                 EK(k, R_, j_), LIDX(i), j,
                                                 n), s,
                    'f[key]: row i of the effective coefficient of every '
                    'variable is row l(i) of the old effective coefficient',
                    extra=P)
                ex.oblige(o.st, 'lin-index-shape', z3.Or(
                    z3.And(r2 == m, cc2 == n), z3.And(r2 == 1, cc2 == n),
                    z3.And(r2 == 1, cc2 == 1, c2.f['dense'], n == 1)), s,
                    'f[key]: the new coefficient has a shape that is legal '
                    'for a function of length len(l): len(l) x n, 1 x n, or '
                    'a dense scalar for a variable of length 1', extra=P)
                del o.st.pc[n0:]
                ex.oblige(o.st, 'lin-index-fresh', z3.BoolVal(
                    new[0][1].oid != c.oid), s,
                    'f[key]: the new coefficient is a new matrix, not the '
                    'one stored in f', extra=P)
            ex.orphans = getattr(ex, 'orphans', [])
            ex.orphans.extend(o.st.obligs)
        e = st.copy()
        e.ghost['passes'] = e.ghost.get('passes', 0) + 1
        return [core.Outcome('fall', e)]


def gi_getitem(ex, st, ref, idx, n):
    """x[l, :] with the abstract index list"""
    o = sm(st, ref)
    if o is not None and isinstance(idx, tuple) and len(idx) == 2 and \
            isinstance(idx[0], IdxL) and idx[1] == FULL:
        E = o.f['E']
        q = z3.Int('q_b')
        ex.oblige(st, 'lin-index-bounds', z3.ForAll([q], z3.Implies(z3.And(
            q >= 0, q < idx[0].n), LIDX(q) < o.f['r'])), n,
            'x[l, :]: every index of l is a row of x', extra={'prop': 'C11'})
        return new_symmat(ex, st, idx[0].n, o.f['c'],
                          lambda R_, j_: E(LIDX(R_), j_), o.f['dense'],
                          'rows l')
    return getitem(ex, st, ref, idx, n)


def m_spmatrix(ex, st, args, kwargs, n):
    # spmatrix(a, range(m), l, (m, n), 'd'): entry a at (i, l(i)), i < m
    a = scalar_term(ex, st, args[0]) if args else None
    if a is None or len(args) < 4 or not isinstance(args[2], IdxL):
        raise Unsupported('spmatrix(%r)' % (args,))
    rg = args[1]
    if not (isinstance(rg, Ref) and st.heap[rg.oid].kind == 'range' and
            const_of(st.heap[rg.oid].f['lo']) == (True, 0)):
        raise Unsupported('row indices of spmatrix')
    hi = st.heap[rg.oid].f['hi']
    m = args[2].n
    if not (isinstance(hi, I) and ex.decide(st, hi.t == m) is True):
        raise Unsupported('row indices of spmatrix are not range(len(l))')
    sz = args[3]
    if not (isinstance(sz, tuple) and len(sz) == 2 and all(isinstance(
            t_, I) for t_ in sz)):
        raise Unsupported('size of spmatrix')
    if ex.decide(st, sz[0].t == m) is not True:
        raise Unsupported('spmatrix with fewer rows than entries')
    return new_symmat(ex, st, sz[0].t, sz[1].t,
                      lambda R_, j_: z3.If(j_ == LIDX(R_), a, z3.RealVal(0)),
                      z3.BoolVal(False), 'spmatrix(a, range(m), l)')


def gi_len(ex, st, args, kwargs, n):
    v = args[0]
    if isinstance(v, IdxL):
        return I(v.n)
    if isinstance(v, GiSelf):
        return I(v.lg)
    return b_len(ex, st, args, kwargs, n)


class GiSelf:
    abs_object = True

    def __init__(self, lg, seq):
        self.lg, self.seq = lg, seq

    def abs_getattr(self, ex, st, attr, n):
        if attr == '_coeff':
            return self.seq
        return core.NOTFOUND


def gi_keytolist(ex, st, args, kwargs, n):
    Lg = st.ghost['L']
    m = z3.Int('len(l)')
    q = z3.Int('q_l')
    st.pc += [m >= 0, z3.ForAll([q], z3.And(LIDX(q) >= 0, LIDX(q) < Lg))]
    st.ghost['l'] = IdxL(m)
    return st.ghost['l']


def gi_newlin(ex, st, args, kwargs, n):
    st.ghost['news'] = st.ghost.get('news', 0) + 1
    st.ghost['new'] = NewLin()
    return st.ghost['new']


def gi_setup(sc):
    def setup(ex, st, fid, fn):
        install()
        L.ext['builtins.len'] = gi_len
        L.ext['cvxopt.modeling._keytolist'] = gi_keytolist
        L.ext['cvxopt.modeling._lin'] = gi_newlin
        L.ext['cvxopt.modeling.spmatrix'] = m_spmatrix
        L.pure.update(['cvxopt.modeling._keytolist', 'cvxopt.modeling._lin',
                       'cvxopt.modeling.spmatrix'])
        L.hooks['instance_getitem'] = gi_getitem
        fr = st.frames[fid]
        Lg, N = z3.Int('L'), z3.Int('number of terms')
        st.pc += [Lg >= 1, N >= 0]
        seq = GetSeq(Lg, N, None)
        fr['self'] = GiSelf(Lg, seq)
        fr['key'] = Unknown('key')
        fr['matrix'] = Ext('cvxopt.modeling.matrix')
        fr['spmatrix'] = Ext('cvxopt.modeling.spmatrix')
        st.ghost['L'] = Lg
        st.ghost['frame_check'] = False
    return setup


def gi_outcomes(ex, outs):
    class N:
        lineno = 0
        col_offset = 0
    P = {'prop': 'C11'}
    nret = nref = 0
    for o in outs:
        st = o.st
        l = st.ghost.get('l')
        node = N()
        if o.kind == 'raise':
            node.lineno = o.val[2] if len(o.val) > 2 else 0
            ok = o.val[0] == 'ValueError' and l is not None
            ex.oblige(st, 'lin-index-refuses', z3.And(
                z3.BoolVal(ok), l.n == 0) if ok else z3.BoolVal(False), node,
                'f[key] of a linear function raises only ValueError, for an '
                'empty index list (%s)' % (o.val[0],), extra=P)
            nref += 1
            continue
        nret += 1
        ex.oblige(st, 'lin-index-refuses', l.n > 0, node,
                  'f[key] with an empty index list is refused', extra=P)
        ex.oblige(st, 'lin-index-terms', z3.BoolVal(
            o.val is st.ghost.get('new') and st.ghost.get('news') == 1 and
            st.ghost.get('passes') == 1), node,
            'f[key] returns the new linear function, built by one pass over '
            'the coefficients of f', extra=P)
    if outs:
        ex.oblige(outs[0].st, 'covered', z3.BoolVal(nret >= 1 and nref >= 1),
                  N(), 'f[key] of a linear function returns and refuses '
                  '(%d, %d paths)' % (nret, nref), extra=P)
    return {'paths': len(outs), 'returns': nret}


FUNCS['_lin.__getitem__'] = {'setup': gi_setup, 'scenarios': {'any': {}},
                             'on_outcomes': gi_outcomes,
                             'config': {'unroll': 8}}
