"""C12: the conversion of a piecewise-linear objective in op._inmatrixform
(the block under `if not objective._isaffine():`).

Documented meaning (the comment in the code): the objective is
    f = affine + sum_k f_k,  f_k = max(g_0, g_1, ...)  or  sum(max(g_0, ...)),
and each f_k is replaced by its epigraph form: a new variable t_k -- of length
1 for a max, of the length of the max for a sum of max -- stands for f_k in
the objective (t_k itself, resp. sum(t_k)), and the constraints g_j <= t_k are
added for every argument g_j of the max.

The block is extracted mechanically (the `if` statement of _inmatrixform
whose test is `not objective._isaffine()`) and executed by pyvc over an
abstract objective with a term list of symbolic length K; term k has a class
(max / sum of max), an argument list of symbolic length NF(k) >= 1 and, for a
sum of max, the length TLEN(k) of the max.  Both loops (`for k in
range(len(objective._cvxterms))`, `for j in range(len(fk._flist))`) are
handled for an arbitrary iteration; the lists and the new objective that the
loops extend are mutable abstract objects whose growth per iteration is read
off and compared with the contract:

  per term k (outer body)
    * exactly one new variable t_k is created, of length 1 (max) resp. TLEN(k)
      (sum of max), and appended to aux_variables once        [epigraph-variable]
    * the new objective grows by exactly t_k resp. sum(t_k)    [epigraph-objective]
    * the inner loop ran over all arguments                    [epigraph-constraints]
  per argument j of term k (inner body)
    * the constraint built is  flist_k[j] <= t_k  (this argument, this
      variable, this direction), it is expanded by its own _aslinearineq()
      and BOTH lists the expansion returns go to aux_ineqs, its new variables
      to aux_variables, nothing else changes                   [epigraph-constraints]
  before / after
    * the new objective starts as copies of the constant and the linear part
      of the old one and replaces it afterwards                [epigraph-objective]

_aslinearineq (the expansion of one constraint) is NOT under contract: its
result is an opaque triple attached to the constraint it was called on.
"""
import ast, z3
from engine.pyvc import driver, core
from engine.pyvc.core import (Dyn, Ref, R, B, I, Ext, Unknown, Unsupported,
                              NeedFork, PyRaise, const_of, Outcome)
from contracts.py.extern_cvxopt import LIB as L

# texts of obligations that were refuted because the code is not of the
# documented FORM (the goal was the constant false: no counter-model), as
# opposed to a condition that z3 refuted with values
FORM_REFUTED = set()

Z = z3.IntVal
IS = z3.IntSort()
CLS = z3.Function('term_is_max', IS, z3.BoolSort())
NF = z3.Function('number_of_arguments', IS, IS)
TLEN = z3.Function('length_of_the_max', IS, IS)
K = z3.Int('number of terms')


class Abs:
    abs_object = True

    def abs_getattr(self, ex, st, attr, n):
        return core.NOTFOUND

    def abs_eq(self, ex, st, o):
        return o is self

    abs_is = abs_eq


class Arg(Abs):
    """flist_k[j]"""
    def __init__(self, k, j):
        self.k, self.j = k, j

    def abs_cmp(self, ex, st, op, other, node, refl):
        le = isinstance(op, ast.LtE)
        if not isinstance(op, (ast.LtE, ast.GtE)):
            raise Unsupported('comparison other than <=, >=')
        # a <= b (or b >= a) is the constraint Con(a, b)
        return Con(self, other) if le != refl else Con(other, self)


class NewVar(Abs):
    def __init__(self, ln, site):
        self.ln, self.site = ln, site

    def abs_cmp(self, ex, st, op, other, node, refl):
        le = isinstance(op, ast.LtE)
        if not isinstance(op, (ast.LtE, ast.GtE)):
            raise Unsupported('comparison other than <=, >=')
        return Con(self, other) if le != refl else Con(other, self)


class SumOf(Abs):
    def __init__(self, v):
        self.v = v


class Con(Abs):
    """lhs <= rhs"""
    def __init__(self, lhs, rhs):
        self.lhs, self.rhs = lhs, rhs

    def abs_method(self, ex, st, name, args, kwargs, n):
        if name == '_aslinearineq' and not args and not kwargs:
            return (Exp('ineqs', self), Exp('aux_ineqs', self),
                    Exp('aux_vars', self))
        raise Unsupported('method %s of a constraint' % name)


class Exp(Abs):
    """one of the three lists c._aslinearineq() returns"""
    def __init__(self, which, con):
        self.which, self.con = which, con

    def abs_binop(self, ex, st, op, b, n):
        if isinstance(op, ast.Add) and isinstance(b, Exp):
            return Cat((self, b))
        raise Unsupported('operation on an expansion list')


class Cat(Abs):
    def __init__(self, parts):
        self.parts = tuple(parts)

    def abs_binop(self, ex, st, op, b, n):
        if isinstance(op, ast.Add) and isinstance(b, (Exp, Cat)):
            return Cat(self.parts + (b.parts if isinstance(b, Cat) else (b,)))
        raise Unsupported('operation on expansion lists')


class Grow(Abs):
    """a list (aux_ineqs, aux_variables) or the new objective: a mutable
    object; what was added to it is kept in the state"""
    def __init__(self, name):
        self.name = name

    def items(self, st):
        return st.ghost.get('grow', {}).get(self.name, ())

    def add(self, st, its):
        st.ghost['grow'] = dict(st.ghost.get('grow', {}))
        st.ghost['grow'][self.name] = self.items(st) + tuple(its)

    def _its(self, st, b):
        if isinstance(b, Exp):
            return (b,)
        if isinstance(b, Cat):
            return b.parts
        if isinstance(b, (NewVar, SumOf)) and self.name == 'newobj':
            return (b,)
        if isinstance(b, Ref) and st.heap[b.oid].kind == 'list' and \
                'items' in st.heap[b.oid].f:
            return tuple(st.heap[b.oid].f['items'])
        raise Unsupported('adding %r to %s' % (b, self.name))

    def abs_inplace(self, ex, st, op, b, n):
        if not isinstance(op, ast.Add):
            raise Unsupported('operation on %s' % self.name)
        self.add(st, self._its(st, b))
        return self

    def abs_binop(self, ex, st, op, b, n):
        raise Unsupported('%s is used in an expression (only += is '
                          'modelled)' % self.name)


class Term(Abs):
    def __init__(self, k):
        self.k = k

    def abs_getattr(self, ex, st, attr, n):
        if attr == '_flist':
            return FList(self.k)
        return core.NOTFOUND

    def abs_method(self, ex, st, name, args, kwargs, n):
        if name == '_length' and not args:
            return I(TLEN(self.k))
        raise Unsupported('method %s of a term' % name)


class TypeOf(Abs):
    def __init__(self, t):
        self.t = t

    def abs_is(self, ex, st, o):
        if isinstance(o, Ext) and o.name == 'cvxopt.modeling._minmax':
            return CLS(self.t.k)
        if isinstance(o, Ext) and o.name == 'cvxopt.modeling._sum_minmax':
            return z3.Not(CLS(self.t.k))
        raise Unsupported('type test of a term')

    abs_eq = abs_is


class FList(Abs):
    def __init__(self, k):
        self.k = k

    def abs_getitem(self, ex, st, idx, n):
        t = idx.t if isinstance(idx, I) else (Z(idx) if isinstance(
            idx, int) and not isinstance(idx, bool) else None)
        if t is None:
            raise Unsupported('index of an argument list')
        if ex.decide(st, z3.And(t >= 0, t < NF(self.k))) is not True:
            raise Unsupported('argument index not provably in range')
        return Arg(self.k, t)


class Terms(Abs):
    def abs_getitem(self, ex, st, idx, n):
        t = idx.t if isinstance(idx, I) else (Z(idx) if isinstance(
            idx, int) and not isinstance(idx, bool) else None)
        if t is None:
            raise Unsupported('index of the term list')
        if ex.decide(st, z3.And(t >= 0, t < K)) is not True:
            raise Unsupported('term index not provably in range')
        return Term(t)


class Part(Abs):
    def __init__(self, name, copy_of=None):
        self.name, self.copy_of = name, copy_of

    def abs_unop(self, ex, st, op, n):
        if isinstance(op, ast.UAdd):
            return Part(self.name, copy_of=self)
        raise Unsupported('unary operation on a part')


class OldObjective(Abs):
    def __init__(self):
        self.parts = {'_constant': Part('constant'),
                      '_linear': Part('linear part'), '_cvxterms': Terms()}

    def abs_getattr(self, ex, st, attr, n):
        return self.parts.get(attr, core.NOTFOUND)

    def abs_method(self, ex, st, name, args, kwargs, n):
        if name == '_isaffine':
            return B(K == 0)
        raise Unsupported('method %s of the objective' % name)


class NewObjective(Grow):
    def __init__(self):
        Grow.__init__(self, 'newobj')

    def abs_getattr(self, ex, st, attr, n):
        return st.ghost.get('newattrs', {}).get(attr, core.NOTFOUND)


def _setattr(orig):
    def f(ex, st, base, attr, v, s):
        if isinstance(base, NewObjective):
            st.ghost['newattrs'] = dict(st.ghost.get('newattrs', {}))
            st.ghost['newattrs'][attr] = v
            return
        if isinstance(base, Con):
            return                      # c.name = ...
        if isinstance(base, Abs):
            raise Unsupported('attribute %s of %r assigned' % (attr, base))
        return orig(ex, st, base, attr, v, s)
    f._objective_spec = True
    return f


def range_loop(ex, st, s, fid, it):
    if not st.ghost.get('objective_conversion'):
        return None
    o = st.heap[it.oid]
    lo, hi = o.f['lo'], o.f['hi']
    if not isinstance(hi, I) or not isinstance(s.target, ast.Name):
        raise Unsupported('loop over a range of another form')
    sink = st.ghost['sink']
    sink.append(('epigraph-constraints', list(st.pc), z3.BoolVal(
        const_of(lo) == (True, 0)), 'the loops over the terms and over the '
        'arguments of a term start at index 0', s.lineno))
    outer = z3.eq(z3.simplify(hi.t), K)
    kcur = st.ghost.get('k')
    inner = kcur is not None and z3.eq(z3.simplify(hi.t), z3.simplify(
        NF(kcur)))
    if not (outer or inner):
        raise Unsupported('loop over range(%s): neither the terms nor the '
                          'arguments of the current term' % hi.t)
    c = z3.Int(ex.fresh('k' if outer else 'j'))
    b = st.copy()
    b.pc += [c >= 0, c < hi.t]
    if outer:
        b.pc += [NF(c) >= 1, TLEN(c) >= 1]
        b.ghost['k'] = c
    else:
        b.ghost['j'] = c
    b.ghost['newvars'] = ()
    ex.assign(b, fid, s.target, I(c), s)
    before = dict(b.ghost.get('grow', {}))
    names0 = dict(b.frames[fid])
    nfall = 0
    for o_ in ex.exec_block(s.body, b, fid):
        if o_.kind not in ('fall', 'continue'):
            sink.append(('epigraph-constraints', list(o_.st.pc),
                         z3.BoolVal(False), 'the %s loop has no early exit '
                         '(%s)' % ('term' if outer else 'argument', o_.kind),
                         s.lineno))
            continue
        nfall += 1
        after = o_.st.ghost.get('grow', {})
        delta = {nm: after.get(nm, ())[len(before.get(nm, ())):]
                 for nm in set(after) | set(before)}
        (outer_spec if outer else inner_spec)(ex, o_.st, c, delta, s, sink)
    e = st.copy()
    e.ghost['grow'] = dict(e.ghost.get('grow', {}))
    for nm in ('aux_ineqs', 'aux_variables') + (('newobj',) if outer else ()):
        e.ghost['grow'][nm] = e.ghost['grow'].get(nm, ()) + ((
            'all-terms' if outer else ('all-arguments', kcur)),)
    if not outer:
        # names assigned in the inner body are not used after it
        pass
    return [Outcome('fall', e)]


def inner_spec(ex, st, j, delta, s, sink):
    k = st.ghost['k']
    tk = st.ghost.get('tk')
    ai, av = delta.get('aux_ineqs', ()), delta.get('aux_variables', ())
    ok = len(ai) == 2 and all(isinstance(x, Exp) for x in ai) and \
        {x.which for x in ai} == {'ineqs', 'aux_ineqs'} and \
        ai[0].con is ai[1].con and len(av) == 1 and isinstance(
            av[0], Exp) and av[0].which == 'aux_vars' and \
        av[0].con is ai[0].con and not delta.get('newobj')
    sink.append(('epigraph-constraints', list(st.pc), z3.BoolVal(ok),
                 'for every argument of term k one constraint is expanded by '
                 '_aslinearineq(): both lists of the expansion are added to '
                 'aux_ineqs, its new variables to aux_variables, nothing '
                 'else changes (aux_ineqs: %d, aux_variables: %d items)' % (
                     len(ai), len(av)), s.lineno))
    if not ok:
        return
    con = ai[0].con
    good = isinstance(con.lhs, Arg) and con.rhs is tk and tk is not None
    sink.append(('epigraph-constraints', list(st.pc), z3.And(
        con.lhs.k == k, con.lhs.j == j) if good else z3.BoolVal(False),
        'the constraint expanded for argument j of term k is  flist_k[j] <= '
        't_k  (this argument on the left, the new variable of this term on '
        'the right)', s.lineno))


def outer_spec(ex, st, k, delta, s, sink):
    nv = st.ghost.get('newvars', ())
    tk = st.ghost.get('tk')
    one = len(nv) == 1 and nv[0] is tk
    sink.append(('epigraph-variable', list(st.pc), z3.BoolVal(one),
                 'exactly one new variable is created for term k (%d)' %
                 len(nv), s.lineno))
    if not one:
        return
    sink.append(('epigraph-variable', list(st.pc),
                 tk.ln == z3.If(CLS(k), 1, TLEN(k)),
                 'the new variable has length 1 for a max and the length of '
                 'the max for a sum of max', s.lineno))
    av = delta.get('aux_variables', ())
    okv = len(av) == 2 and av[0] is tk and av[1] == ('all-arguments', k)
    sink.append(('epigraph-variable', list(st.pc), z3.BoolVal(okv),
                 'aux_variables gets the new variable once, then the new '
                 'variables of the expansions of all arguments', s.lineno))
    ai = delta.get('aux_ineqs', ())
    sink.append(('epigraph-constraints', list(st.pc), z3.BoolVal(
        ai == (('all-arguments', k),)),
        'aux_ineqs gets the expansions of  flist_k[j] <= t_k  for all '
        'arguments j of term k and nothing else', s.lineno))
    no = delta.get('newobj', ())
    okn = len(no) == 1 and ((no[0] is tk) or (isinstance(no[0], SumOf) and
                                              no[0].v is tk))
    sink.append(('epigraph-objective', list(st.pc), z3.BoolVal(okn),
                 'the new objective grows by one summand built from the new '
                 'variable', s.lineno))
    if okn:
        sink.append(('epigraph-objective', list(st.pc),
                     CLS(k) if no[0] is tk else z3.Not(CLS(k)), 't_k itself '
                     'stands for a max, sum(t_k) for a sum of max',
                     s.lineno))


def obligations(timeout_ms=10000):
    tree, src = driver.load_module('modeling.py')
    obs, sink = [], []

    def add(oid, kind, status, text, line=0, detail=None):
        obs.append({'id': 'modeling.py:op._inmatrixform:%s:%s' % (kind, oid),
                    'kind': kind, 'status': status, 'text': text,
                    'line': line, 'model': None, 'detail': detail,
                    'by': ['z3'] if status == 'proved' else []})
    fn = None
    for c_ in tree.body:
        if isinstance(c_, ast.ClassDef) and c_.name == 'op':
            for m_ in c_.body:
                if isinstance(m_, ast.FunctionDef) and \
                        m_.name == '_inmatrixform':
                    fn = m_
    if fn is None:
        raise KeyError('op._inmatrixform')
    blocks = [s for s in fn.body if isinstance(s, ast.If) and ast.unparse(
        s.test).replace(' ', '') == 'notobjective._isaffine()']
    if len(blocks) != 1:
        add('anchor', 'epigraph-objective', 'undecided', 'the block that '
            'converts a piecewise-linear objective was found once (%d)' %
            len(blocks))
        return obs
    blk = blocks[0]
    ex = core.Executor(tree, 'cvxopt.modeling', L, {
        'body_slice': lambda f: [blk], 'unroll': 8})
    saved = {k_: L.ext.get(k_) for k_ in (
        'cvxopt.modeling.variable', 'cvxopt.modeling.sum',
        'cvxopt.modeling._function', 'builtins.len', 'builtins.type',
        'builtins.str')}
    saved_hook = L.hooks.get('loop_kind:range')
    saved_setattr = L.setattr

    def m_variable(ex_, st, args, kwargs, n):
        if not args or not isinstance(args[0], (I, int)):
            raise Unsupported('variable(%r)' % (args,))
        ln = args[0].t if isinstance(args[0], I) else Z(args[0])
        v = NewVar(ln, n.lineno)
        st.ghost['newvars'] = st.ghost.get('newvars', ()) + (v,)
        st.ghost['tk'] = v
        return v

    def m_sum(ex_, st, args, kwargs, n):
        if len(args) == 1 and isinstance(args[0], NewVar):
            return SumOf(args[0])
        raise Unsupported('sum(%r)' % (args,))

    def m_function(ex_, st, args, kwargs, n):
        st.ghost['newobjs'] = st.ghost.get('newobjs', 0) + 1
        o = NewObjective()
        st.ghost['newobj'] = o
        return o

    len0, type0 = saved['builtins.len'], saved['builtins.type']

    def b_len(ex_, st, args, kwargs, n):
        if isinstance(args[0], Terms):
            return I(K)
        if isinstance(args[0], FList):
            return I(NF(args[0].k))
        return len0(ex_, st, args, kwargs, n)

    def b_type(ex_, st, args, kwargs, n):
        if len(args) == 1 and isinstance(args[0], Term):
            return TypeOf(args[0])
        return type0(ex_, st, args, kwargs, n)

    def b_str(ex_, st, args, kwargs, n):
        return Unknown('str')

    def setup(ex_, st, fid, f_):
        L.ext.update({'cvxopt.modeling.variable': m_variable,
                      'cvxopt.modeling.sum': m_sum,
                      'cvxopt.modeling._function': m_function,
                      'builtins.len': b_len, 'builtins.type': b_type,
                      'builtins.str': b_str})
        L.pure.update(['cvxopt.modeling.variable', 'cvxopt.modeling.sum',
                       'cvxopt.modeling._function', 'builtins.str'])
        L.hooks['loop_kind:range'] = range_loop
        L.setattr = _setattr(saved_setattr)
        fr = st.frames[fid]
        old = OldObjective()
        fr['objective'] = old
        fr['aux_ineqs'] = Grow('aux_ineqs')
        fr['aux_variables'] = Grow('aux_variables')
        fr['self'] = Unknown('self')
        fr['variable'] = Ext('cvxopt.modeling.variable')
        fr['_minmax'] = Ext('cvxopt.modeling._minmax')
        st.pc += [K >= 0]
        st.ghost.update({'objective_conversion': True, 'sink': sink,
                         'old': old, 'frame_check': False})
    ex.find_function('op._inmatrixform')
    try:
        outs = ex.run_function('op._inmatrixform', setup)
    except Unsupported as e:
        add('supported', 'epigraph-objective', 'undecided', 'the block that '
            'converts a piecewise-linear objective is inside the supported '
            'subset', detail=str(e))
        return obs
    finally:
        for k_, v_ in saved.items():
            if v_ is None:
                L.ext.pop(k_, None)
            else:
                L.ext[k_] = v_
        if saved_hook is None:
            L.hooks.pop('loop_kind:range', None)
        else:
            L.hooks['loop_kind:range'] = saved_hook
        L.setattr = saved_setattr
    nconv = 0
    for o in outs:
        st = o.st
        fr = st.frames[min(st.frames)]
        old = st.ghost['old']
        if o.kind not in ('fall', 'return'):
            sink.append(('epigraph-objective', list(st.pc), z3.BoolVal(False),
                         'the conversion of the objective raises no '
                         'exception (%s)' % (o.val[0] if o.kind == 'raise'
                                             else o.kind,), blk.lineno))
            continue
        cur = fr.get('objective')
        if cur is old:
            sink.append(('epigraph-objective', list(st.pc), K == 0,
                         'the objective is left alone only if it is affine',
                         blk.lineno))
            continue
        nconv += 1
        na = st.ghost.get('newattrs', {})
        okc = isinstance(cur, NewObjective) and st.ghost.get(
            'newobjs') == 1 and isinstance(na.get('_constant'), Part) and \
            na['_constant'].copy_of is old.parts['_constant'] and \
            isinstance(na.get('_linear'), Part) and \
            na['_linear'].copy_of is old.parts['_linear']
        sink.append(('epigraph-objective', list(st.pc), z3.BoolVal(okc),
                     'the objective is replaced by a new function that '
                     'starts as copies of the constant and the linear part '
                     'of the old one', blk.lineno))
        g = st.ghost.get('grow', {})
        sink.append(('epigraph-objective', list(st.pc), z3.BoolVal(
            g.get('newobj') == ('all-terms',) and g.get('aux_ineqs') ==
            ('all-terms',) and g.get('aux_variables') == ('all-terms',)),
            'the new objective, aux_ineqs and aux_variables are extended by '
            'one pass over all terms and nothing else', blk.lineno))
    sink.append(('covered', [], z3.BoolVal(nconv >= 1), 'a path that '
                 'converts the objective was examined (%d)' % nconv,
                 blk.lineno))
    seen = {}
    for kind, pc, goal, text, line in sink:
        r = ex.check(pc, [z3.Not(goal)], timeout=timeout_ms)
        st_ = 'proved' if r == z3.unsat else ('refuted' if r == z3.sat
                                              else 'undecided')
        if st_ == 'refuted' and z3.is_false(z3.simplify(goal)):
            FORM_REFUTED.add(text)
        if kind == 'covered' and st_ != 'proved':
            st_ = 'undecided'
        key = (kind, text)
        rank = {'proved': 0, 'undecided': 1, 'refuted': 2}
        if key not in seen or rank[st_] > rank[seen[key][0]]:
            seen[key] = (st_, line)
    for i_, ((kind, text), (st_, line)) in enumerate(sorted(seen.items())):
        add('%s#%d' % (kind, i_), kind, st_, text, line)
    return obs


# ------------------------------ the loop that expands the PWL inequalities
#   for i in pwl_ineqs:
#       pwl_ineqs[i], caux, newvars = i._aslinearineq()
#       aux_ineqs += caux
#       aux_variables += newvars
# Contract: for every piecewise-linear inequality i the three lists of ITS
# expansion go to pwl_ineqs[i] (the pieces whose multipliers mmap sums, 8.16),
# aux_ineqs and aux_variables respectively; nothing else changes.
class PwlKey(Con):
    def __init__(self):
        Con.__init__(self, 'i', 0)


class PwlMap(Abs):
    def abs_setitem(self, ex, st, idx, v, s):
        st.ghost['pwl_stores'] = st.ghost.get('pwl_stores', ()) + ((idx, v),)

    def abs_loop(self, ex, st, s, fid):
        sink = st.ghost['sink']
        key = PwlKey()
        b = st.copy()
        b.ghost['pwl_stores'] = ()
        ex.assign(b, fid, s.target, key, s)
        before = dict(b.ghost.get('grow', {}))
        n = 0
        for o in ex.exec_block(s.body, b, fid):
            if o.kind not in ('fall', 'continue'):
                sink.append(('epigraph-constraints', list(o.st.pc),
                             z3.BoolVal(False), 'the loop over the '
                             'piecewise-linear inequalities has no early '
                             'exit (%s)' % o.kind, s.lineno))
                continue
            n += 1
            after = o.st.ghost.get('grow', {})
            d = {nm: after.get(nm, ())[len(before.get(nm, ())):]
                 for nm in ('aux_ineqs', 'aux_variables')}
            ps = o.st.ghost.get('pwl_stores', ())
            ok = len(ps) == 1 and ps[0][0] is key and isinstance(
                ps[0][1], Exp) and ps[0][1].which == 'ineqs' and \
                ps[0][1].con is key and len(d['aux_ineqs']) == 1 and \
                isinstance(d['aux_ineqs'][0], Exp) and \
                d['aux_ineqs'][0].which == 'aux_ineqs' and \
                d['aux_ineqs'][0].con is key and \
                len(d['aux_variables']) == 1 and isinstance(
                    d['aux_variables'][0], Exp) and \
                d['aux_variables'][0].which == 'aux_vars' and \
                d['aux_variables'][0].con is key
            sink.append(('epigraph-constraints', list(o.st.pc),
                         z3.BoolVal(ok), 'for every piecewise-linear '
                         'inequality i the three lists of i._aslinearineq() '
                         'go to pwl_ineqs[i], aux_ineqs and aux_variables '
                         'respectively, and nothing else changes',
                         s.lineno))
        sink.append(('covered', [], z3.BoolVal(n >= 1), 'the body of the '
                     'loop over the piecewise-linear inequalities falls '
                     'through', s.lineno))
        return [Outcome('fall', st.copy())]


def pwl_loop_obligations(timeout_ms=10000):
    tree, src = driver.load_module('modeling.py')
    obs, sink = [], []

    def add(oid, kind, status, text, line=0, detail=None):
        obs.append({'id': 'modeling.py:op._inmatrixform:%s:pwl-loop:%s' % (
            kind, oid), 'kind': kind, 'status': status, 'text': text,
            'line': line, 'model': None, 'detail': detail,
            'by': ['z3'] if status == 'proved' else []})
    fn = None
    for c_ in tree.body:
        if isinstance(c_, ast.ClassDef) and c_.name == 'op':
            for m_ in c_.body:
                if isinstance(m_, ast.FunctionDef) and \
                        m_.name == '_inmatrixform':
                    fn = m_
    if fn is None:
        raise KeyError('op._inmatrixform')
    loops = [s for s in fn.body if isinstance(s, ast.For) and ast.unparse(
        s.iter) == 'pwl_ineqs' and any(
            isinstance(x, ast.Call) and isinstance(x.func, ast.Attribute)
            and x.func.attr == '_aslinearineq' for x in ast.walk(s))]
    if len(loops) != 1:
        add('anchor', 'epigraph-constraints', 'undecided', 'the loop that '
            'expands the piecewise-linear inequalities was found once (%d)'
            % len(loops))
        return obs
    loop = loops[0]
    ex = core.Executor(tree, 'cvxopt.modeling', L, {
        'body_slice': lambda f: [loop], 'unroll': 8})

    def setup(ex_, st, fid, f_):
        fr = st.frames[fid]
        fr['pwl_ineqs'] = PwlMap()
        fr['aux_ineqs'] = Grow('aux_ineqs')
        fr['aux_variables'] = Grow('aux_variables')
        st.ghost.update({'sink': sink, 'frame_check': False})
    ex.find_function('op._inmatrixform')
    try:
        ex.run_function('op._inmatrixform', setup)
    except Unsupported as e:
        add('supported', 'epigraph-constraints', 'undecided', 'the loop that '
            'expands the piecewise-linear inequalities is inside the '
            'supported subset', detail=str(e))
        return obs
    for i_, (kind, pc, goal, text, line) in enumerate(sink):
        r = ex.check(pc, [z3.Not(goal)], timeout=timeout_ms)
        st_ = 'proved' if r == z3.unsat else ('refuted' if r == z3.sat
                                              else 'undecided')
        if st_ == 'refuted' and z3.is_false(z3.simplify(goal)):
            FORM_REFUTED.add(text)
        if kind == 'covered' and st_ != 'proved':
            st_ = 'undecided'
        add('%s#%d' % (kind, i_), kind, st_, text, line)
    return obs
