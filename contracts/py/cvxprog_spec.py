"""Contracts for src/python/cvxprog.py (cpl, cp, gp) -- DESIGN C04, C09, C10."""
import ast, z3
from engine.pyvc.core import (I, R, B, Dyn, Ref, Ext, Unknown, PyRaise,
                              const_of, TAG_STR, NeedFork)
from contracts.py.extern_cvxopt import LIB as L, is_matrix, mat
from contracts.py import coneprog_spec as cs

CPL_FIELDS = ('status', 'x', 'y', 'znl', 'zl', 'snl', 'sl', 'gap',
              'relative gap', 'primal objective', 'dual objective',
              'primal slack', 'dual slack', 'primal infeasibility',
              'dual infeasibility')


@L.role('F')
def role_F(ex, st, f, args, kwargs, n):
    """user function F:  F() -> (mnl, x0);  F(x) -> None (x outside the
    domain) or (f, Df);  F(x, z) -> None or (f, Df, H).  The returned
    objects belong to the user (owner CALLBACK); F does not modify x, z."""
    if not args:
        mnl = st.ghost.get('F.mnl')
        if mnl is None:
            mnl = ex.fresh_int('mnl')
            ex.axioms.append(mnl.t >= 0)
            st.ghost['F.mnl'] = mnl
        x0 = cs.input_matrix(ex, st, 'F().x0', ncols=1)
        st.heap[x0.oid].meta['owner'] = 'CALLBACK:x0 returned by F()'
        return (mnl, x0)
    if ex.choose(st, n, 'F_refuses'):
        return None
    mnl = st.ghost.get('F.mnl')
    fv = L.new_matrix(ex, st, mnl if mnl is not None else ex.fresh_int(
        'len_f'), 1, 'd', owner='CALLBACK:f returned by F', site=n.lineno)
    Df = L.new_matrix(ex, st, ex.fresh_int('Df.nrows'), ex.fresh_int(
        'Df.ncols'), 'd', owner='CALLBACK:Df returned by F', site=n.lineno,
        sparse=bool(st.ghost.get('scenario', {}).get('sparseDf', False)))
    if len(args) == 1:
        return (fv, Df)
    H = L.new_matrix(ex, st, ex.fresh_int('H.nrows'), ex.fresh_int(
        'H.ncols'), 'd', owner='CALLBACK:H returned by F', site=n.lineno,
        sparse=bool(st.ghost.get('scenario', {}).get('sparseDf', False)))
    return (fv, Df, H)


def cpl_setup(sc):
    def setup(ex, st, fid, fn):
        fr = st.frames[fid]
        fr['c'] = cs.input_matrix(ex, st, 'c', ncols=1)
        fr['F'] = Unknown('user function F', role='F')
        fr['G'] = cs.input_matrix(ex, st, 'G', sparse=bool(sc.get('sparse', False))) if sc.get(
            'G', True) else None
        fr['h'] = cs.input_matrix(ex, st, 'h', ncols=1) if sc.get(
            'G', True) else None
        fr['dims'] = cs.input_dims(ex, st) if sc.get('dims', True) else None
        if fr['dims'] is not None:
            cs.register_sblocks(ex, st, fr['dims'])
        fr['A'] = cs.input_matrix(ex, st, 'A', sparse=bool(sc.get('sparse', False))) if sc.get(
            'A', True) else None
        fr['b'] = cs.input_matrix(ex, st, 'b', ncols=1) if sc.get(
            'b', True) else None
        ks = sc.get('kktsolver')
        if ks is None:
            fr['kktsolver'] = None
        elif ks == 'str':
            d = ex.fresh_dyn('kktsolver')
            ex.axioms.append(d.tag == TAG_STR)
            fr['kktsolver'] = d
        else:
            fr['kktsolver'] = Unknown('user kktsolver', role='kktsolver')
        for nm in ('xnewcopy', 'xdot', 'xaxpy', 'xscal', 'ynewcopy', 'ydot',
                   'yaxpy', 'yscal'):
            fr[nm] = None
        if sc.get('customy'):
            fr['A'] = Unknown('operator A', role='opA')
            for nm, role in (('ynewcopy', 'xnewcopy'), ('ydot', 'xdot'),
                             ('yaxpy', 'xaxpy'), ('yscal', 'xscal')):
                fr[nm] = Unknown('user ' + nm, role=role)
        fr['kwargs'] = cs.kwargs_dict(ex, st, sc.get('options', False))
        ex.axioms.append(cs.SYM_AXIOM)
        st.ghost['scenario'] = sc
    return setup


CPL_SCENARIOS = {
    'customy-nob': {'customy': True, 'b': False, 'kktsolver': 'callable'},
    'defaults': {},
    'options+str+sparse': {'options': True, 'kktsolver': 'str',
                           'sparse': True, 'sparseDf': True},
    'noG-noA': {'G': False, 'A': False, 'b': False, 'dims': False},
    'userkkt': {'kktsolver': 'callable', 'options': True},
}

cs.PROP_OF.update({'cpl': 'C04', 'cp': 'C04', 'gp': 'C04'})
cpl_on_outcomes = cs.make_on_outcomes('cpl', CPL_FIELDS, ('optimal',
                                                          'unknown'),
                                      svec=('sl', 'zl'), slack=())


def cp_setup(sc):
    def setup(ex, st, fid, fn):
        fr = st.frames[fid]
        fr['F'] = Unknown('user function F', role='F')
        fr['G'] = cs.input_matrix(ex, st, 'G', sparse=bool(sc.get('sparse', False))) if sc.get(
            'G', True) else None
        fr['h'] = cs.input_matrix(ex, st, 'h', ncols=1) if sc.get(
            'G', True) else None
        fr['dims'] = cs.input_dims(ex, st) if sc.get('dims', True) else None
        if fr['dims'] is not None:
            cs.register_sblocks(ex, st, fr['dims'])
        fr['A'] = cs.input_matrix(ex, st, 'A', sparse=bool(sc.get('sparse', False))) if sc.get(
            'A', True) else None
        fr['b'] = cs.input_matrix(ex, st, 'b', ncols=1) if sc.get(
            'b', True) else None
        ks = sc.get('kktsolver')
        if ks is None:
            fr['kktsolver'] = None
        elif ks == 'str':
            d = ex.fresh_dyn('kktsolver')
            ex.axioms.append(d.tag == TAG_STR)
            fr['kktsolver'] = d
        else:
            fr['kktsolver'] = Unknown('user kktsolver', role='kktsolver')
        for nm in ('xnewcopy', 'xdot', 'xaxpy', 'xscal', 'ynewcopy', 'ydot',
                   'yaxpy', 'yscal'):
            fr[nm] = None
        if sc.get('customy'):
            fr['A'] = Unknown('operator A', role='opA')
            for nm, role in (('ynewcopy', 'xnewcopy'), ('ydot', 'xdot'),
                             ('yaxpy', 'xaxpy'), ('yscal', 'xscal')):
                fr[nm] = Unknown('user ' + nm, role=role)
        fr['kwargs'] = cs.kwargs_dict(ex, st, sc.get('options', False))
        ex.axioms.append(cs.SYM_AXIOM)
        st.ghost['scenario'] = sc
    return setup


FUNCS = {
    'cpl': {'setup': cpl_setup, 'scenarios': CPL_SCENARIOS,
            'on_outcomes': cpl_on_outcomes,
            'config': {'unroll': 4, 'watch_assign': {
                'relgap': cs.relgap_assigned}}},
}
