"""C12: constraint._aslinearineq -- the epigraph expansion of one convex
piecewise-linear inequality  f = faff + g_0 + g_1 + ... <= 0  into linear
inequalities (returned as ineqs, aux_ineqs, aux_vars).

Documented meaning (docstring and comments of the function): g_k is a max
(`_minmax`) or a sum of max (`_sum_minmax`), and
  (1) no g_k:                the constraint itself is the only inequality;
  (2) exactly one g, a max:  no new variable --
      (2a) max over the components of ONE function f0:  if faff has length 1
           the single (vector) constraint faff + f0 <= 0, otherwise one
           constraint faff + f0[k] <= 0 for every component k of f0;
      (2b) max of several functions: faff + f_k <= 0 for every argument k;
      each of these constraints is expanded by its own _aslinearineq() and
      the three lists of the expansion go to the three result lists;
  (3) otherwise: for every g_k a new variable t_k -- of the length of g_k
      for a max, of the length of the max for a sum of max -- with the
      constraints f_j <= t_k for every argument f_j of g_k (expanded; both
      inequality lists of the expansion go to aux_ineqs), t_k added to
      aux_vars, and finally the one inequality  faff + sum_k s_k <= 0,
      s_k = t_k for a max and sum(t_k) for a sum of max, in ineqs.
The constraint and its function are not modified (faff shares the constant
and the linear part with it by reference -- the comment in the code says so --
so no in-place operation may touch faff).

The body is executed by pyvc over an abstract constraint whose term list has
symbolic length NT; term k has a class, a length TL(k), an argument list of
symbolic length NF(k) >= 1 and, for a sum of max, the length TLEN(k) of the
max.  Every `for ... in range(len(...))` loop is executed for an arbitrary
iteration; the three result lists are mutable abstract objects whose growth
per iteration and per path is compared with the contract; the running sum
`sumt` is a value with a symbolic prefix.  The recursive calls are opaque: a
call c._aslinearineq() yields three lists attached to c (partial correctness
by induction on the recursion depth is the reading of this contract).
"""
import ast, z3
from engine.pyvc import driver, core
from engine.pyvc.core import (Dyn, Ref, R, B, I, Ext, Unknown, Unsupported,
                              NeedFork, PyRaise, const_of, Outcome)
from contracts.py.extern_cvxopt import LIB as L

# texts of obligations that were refuted because the code is not of the
# documented FORM (the goal was the constant false: no counter-model), as
# opposed to a condition that z3 refuted with values
FORM_REFUTED = set()
from contracts.py.objective_spec import (Abs, Con, Exp, Cat, Grow, NewVar,
                                         SumOf, CLS, NF, TLEN, Z, IS)

NT = z3.Int('number of nonlinear terms')
TL = z3.Function('length_of_term', IS, IS)
ALEN = z3.Function('length_of_argument', IS, IS, IS)
LA = z3.Int('len(faff)')


class Arg(Abs):
    """flist_k[j]"""
    def __init__(self, k, j):
        self.k, self.j = k, j

    def abs_cmp(self, ex, st, op, other, node, refl):
        le = isinstance(op, ast.LtE)
        if not isinstance(op, (ast.LtE, ast.GtE)):
            raise Unsupported('comparison other than <=, >=')
        return Con(self, other) if le != refl else Con(other, self)

    def abs_getitem(self, ex, st, idx, n):
        t = idx.t if isinstance(idx, I) else (Z(idx) if isinstance(
            idx, int) and not isinstance(idx, bool) else None)
        if t is None:
            raise Unsupported('index of an argument')
        return Comp(self, t)


class Comp(Abs):
    """f0[i]"""
    def __init__(self, arg, i):
        self.arg, self.i = arg, i


class Expr(Abs):
    """faff + something"""
    def __init__(self, faff, other):
        self.faff, self.other = faff, other

    def abs_cmp(self, ex, st, op, other, node, refl):
        if isinstance(op, ast.LtE) and not refl and const_of(other) in (
                (True, 0), (True, 0.0)):
            return Con(self, 0)
        raise Unsupported('comparison of faff + ... with something else '
                          'than 0')


class SumT(Abs):
    """the running sum of the epigraph variables"""
    def __init__(self, items):
        self.items = tuple(items)

    def abs_binop(self, ex, st, op, b, n):
        if isinstance(op, ast.Add) and isinstance(b, (NewVar, SumOf)):
            return SumT(self.items + (b,))
        raise Unsupported('operation on the running sum')

    def abs_cmp(self, ex, st, op, other, node, refl):
        if isinstance(op, ast.LtE) and not refl and const_of(other) in (
                (True, 0), (True, 0.0)):
            return Con(Expr(None, self), 0)     # without the affine part
        raise Unsupported('comparison of the running sum')


class NewFn(Abs):
    """faff = _function() (its two affine parts are then assigned)"""
    def abs_getattr(self, ex, st, attr, n):
        return st.ghost.get('faffattrs', {}).get(attr, core.NOTFOUND)

    def abs_binop(self, ex, st, op, b, n):
        if isinstance(op, ast.Add) and isinstance(b, (Arg, Comp, SumT)):
            return Expr(self, b)
        raise Unsupported('operation on faff')

    def abs_inplace(self, ex, st, op, b, n):
        # faff shares its parts with the constraint's own function: an
        # in-place operation on faff changes the constraint (expansion-frame)
        st.ghost['faff_inplace'] = True
        if isinstance(op, ast.Add):
            st.ghost['faff_added'] = b
        return self

    def abs_cmp(self, ex, st, op, other, node, refl):
        if isinstance(op, ast.LtE) and not refl and const_of(other) in (
                (True, 0), (True, 0.0)) and st.ghost.get(
                    'faff_added') is not None:
            return Con(Expr(self, st.ghost['faff_added']), 0)
        raise Unsupported('comparison of faff')


class Term(Abs):
    def __init__(self, k):
        self.k = k

    def abs_getattr(self, ex, st, attr, n):
        if attr == '_flist':
            return FList(self.k)
        return core.NOTFOUND

    def abs_method(self, ex, st, name, args, kwargs, n):
        if name == '_length' and not args:
            return I(TLEN(self.k))
        raise Unsupported('method %s of a term' % name)


class TypeOf(Abs):
    def __init__(self, t):
        self.t = t

    def abs_is(self, ex, st, o):
        if isinstance(o, Ext) and o.name == 'cvxopt.modeling._minmax':
            return CLS(self.t.k)
        if isinstance(o, Ext) and o.name == 'cvxopt.modeling._sum_minmax':
            return z3.Not(CLS(self.t.k))
        raise Unsupported('type test of a term')

    abs_eq = abs_is


class FList(Abs):
    def __init__(self, k):
        self.k = k

    def abs_getitem(self, ex, st, idx, n):
        t = idx.t if isinstance(idx, I) else (Z(idx) if isinstance(
            idx, int) and not isinstance(idx, bool) else None)
        if t is None:
            raise Unsupported('index of an argument list')
        if ex.decide(st, z3.And(t >= 0, t < NF(self.k))) is not True:
            raise Unsupported('argument index not provably in range')
        return Arg(self.k, t)


class Terms(Abs):
    def abs_truth(self, ex, st):
        return NT > 0

    def abs_getitem(self, ex, st, idx, n):
        t = idx.t if isinstance(idx, I) else (Z(idx) if isinstance(
            idx, int) and not isinstance(idx, bool) else None)
        if t is None:
            raise Unsupported('index of the term list')
        if ex.decide(st, z3.And(t >= 0, t < NT)) is not True:
            raise Unsupported('term index not provably in range')
        return Term(t)


class Part(Abs):
    def __init__(self, name):
        self.name = name


class OwnFn(Abs):
    def __init__(self):
        self.parts = {'_constant': Part('constant'),
                      '_linear': Part('linear part'), '_cvxterms': Terms()}

    def abs_getattr(self, ex, st, attr, n):
        return self.parts.get(attr, core.NOTFOUND)


class Self(Abs):
    def __init__(self, typ):
        self.typ = typ
        self.f = OwnFn()

    def abs_getattr(self, ex, st, attr, n):
        if attr == '_f':
            return self.f
        if attr == 'name':
            return Unknown('name')
        return core.NOTFOUND

    def abs_method(self, ex, st, name, args, kwargs, n):
        if name == 'type' and not args:
            return self.typ
        raise Unsupported('method %s of the constraint' % name)


def _setattr(orig):
    def f(ex, st, base, attr, v, s):
        if isinstance(base, NewFn):
            st.ghost['faffattrs'] = dict(st.ghost.get('faffattrs', {}))
            st.ghost['faffattrs'][attr] = v
            return
        if isinstance(base, Con):
            return                      # c.name = ...
        if isinstance(base, (Self, OwnFn, Part, Term)):
            st.ghost['own_modified'] = True
            return
        if isinstance(base, Abs):
            raise Unsupported('attribute %s of %r assigned' % (attr, base))
        return orig(ex, st, base, attr, v, s)
    return f


LISTS = ('ineqs', 'aux_ineqs', 'aux_vars')


def exp_of(items):
    """(constraint) if items is one expansion list Exp(which, c), else None"""
    return items[0].con if len(items) == 1 and isinstance(
        items[0], Exp) else None


def range_loop(ex, st, s, fid, it):
    if not st.ghost.get('aslinearineq'):
        return None
    o = st.heap[it.oid]
    lo, hi = o.f['lo'], o.f['hi']
    if not isinstance(hi, I) or not isinstance(s.target, ast.Name):
        raise Unsupported('loop over a range of another form')
    sink = st.ghost['sink']
    sink.append(('expansion-loops', list(st.pc), z3.BoolVal(
        const_of(lo) == (True, 0)), 'the loops over terms, arguments and '
        'components start at index 0', s.lineno))
    h = z3.simplify(hi.t)
    kcur = st.ghost.get('k')
    # which loop this is follows from where it stands (the path condition):
    # inside the term loop it runs over the arguments of the current term;
    # for one max with one argument over the components of that argument;
    # for one max with several arguments over the arguments; else over the
    # terms.  Its bound must be the corresponding length.
    one_max = ex.decide(st, z3.And(NT == 1, CLS(Z(0)))) is True
    if kcur is not None:
        kind, want = 'arguments-of-term', NF(kcur)
    elif one_max and ex.decide(st, NF(Z(0)) == 1) is True:
        kind, want = 'components', ALEN(Z(0), Z(0))
    elif one_max and ex.decide(st, NF(Z(0)) != 1) is True:
        kind, want = 'arguments', NF(Z(0))
    elif ex.decide(st, z3.Not(z3.And(NT == 1, CLS(Z(0))))) is True:
        kind, want = 'terms', NT
    else:
        raise Unsupported('loop over range(%s) at a place the contract does '
                          'not know' % h)
    sink.append(('expansion-loops', list(st.pc), hi.t == want,
                 'the loop over the %s runs up to their number (%s)' % (
                     kind.replace('-of-term', ' of the term'), want),
                 s.lineno))
    c = z3.Int(ex.fresh('k' if kind == 'terms' else 'j'))
    b = st.copy()
    b.pc += [c >= 0, c < hi.t]
    if kind == 'terms':
        b.pc += [NF(c) >= 1, TLEN(c) >= 1, TL(c) >= 1]
        b.ghost['k'] = c
        b.ghost['newvars'] = ()
        # the running sum: a prefix of unknown content
        fr = b.frames[fid]
        sums = [nm for nm, v in fr.items() if isinstance(v, SumT)]
        for nm in sums:
            fr[nm] = SumT((('prefix', c),))
    ex.assign(b, fid, s.target, I(c), s)
    before = dict(b.ghost.get('grow', {}))
    for o_ in ex.exec_block(s.body, b, fid):
        if o_.kind not in ('fall', 'continue'):
            sink.append(('expansion-loops', list(o_.st.pc),
                         z3.BoolVal(False), 'the loop over the %s has no '
                         'early exit (%s)' % (kind, o_.kind), s.lineno))
            continue
        after = o_.st.ghost.get('grow', {})
        delta = {nm: after.get(nm, ())[len(before.get(nm, ())):]
                 for nm in LISTS}
        SPEC[kind](ex, o_.st, c, delta, s, sink, fid)
    e = st.copy()
    e.ghost['grow'] = dict(e.ghost.get('grow', {}))
    grows = {'terms': ('aux_ineqs', 'aux_vars'),
             'arguments-of-term': ('aux_ineqs', 'aux_vars'),
             'arguments': LISTS, 'components': LISTS}[kind]
    for nm in grows:
        e.ghost['grow'][nm] = e.ghost['grow'].get(nm, ()) + ((
            'all', kind, kcur),)
    if kind == 'terms':
        fr = e.frames[fid]
        for nm, v in list(fr.items()):
            if isinstance(v, SumT):
                fr[nm] = SumT((('all-terms',),))
    return [Outcome('fall', e)]


def three_lists(delta):
    """the constraint whose expansion was distributed over the three result
    lists (ineqs <- ineqs, aux_ineqs <- aux_ineqs, aux_vars <- aux_vars)"""
    cs = [exp_of(delta[nm]) for nm in LISTS]
    if None in cs or not (cs[0] is cs[1] is cs[2]):
        return None
    if [delta[nm][0].which for nm in LISTS] != list(LISTS):
        return None
    return cs[0]


def spec_direct(what):
    def f(ex, st, c, delta, s, sink, fid):
        con = three_lists(delta)
        sink.append(('expansion-constraints', list(st.pc), z3.BoolVal(
            con is not None), 'one constraint per %s is expanded and the '
            'three lists of its expansion go to ineqs, aux_ineqs and '
            'aux_vars respectively; nothing else is added' % what, s.lineno))
        if con is None:
            return
        lhs = con.lhs
        ok = isinstance(lhs, Expr) and lhs.faff is st.ghost.get('faff') and \
            con.rhs == 0
        if what == 'argument':
            g = z3.And(lhs.other.k == 0, lhs.other.j == c) if ok and \
                isinstance(lhs.other, Arg) else z3.BoolVal(False)
            text = 'the constraint for argument k is  faff + f_k <= 0'
        else:
            g = z3.And(lhs.other.arg.k == 0, lhs.other.arg.j == 0,
                       lhs.other.i == c) if ok and isinstance(
                           lhs.other, Comp) else z3.BoolVal(False)
            text = 'the constraint for component k of the single argument ' \
                'f0 is  faff + f0[k] <= 0'
        sink.append(('expansion-constraints', list(st.pc), g, text,
                     s.lineno))
    return f


def spec_inner(ex, st, j, delta, s, sink, fid):
    k, tk = st.ghost['k'], st.ghost.get('tk')
    ai, av = delta['aux_ineqs'], delta['aux_vars']
    ok = len(ai) == 2 and all(isinstance(x, Exp) for x in ai) and \
        [x.which for x in ai] == ['ineqs', 'aux_ineqs'] and \
        ai[0].con is ai[1].con and exp_of(av) is ai[0].con and \
        av[0].which == 'aux_vars' and not delta['ineqs']
    sink.append(('expansion-constraints', list(st.pc), z3.BoolVal(ok),
                 'for every argument of term k one constraint is expanded; '
                 'both inequality lists of the expansion go to aux_ineqs, '
                 'its variables to aux_vars, nothing goes to ineqs',
                 s.lineno))
    if ok:
        con = ai[0].con
        good = isinstance(con.lhs, Arg) and con.rhs is tk and tk is not None
        sink.append(('expansion-constraints', list(st.pc), z3.And(
            con.lhs.k == k, con.lhs.j == j) if good else z3.BoolVal(False),
            'the constraint for argument j of term k is  f_j <= t_k',
            s.lineno))


def spec_terms(ex, st, k, delta, s, sink, fid):
    nv, tk = st.ghost.get('newvars', ()), st.ghost.get('tk')
    one = len(nv) == 1 and nv[0] is tk
    sink.append(('expansion-variable', list(st.pc), z3.BoolVal(one),
                 'exactly one new variable is created for term k (%d)' %
                 len(nv), s.lineno))
    if not one:
        return
    sink.append(('expansion-variable', list(st.pc),
                 tk.ln == z3.If(CLS(k), TL(k), TLEN(k)),
                 'the new variable has the length of the term for a max and '
                 'the length of the max for a sum of max', s.lineno))
    av, ai = delta['aux_vars'], delta['aux_ineqs']
    single = len(av) == 2 and av[0] is tk and isinstance(av[1], Exp) and \
        av[1].which == 'aux_vars' and len(ai) == 2 and all(
            isinstance(x, Exp) for x in ai) and \
        [x.which for x in ai] == ['ineqs', 'aux_ineqs'] and \
        ai[0].con is ai[1].con is av[1].con
    multi = av == (tk, ('all', 'arguments-of-term', k)) and \
        ai == (('all', 'arguments-of-term', k),)
    sink.append(('expansion-constraints', list(st.pc), z3.BoolVal(
        (single or multi) and not delta['ineqs']),
        'term k contributes its new variable and the expansions of '
        'f_j <= t_k for all its arguments to aux_vars / aux_ineqs, nothing '
        'to ineqs', s.lineno))
    if single:
        con = ai[0].con
        good = isinstance(con.lhs, Arg) and con.rhs is tk
        sink.append(('expansion-constraints', list(st.pc), z3.And(
            con.lhs.k == k, con.lhs.j == 0, NF(k) == 1, CLS(k)) if good
            else z3.BoolVal(False), 'the single-argument form  f_0 <= t_k  '
            'is used only for a max with one argument', s.lineno))
    sums = [v for v in st.frames[fid].values() if isinstance(v, SumT)]
    oks = len(sums) == 1 and len(sums[0].items) == 2 and \
        sums[0].items[0] == ('prefix', k) and (
            sums[0].items[1] is tk or (isinstance(sums[0].items[1], SumOf)
                                       and sums[0].items[1].v is tk))
    sink.append(('expansion-objective', list(st.pc), z3.BoolVal(oks),
                 'the running sum grows by one summand built from the new '
                 'variable of term k', s.lineno))
    if oks:
        sink.append(('expansion-objective', list(st.pc),
                     CLS(k) if sums[0].items[1] is tk else z3.Not(CLS(k)),
                     't_k itself stands for a max, sum(t_k) for a sum of '
                     'max', s.lineno))


SPEC = {'terms': spec_terms, 'arguments-of-term': spec_inner,
        'arguments': spec_direct('argument'),
        'components': spec_direct('component')}


def obligations(timeout_ms=10000):
    tree, src = driver.load_module('modeling.py')
    obs, sink = [], []

    def add(oid, kind, status, text, line=0, detail=None):
        obs.append({'id': 'modeling.py:constraint._aslinearineq:%s:%s' % (
            kind, oid), 'kind': kind, 'status': status, 'text': text,
            'line': line, 'model': None, 'detail': detail,
            'by': ['z3'] if status == 'proved' else []})
    fn = None
    for c_ in tree.body:
        if isinstance(c_, ast.ClassDef) and c_.name == 'constraint':
            for m_ in c_.body:
                if isinstance(m_, ast.FunctionDef) and \
                        m_.name == '_aslinearineq':
                    fn = m_
    if fn is None:
        raise KeyError('constraint._aslinearineq')
    # the statement that creates the three (empty) result lists is replaced
    # by three abstract lists; everything else is executed as it stands
    init = [s for s in fn.body if isinstance(s, ast.Assign) and ast.unparse(
        s).replace(' ', '') ==
        'ineqs,aux_ineqs,aux_vars=([],[],varlist())']
    if len(init) != 1:
        add('anchor', 'expansion-constraints', 'undecided', 'the statement '
            'that creates the three empty result lists was found (%d)' %
            len(init))
        return obs
    body = [s for s in fn.body if s is not init[0]]
    saved = {k_: L.ext.get(k_) for k_ in (
        'cvxopt.modeling.variable', 'cvxopt.modeling.sum',
        'cvxopt.modeling._function', 'builtins.len', 'builtins.type',
        'builtins.str', 'builtins.isinstance')}
    saved_hook = L.hooks.get('loop_kind:range')
    saved_setattr = L.setattr
    len0, type0 = saved['builtins.len'], saved['builtins.type']
    isinst0 = saved['builtins.isinstance']

    def m_variable(ex_, st, args, kwargs, n):
        if not args or not isinstance(args[0], (I, int)):
            raise Unsupported('variable(%r)' % (args,))
        ln = args[0].t if isinstance(args[0], I) else Z(args[0])
        v = NewVar(ln, n.lineno)
        st.ghost['newvars'] = st.ghost.get('newvars', ()) + (v,)
        st.ghost['tk'] = v
        return v

    def m_sum(ex_, st, args, kwargs, n):
        if len(args) == 1 and isinstance(args[0], NewVar):
            return SumOf(args[0])
        raise Unsupported('sum(%r)' % (args,))

    def m_function(ex_, st, args, kwargs, n):
        cnt = st.ghost.get('nfunctions', 0)
        st.ghost['nfunctions'] = cnt + 1
        if cnt == 0:
            f = NewFn()
            st.ghost['faff'] = f
            return f
        return SumT(())

    def b_len(ex_, st, args, kwargs, n):
        v = args[0]
        if isinstance(v, Terms):
            return I(NT)
        if isinstance(v, FList):
            return I(NF(v.k))
        if isinstance(v, Term):
            return I(TL(v.k))
        if isinstance(v, Arg):
            return I(ALEN(v.k, v.j))
        if isinstance(v, NewFn):
            return I(LA)
        return len0(ex_, st, args, kwargs, n)

    def b_type(ex_, st, args, kwargs, n):
        if len(args) == 1 and isinstance(args[0], Term):
            return TypeOf(args[0])
        return type0(ex_, st, args, kwargs, n)

    def b_isinstance(ex_, st, args, kwargs, n):
        # _sum_minmax is a subclass of _minmax
        if len(args) == 2 and isinstance(args[0], Term) and isinstance(
                args[1], Ext):
            if args[1].name == 'cvxopt.modeling._minmax':
                return True
            if args[1].name == 'cvxopt.modeling._sum_minmax':
                return B(z3.Not(CLS(args[0].k)))
        return isinst0(ex_, st, args, kwargs, n)

    def run(typ):
        ex = core.Executor(tree, 'cvxopt.modeling', L, {
            'body_slice': lambda f: body, 'unroll': 8})

        def setup(ex_, st, fid, f_):
            L.ext.update({'cvxopt.modeling.variable': m_variable,
                          'cvxopt.modeling.sum': m_sum,
                          'cvxopt.modeling._function': m_function,
                          'builtins.len': b_len, 'builtins.type': b_type,
                          'builtins.str': lambda *a: Unknown('str'),
                          'builtins.isinstance': b_isinstance})
            L.pure.update(['cvxopt.modeling.variable', 'cvxopt.modeling.sum',
                           'cvxopt.modeling._function', 'builtins.str'])
            L.hooks['loop_kind:range'] = range_loop
            L.setattr = _setattr(saved_setattr)
            fr = st.frames[fid]
            me = Self(typ)
            fr['self'] = me
            for nm in LISTS:
                fr[nm] = Grow(nm)
            fr['variable'] = Ext('cvxopt.modeling.variable')
            fr['_minmax'] = Ext('cvxopt.modeling._minmax')
            fr['_sum_minmax'] = Ext('cvxopt.modeling._sum_minmax')
            st.pc += [NT >= 0, LA >= 1, NF(Z(0)) >= 1, ALEN(Z(0), Z(0)) >= 1]
            st.ghost.update({'aslinearineq': True, 'sink': sink, 'me': me,
                             'frame_check': False})
        ex.find_function('constraint._aslinearineq')
        return ex, ex.run_function('constraint._aslinearineq', setup)
    try:
        try:
            ex, outs = run('<')
            ex2, outs2 = run('=')
        except Unsupported as e:
            add('supported', 'expansion-constraints', 'undecided',
                '_aslinearineq is inside the supported subset',
                detail=str(e))
            return obs
    finally:
        for k_, v_ in saved.items():
            if v_ is None:
                L.ext.pop(k_, None)
            else:
                L.ext[k_] = v_
        if saved_hook is None:
            L.hooks.pop('loop_kind:range', None)
        else:
            L.hooks['loop_kind:range'] = saved_hook
        L.setattr = saved_setattr
    for o in outs2:
        sink.append(('expansion-refuses', list(o.st.pc), z3.BoolVal(
            o.kind == 'raise' and o.val[0] == 'TypeError'),
            'an equality constraint is refused with TypeError',
            fn.lineno))
    shapes = set()
    for o in outs:
        st = o.st
        me = st.ghost['me']
        if o.kind != 'return':
            sink.append(('expansion-refuses', list(st.pc), z3.BoolVal(False),
                         'an inequality is expanded without an exception '
                         '(%s)' % (o.val[0] if o.kind == 'raise' else o.kind,),
                         fn.lineno))
            continue
        fr = st.frames[min(st.frames)]
        lists = tuple(fr.get(nm) for nm in LISTS)
        okret = isinstance(o.val, tuple) and len(o.val) == 3 and all(
            a is b_ for a, b_ in zip(o.val, lists)) and all(
                isinstance(x, Grow) for x in lists)
        sink.append(('expansion-constraints', list(st.pc), z3.BoolVal(okret),
                     'the three lists are returned in the order (ineqs, '
                     'aux_ineqs, aux_vars)', fn.lineno))
        fa = st.ghost.get('faffattrs', {})
        sink.append(('expansion-frame', list(st.pc), z3.BoolVal(
            not st.ghost.get('own_modified') and
            not st.ghost.get('faff_inplace') and
            fa.get('_constant') is me.f.parts['_constant'] and
            fa.get('_linear') is me.f.parts['_linear'] and set(fa) ==
            {'_constant', '_linear'}),
            'faff is the affine part of the constraint (constant and linear '
            'part by reference), and neither the constraint nor faff is '
            'modified (no attribute store, no in-place operation)',
            fn.lineno))
        g = {nm: st.ghost.get('grow', {}).get(nm, ()) for nm in LISTS}
        faff = st.ghost.get('faff')

        def is_con(x, pred):
            return isinstance(x, Con) and isinstance(x.lhs, Expr) and \
                x.lhs.faff is faff and x.rhs == 0 and pred(x.lhs.other)
        cond = None
        if g['ineqs'] == (me,) and not g['aux_ineqs'] and not g['aux_vars']:
            shapes.add('linear')
            cond = NT == 0
            text = 'the constraint itself is returned only if it is linear'
        elif three_lists(g) is not None and is_con(three_lists(g), lambda a:
                                                   isinstance(a, Arg)):
            shapes.add('single-vector')
            a = three_lists(g).lhs.other
            cond = z3.And(NT == 1, CLS(Z(0)), NF(Z(0)) == 1, LA == 1,
                          a.k == 0, a.j == 0)
            text = ('the single constraint faff + f0 <= 0 is used only for '
                    'one max over the components of one function f0 and an '
                    'affine part of length 1')
        elif all(g[nm] == (('all', 'components', None),) for nm in LISTS):
            shapes.add('components')
            cond = z3.And(NT == 1, CLS(Z(0)), NF(Z(0)) == 1, LA != 1)
            text = ('one constraint per component of f0 is used only for '
                    'one max over the components of one function and an '
                    'affine part that is not of length 1')
        elif all(g[nm] == (('all', 'arguments', None),) for nm in LISTS):
            shapes.add('arguments')
            cond = z3.And(NT == 1, CLS(Z(0)), NF(Z(0)) != 1)
            text = ('one constraint per argument is used only for one max '
                    'of several functions')
        elif len(g['ineqs']) == 1 and is_con(g['ineqs'][0], lambda a:
                                             isinstance(a, SumT) and a.items
                                             == (('all-terms',),)) and \
                g['aux_ineqs'] == (('all', 'terms', None),) and \
                g['aux_vars'] == (('all', 'terms', None),):
            shapes.add('general')
            cond = z3.And(NT >= 1, z3.Not(z3.And(NT == 1, CLS(Z(0)))))
            text = ('the general form (one new variable per term, the single '
                    'inequality faff + sum of the new variables <= 0) is '
                    'used for everything that is not one max')
        if cond is None:
            sink.append(('expansion-constraints', list(st.pc),
                         z3.BoolVal(False), 'what is returned is one of the '
                         'five documented forms (ineqs: %r)' % (
                             g['ineqs'],), fn.lineno))
        else:
            sink.append(('expansion-constraints', list(st.pc), cond, text,
                         fn.lineno))
    sink.append(('covered', [], z3.BoolVal(len(shapes) == 5),
                 'all five forms were reached (%s)' % sorted(shapes),
                 fn.lineno))
    seen = {}
    rank = {'proved': 0, 'undecided': 1, 'refuted': 2}
    for kind, pc, goal, text, line in sink:
        r = ex.check(pc, [z3.Not(goal)], timeout=timeout_ms)
        st_ = 'proved' if r == z3.unsat else ('refuted' if r == z3.sat
                                              else 'undecided')
        if st_ == 'refuted' and z3.is_false(z3.simplify(goal)):
            FORM_REFUTED.add(text)
        if kind == 'covered' and st_ != 'proved':
            st_ = 'undecided'
        key = (kind, text)
        if key not in seen or rank[st_] > rank[seen[key][0]]:
            seen[key] = (st_, line)
    for i_, ((kind, text), (st_, line)) in enumerate(sorted(seen.items())):
        add('%s#%d' % (kind, i_), kind, st_, text, line)
    return obs
