"""C11: modeling._keytolist(key, n) -- the conversion of an index (int, list
of ints) of a length-n sequence into a list of positions, used by every
__getitem__ of the modeling layer (variable, _lin, _function, _minmax).

Contract (from the property: "indexing ... f.value() equals the formula",
i.e. Python's indexing rule, negative indices counting from the end):
    key an int:
        IndexError  iff  key < -n or key >= n;  otherwise the result is the
        one-element list [key mod n]  (key + n for a negative key).
    key a list of ints of any length:
        IndexError  iff  some key[i] is outside [-n, n);  otherwise the result
        is a new list of the same length with  l[i] = key[i] mod n,  so every
        l[i] is in [0, n);  key itself is not modified.
    (slices go through slice.indices and range: library semantics, assumed;
    anything else is refused with TypeError -- not decided here.)
This is the contract that contracts/py/function_index_spec.py assumes for
the call in _function.__getitem__.

How the real body is executed.  The list argument is an abstract sequence
key(0..m-1) of integers.  The filtering comprehension
`[k for k in key if -n <= k < n]` yields an abstract list whose length is the
ghost count  cnt(m),  cnt(j+1) = cnt(j) + [key(j) in range];  the lemma
"cnt(m) <= m, and cnt(m) = m only if every key(j), j < m, is in range" is
proved by induction on every run (obligations `filter-lemma`), and when the
lengths agree the filtered list is the key elementwise.  The loop
`for i in range(len(l)): if l[i] < 0: l[i] += n` is handled by the pointwise
rule: the body is executed for an arbitrary i, must read and write the list
only at i (otherwise the function is outside the rule: undecided), and its
effect defines the new entry function.
"""
import ast, z3
from engine.pyvc import driver, core
from engine.pyvc.core import (Dyn, Ref, R, B, I, Ext, Unknown, Unsupported,
                              NeedFork, PyRaise, const_of, Outcome)
from contracts.py.extern_cvxopt import LIB as L

Z = z3.IntVal
IS = z3.IntSort()
KEY = z3.Function('key', IS, IS)
CNT = z3.Function('cnt', IS, IS)       # number of in-range entries before j
OTHER = z3.Function('filtered', IS, IS)


class KeyArg:
    """the list argument: ints key(0..m-1)"""
    abs_object = True

    def __init__(self, m):
        self.m = m

    def abs_comp(self, ex, st, n, g, fid):
        if len(g.ifs) != 1 or not isinstance(g.target, ast.Name) or not (
                isinstance(n.elt, ast.Name) and n.elt.id == g.target.id):
            raise Unsupported('comprehension over the key')
        j = z3.Int('j!')
        nf = next(ex.fid)
        st.frames[nf] = {g.target.id: I(KEY(j))}
        st.parent[nf] = fid
        try:
            c = ex.truth(st, ex.ev(g.ifs[0], st, nf), n)
        finally:
            st.frames.pop(nf, None)
        if isinstance(c, bool):
            if not c:
                return ex.alloc(st, 'list', {'items': []},
                                {'site': n.lineno, 'owner': 'FRESH'})
            c = z3.BoolVal(True)
        # the filter, as a predicate of the position
        pred = lambda jj: z3.substitute(c, (j, jj))
        st.ghost['pred'] = pred
        m = self.m
        jj = z3.Int('jj')
        # definition of the ghost count and the lemma about it (proved
        # separately, see filter_lemma)
        st.pc += [CNT(Z(0)) == 0, CNT(m) >= 0, CNT(m) <= m,
                  z3.Implies(CNT(m) == m, z3.ForAll([jj], z3.Implies(z3.And(
                      jj >= 0, jj < m), pred(jj)))),
                  z3.Implies(z3.ForAll([jj], z3.Implies(z3.And(
                      jj >= 0, jj < m), pred(jj))), CNT(m) == m)]
        whole = CNT(m) == m
        l = IList()
        l.set(st, CNT(m), lambda q: z3.If(whole, KEY(q), OTHER(q)))
        st.ghost['filtered'] = l
        return l

    def abs_setitem(self, ex, st, idx, v, s):
        ex.oblige(st, 'key-frame', z3.BoolVal(False), s,
                  '_keytolist does not modify the key', extra={'prop': 'C11'})

    def abs_getitem(self, ex, st, idx, n):
        t = idx.t if isinstance(idx, I) else (Z(idx) if isinstance(
            idx, int) and not isinstance(idx, bool) else None)
        if t is None:
            raise Unsupported('index of the key')
        return I(KEY(t))


class IList:
    """a list of ints of symbolic length (mutable: its length and entry
    function live in the state)"""
    abs_object = True
    _ids = [0]

    def __init__(self):
        IList._ids[0] += 1
        self.id = IList._ids[0]

    def get(self, st):
        return st.ghost['ilists'][self.id]

    def set(self, st, n, f):
        st.ghost['ilists'] = dict(st.ghost.get('ilists', {}))
        st.ghost['ilists'][self.id] = (n, f)
        st.ghost['ilist_objs'] = dict(st.ghost.get('ilist_objs', {}))
        st.ghost['ilist_objs'][self.id] = self

    def _idx(self, ex, st, idx, node):
        t = idx.t if isinstance(idx, I) else (Z(idx) if isinstance(
            idx, int) and not isinstance(idx, bool) else None)
        if t is None:
            raise Unsupported('index of a list of ints')
        n, f = self.get(st)
        pw = st.ghost.get('pointwise')
        if pw is not None and pw[0] is self:
            # the rule applies only to bodies that touch l at the loop
            # index; anything else is outside it (undecided, not a violation)
            if ex.decide(st, t == pw[1]) is not True:
                raise Unsupported('the loop over range(len(l)) touches l '
                                  'at an index other than the loop index: '
                                  'outside the pointwise rule')
            return pw[1]
        ok = z3.And(t >= -n, t < n)
        d = ex.decide(st, ok)
        if d is None:
            raise NeedFork(ok)
        if not d:
            raise PyRaise('IndexError', 'list index out of range')
        return z3.If(t < 0, t + n, t)

    def abs_getitem(self, ex, st, idx, node):
        t = self._idx(ex, st, idx, node)
        return I(self.get(st)[1](t))

    def abs_setitem(self, ex, st, idx, v, s):
        t = self._idx(ex, st, idx, s)
        if not isinstance(v, I):
            raise Unsupported('storing a non-int in the index list')
        n, f = self.get(st)
        vt = v.t
        self.set(st, n, lambda q: z3.If(q == t, vt, f(q)))

    def abs_truth(self, ex, st):
        return self.get(st)[0] > 0


def range_loop(ex, st, s, fid, it):
    """for i in range(len(l)): body  -- pointwise rule"""
    if not st.ghost.get('keytolist'):
        return None
    o = st.heap[it.oid]
    lo, hi = o.f['lo'], o.f['hi']
    tgt = None
    for l in st.ghost.get('ilist_objs', {}).values():
        n, f = l.get(st)
        if isinstance(hi, I) and z3.eq(z3.simplify(hi.t), z3.simplify(n)) \
                and const_of(lo) == (True, 0):
            tgt = l
    if tgt is None or not isinstance(s.target, ast.Name):
        raise Unsupported('loop over a range that is not range(len(l))')
    n, f = tgt.get(st)
    i = z3.Int(ex.fresh('i'))
    b = st.copy()
    b.pc += [i >= 0, i < n]
    b.ghost['pointwise'] = (tgt, i)
    ex.assign(b, fid, s.target, I(i), s)
    names0 = {k_: v_ for k_, v_ in b.frames[fid].items()}
    new = None
    for o_ in ex.exec_block(s.body, b, fid):
        if o_.kind not in ('fall', 'continue'):
            raise Unsupported('early exit from the loop over range(len(l))')
        for k_, v_ in o_.st.frames[fid].items():
            if k_ != s.target.id and v_ is not names0.get(k_):
                raise Unsupported('the loop over range(len(l)) assigns %s' %
                                  k_)
        n2, f2 = tgt.get(o_.st)
        if not z3.eq(n2, n):
            raise Unsupported('the loop changes the length of the list')
        # the new entry at i, under this path's condition
        cond = z3.And(o_.st.pc[len(b.pc):]) if len(o_.st.pc) > len(b.pc) \
            else z3.BoolVal(True)
        val = f2(i)
        new = val if new is None else z3.If(cond, val, new)
        ex.orphans = getattr(ex, 'orphans', [])
        ex.orphans.extend(o_.st.obligs)
    e = st.copy()
    if new is not None:
        nv = new
        tgt.set(e, n, lambda q: z3.substitute(nv, (i, q)))
    return [Outcome('fall', e)]


_len0 = L.ext.get('builtins.len')
_type0 = L.ext.get('builtins.type')


def b_len(ex, st, args, kwargs, n):
    v = args[0]
    if isinstance(v, KeyArg):
        return I(v.m)
    if isinstance(v, IList):
        return I(v.get(st)[0])
    return _len0(ex, st, args, kwargs, n)


def b_type(ex, st, args, kwargs, n):
    if len(args) == 1 and isinstance(args[0], (KeyArg, IList)):
        return Ext('builtins.list')
    return _type0(ex, st, args, kwargs, n)


_MINE = {'builtins.len': b_len, 'builtins.type': b_type}


def install():
    L.ext.update(_MINE)
    L.pure.update(_MINE)
    L.hooks['loop_kind:range'] = range_loop


class _N:
    lineno = 0
    col_offset = 0


def setup_for(sc):
    def setup(ex, st, fid, fn):
        install()
        fr = st.frames[fid]
        n = z3.Int('n')
        st.pc.append(n >= 0)
        fr['n'] = I(n)
        st.ghost['keytolist'] = True
        st.ghost['frame_check'] = False
        st.ghost['n'] = n
        if sc['key'] == 'int':
            k = z3.Int('key')
            fr['key'] = I(k)
            st.ghost['k'] = k
        else:
            m = z3.Int('len(key)')
            st.pc.append(m >= 0)
            ka = KeyArg(m)
            fr['key'] = ka
            st.ghost['keyarg'] = ka
        fr['matrix'] = Ext('cvxopt.modeling.matrix')
    return setup


def result_list(ex, st, v):
    """(length, entry function) of the returned list, or None"""
    if isinstance(v, IList):
        return v.get(st)
    if isinstance(v, Ref) and st.heap[v.oid].kind == 'list' and \
            'items' in st.heap[v.oid].f:
        its = st.heap[v.oid].f['items']
        ts = []
        for x in its:
            if isinstance(x, I):
                ts.append(x.t)
            elif isinstance(x, int) and not isinstance(x, bool):
                ts.append(Z(x))
            else:
                return None

        def f(q):
            r = Z(0)
            for a, t in reversed(list(enumerate(ts))):
                r = z3.If(q == a, t, r)
            return r
        return Z(len(ts)), f
    return None


def int_outcomes(ex, outs):
    P = {'prop': 'C11'}
    nret = nexc = 0
    for o in outs:
        st = o.st
        n, k = st.ghost['n'], st.ghost['k']
        node = _N()
        inr = z3.And(k >= -n, k < n)
        if o.kind == 'raise':
            node.lineno = o.val[2] if len(o.val) > 2 else 0
            nexc += 1
            ex.oblige(st, 'key-refuses', z3.And(z3.BoolVal(
                o.val[0] == 'IndexError'), z3.Not(inr)), node,
                '_keytolist(int key, n) raises only IndexError, and only '
                'for a key outside [-n, n) (%s)' % (o.val[0],), extra=P)
            continue
        nret += 1
        rl = result_list(ex, st, o.val)
        ex.oblige(st, 'key-accepts', inr, node,
                  '_keytolist(int key, n) returns only for -n <= key < n',
                  extra=P)
        if rl is None:
            ex.oblige(st, 'key-value', z3.BoolVal(False), node,
                      'the result is a list of ints', extra=P)
            continue
        ln, f = rl
        ex.oblige(st, 'key-value', z3.And(
            ln == 1, f(Z(0)) == z3.If(k < 0, k + n, k), f(Z(0)) >= 0,
            f(Z(0)) < n), node,
            '_keytolist(int key, n) = [key mod n]: one position in [0, n), '
            'key + n for a negative key', extra=P)
    if outs:
        ex.oblige(outs[0].st, 'covered', z3.BoolVal(nret >= 2 and nexc >= 1),
                  _N(), 'int key: returning and refusing paths examined '
                  '(%d, %d)' % (nret, nexc), extra=P)
    return {'paths': len(outs), 'returns': nret}


def list_outcomes(ex, outs):
    P = {'prop': 'C11'}
    nret = nexc = 0
    q = z3.Int('q')
    for o in outs:
        st = o.st
        n, ka = st.ghost['n'], st.ghost['keyarg']
        m = ka.m
        node = _N()
        allin = z3.ForAll([q], z3.Implies(z3.And(q >= 0, q < m), z3.And(
            KEY(q) >= -n, KEY(q) < n)))
        if o.kind == 'raise':
            node.lineno = o.val[2] if len(o.val) > 2 else 0
            nexc += 1
            ex.oblige(st, 'key-refuses', z3.And(z3.BoolVal(
                o.val[0] == 'IndexError'), z3.Not(allin)), node,
                '_keytolist(list key, n) raises only IndexError, and only '
                'if some key[i] is outside [-n, n) (%s)' % (o.val[0],),
                extra=P)
            continue
        nret += 1
        ex.oblige(st, 'key-accepts', allin, node,
                  '_keytolist(list key, n) returns only if every key[i] is '
                  'in [-n, n)', extra=P)
        rl = result_list(ex, st, o.val)
        if rl is None:
            ex.oblige(st, 'key-value', z3.BoolVal(False), node,
                      'the result is a list of ints', extra=P)
            continue
        ln, f = rl
        n0 = len(st.pc)
        st.pc += [q >= 0, q < m]
        ex.oblige(st, 'key-value', z3.And(
            ln == m, f(q) == z3.If(KEY(q) < 0, KEY(q) + n, KEY(q)),
            f(q) >= 0, f(q) < n), node,
            '_keytolist(list key, n): same length, l[i] = key[i] mod n '
            '(key[i] + n for a negative entry), every l[i] in [0, n)',
            extra=P)
        del st.pc[n0:]
        ex.oblige(st, 'key-fresh', z3.BoolVal(o.val is not ka), node,
                  '_keytolist returns a new list, not the key', extra=P)
    if outs:
        ex.oblige(outs[0].st, 'covered', z3.BoolVal(nret >= 1 and nexc >= 1),
                  _N(), 'list key: returning and refusing paths examined '
                  '(%d, %d)' % (nret, nexc), extra=P)
    return {'paths': len(outs), 'returns': nret}


def outcomes(ex, outs):
    if outs and outs[0].st.ghost.get('keyarg') is not None:
        return list_outcomes(ex, outs)
    return int_outcomes(ex, outs)


def filter_lemma():
    """the lemma about the ghost count used in KeyArg.abs_comp, by induction
    on j:  cnt(j) <= j  and  (cnt(j) = j  iff  every position < j passes)"""
    P_ = z3.Function('passes', IS, z3.BoolSort())
    c = z3.Function('cnt_', IS, IS)
    j, q = z3.Int('j'), z3.Int('q')
    defn = [c(Z(0)) == 0, z3.ForAll([j], z3.Implies(
        j >= 0, c(j + 1) == c(j) + z3.If(P_(j), 1, 0)))]

    def stmt(t):
        allp = z3.ForAll([q], z3.Implies(z3.And(q >= 0, q < t), P_(q)))
        return z3.And(c(t) >= 0, c(t) <= t, (c(t) == t) == allp)
    out = [('base', 'cnt(0) = 0 satisfies the lemma', defn, stmt(Z(0)))]
    out.append(('step', 'if the lemma holds at j >= 0 it holds at j + 1',
                defn + [j >= 0, stmt(j)], stmt(j + 1)))
    return out


FUNCS = {'_keytolist': {
    'setup': setup_for, 'scenarios': {'int': {'key': 'int'},
                                      'list': {'key': 'list'}},
    'on_outcomes': outcomes, 'config': {'unroll': 8}}}
