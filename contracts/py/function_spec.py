"""C11, in-place scalar multiplication: _function.__imul__(a) multiplies the
function by a, i.e. afterwards every part of it is a times what it was --
and, for a < 0, convex and concave terms change places.

The real method body is executed by pyvc over an abstract view of a function
f = constant + linear + sum(convex terms) + sum(concave terms) at an
arbitrary evaluation point:

    constant   a vector of symbolic length with entry function c(i)
    linear     a value l (0 if the function has no variables)
    terms      two sequences of symbolic length with value functions g(k)
               (convex) and h(k) (concave)

`x *= s` on a part scales its value (in place: the modeling classes return
self from __imul__), `t * s` gives a new term with the scaled value; a list
comprehension over a term list is the element-wise image; assignments to the
attributes of self are recorded.  Contract (property: "... division by a
scalar ... and their in-place forms: f.value() equals the formula"): for
every real a, on return
    constant'(i) = a c(i)  (same length; length len(f) for a = 0),
    linear' = a l,
    a > 0: convex' = a g, concave' = a h (same numbers of terms)
    a < 0: convex' = a h, concave' = a g (numbers of terms exchanged)
    a = 0: no convex or concave term is left (or all are zero)
and the object returned is self; only TypeError is raised (for an operand
that is not a scalar).
"""
import ast, z3
from engine.pyvc import driver, core
from engine.pyvc.core import (Dyn, Ref, R, B, I, Ext, Unknown, Unsupported,
                              NeedFork, PyRaise, const_of)
from contracts.py.extern_cvxopt import LIB as L

Z = z3.IntVal


def real_of(ex, st, v):
    if isinstance(v, bool):
        return None
    if isinstance(v, (int, float)):
        return z3.RealVal(v)
    if isinstance(v, R):
        return v.t
    if isinstance(v, I):
        return z3.ToReal(v.t)
    return None


class Part:
    """a part of the function with a value; `*` and `*=` scale it"""
    abs_object = True

    def __init__(self, kind, val, **kw):
        self.kind, self.val = kind, val
        self.__dict__.update(kw)

    def scaled(self, s):
        if self.kind == 'const':
            f = self.val
            return Part('const', lambda i: s * f(i), ln=self.ln)
        if self.kind == 'lin':
            return Part('lin', s * self.val, empty=self.empty,
                        ln=getattr(self, 'ln', Z(1)))
        return Part('term', s * self.val)

    def abs_binop(self, ex, st, op, b, n):
        s = real_of(ex, st, b)
        if isinstance(op, ast.Mult) and s is not None:
            return self.scaled(s)
        if isinstance(op, (ast.Add, ast.Sub)) and isinstance(b, Part) and \
                b.kind == self.kind:
            sg = 1 if isinstance(op, ast.Add) else -1
            if self.kind == 'const':
                # matrix + matrix: equal lengths, or one of them 1 x 1
                l1, l2 = self.ln, b.ln
                f1, f2 = self.val, b.val
                d = ex.decide(st, l1 == l2)
                if d is None:
                    raise NeedFork(l1 == l2)
                if d:
                    return Part('const', lambda i: f1(i) + sg * f2(i), ln=l1)
                d2 = ex.decide(st, l2 == 1)
                if d2 is None:
                    raise NeedFork(l2 == 1)
                if d2:
                    return Part('const', lambda i: f1(i) + sg * f2(Z(0)),
                                ln=l1)
                d1 = ex.decide(st, l1 == 1)
                if d1 is None:
                    raise NeedFork(l1 == 1)
                if d1:
                    return Part('const', lambda i: f1(Z(0)) + sg * f2(i),
                                ln=l2)
                raise PyRaise('TypeError', 'incompatible dimensions')
            if self.kind == 'lin':
                return Part('lin', self.val + sg * b.val,
                            empty=z3.And(self.empty, b.empty),
                            ln=z3.If(self.ln == 1, b.ln, self.ln))
        raise Unsupported('operation on a part of a function')

    def abs_unop(self, ex, st, op, n):
        if isinstance(op, ast.UAdd):
            return self.scaled(z3.RealVal(1))
        if isinstance(op, ast.USub):
            return self.scaled(z3.RealVal(-1))
        raise Unsupported('unary operation on a part')

    def abs_getitem(self, ex, st, idx, n):
        c, k = const_of(idx)
        if self.kind == 'const' and c and isinstance(k, int):
            return R(self.val(Z(k)))
        raise Unsupported('item of a part')

    def abs_getattr(self, ex, st, attr, n):
        if self.kind == 'lin' and attr == '_coeff':
            return Truthy(z3.Not(self.empty))
        return core.NOTFOUND


class Truthy:
    def __init__(self, t):
        self.t = t

    def abs_truth(self, ex, st):
        return self.t


class Seq:
    """a list of terms of symbolic length"""
    abs_object = True

    def __init__(self, n, val):
        self.n, self.val = n, val

    def abs_truth(self, ex, st):
        return self.n > 0

    def abs_binop(self, ex, st, op, b, n):
        if isinstance(op, ast.Add) and isinstance(b, Seq):
            n1, f1, f2 = self.n, self.val, b.val
            return Seq(n1 + b.n, lambda k: z3.If(k < n1, f1(k), f2(k - n1)))
        raise Unsupported('operation on a list of terms')

    def abs_loop(self, ex, st, s, fid):
        # for f in terms: f *= s   -- the loop variable is rebound to the
        # object __imul__ returns, which is the element itself (mutated)
        k = z3.Int(ex.fresh('k'))
        b = st.copy()
        b.pc += [k >= 0, k < self.n]
        el = Part('term', self.val(k))
        ex.assign(b, fid, s.target, el, s)
        new = None
        for o in ex.exec_block(s.body, b, fid):
            if o.kind not in ('fall', 'continue'):
                raise Unsupported('early exit from a loop over terms')
            v = o.st.frames[fid].get(s.target.id) if isinstance(
                s.target, ast.Name) else None
            if not isinstance(v, Part) or v.kind != 'term':
                raise Unsupported('loop over terms rebinds its variable')
            t = z3.substitute(v.val, (k, z3.Int('k!')))
            if new is not None and not z3.eq(new, t):
                raise Unsupported('paths of a loop over terms differ')
            new = t
        e = st.copy()
        if new is not None:
            nf = new
            key = st.ghost.get('seq_of', {}).get(id(self))
            upd = Seq(self.n, lambda kk: z3.substitute(nf, (z3.Int('k!'),
                                                            kk)))
            # the list object is the same; its elements were mutated
            for nm, cur in list(e.ghost.get('attrs', {}).items()):
                if cur is self:
                    e.ghost['attrs'] = dict(e.ghost['attrs'])
                    e.ghost['attrs'][nm] = upd
        return [core.Outcome('fall', e)]

    def abs_comp(self, ex, st, n, g, fid):
        if g.ifs or not isinstance(g.target, ast.Name):
            raise Unsupported('comprehension over terms')
        k = z3.Int('k!')
        nf = next(ex.fid)
        st.frames[nf] = {g.target.id: Part('term', self.val(k))}
        st.parent[nf] = fid
        try:
            v = ex.ev(n.elt, st, nf)
        finally:
            st.frames.pop(nf, None)
        if not isinstance(v, Part) or v.kind != 'term':
            raise Unsupported('comprehension does not build terms')
        t = v.val
        return Seq(self.n, lambda kk: z3.substitute(t, (k, kk)))


class Mat11:
    abs_object = True

    def __init__(self, a):
        self.a = a

    def abs_getattr(self, ex, st, attr, n):
        if attr == 'size':
            return (1, 1)
        return core.NOTFOUND

    def abs_getitem(self, ex, st, idx, n):
        if const_of(idx) == (True, 0):
            return R(self.a)
        raise Unsupported('item of a 1x1 matrix')


class FOther:
    """the right operand: another _function (read only)"""
    abs_object = True

    def __init__(self, L_, parts):
        self.L, self.parts = L_, parts

    def abs_getattr(self, ex, st, attr, n):
        if attr in self.parts:
            return self.parts[attr]
        return core.NOTFOUND

    def abs_method(self, ex, st, name, args, kwargs, n):
        if name == '_isconvex':
            return B(self.parts['_ccvterms'].n == 0)
        if name == '_isconcave':
            return B(self.parts['_cvxterms'].n == 0)
        raise Unsupported('method %s of the operand' % name)


class FSelf:
    abs_object = True

    def __init__(self, L_):
        self.L = L_

    def abs_getattr(self, ex, st, attr, n):
        at = st.ghost.get('attrs', {})
        if attr in at:
            return at[attr]
        return core.NOTFOUND

    def abs_method(self, ex, st, name, args, kwargs, n):
        at = st.ghost['attrs']
        if name == '_isaffine':
            return B(z3.And(at['_cvxterms'].n == 0, at['_ccvterms'].n == 0))
        if name == '_isconvex':
            return B(at['_ccvterms'].n == 0)
        if name == '_isconcave':
            return B(at['_cvxterms'].n == 0)
        raise Unsupported('method %s of the function' % name)

    def abs_eq(self, ex, st, o):
        return o is self

    abs_is = abs_eq


def setattr_rec(orig):
    def f(ex, st, base, attr, v, s):
        if isinstance(base, FSelf):
            st.ghost['attrs'] = dict(st.ghost.get('attrs', {}))
            st.ghost['attrs'][attr] = v
            return
        return orig(ex, st, base, attr, v, s)
    return f


_len0 = L.ext.get('builtins.len')


@L.register('builtins.len', pure=True)
def b_len(ex, st, args, kwargs, n):
    v = args[0]
    if isinstance(v, FSelf):
        return I(v.L)
    if isinstance(v, Part) and v.kind in ('const', 'lin'):
        return I(v.ln)
    if isinstance(v, FOther):
        return I(v.L)
    return _len0(ex, st, args, kwargs, n)


_type0 = L.ext.get('builtins.type')


@L.register('builtins.type', pure=True)
def b_type(ex, st, args, kwargs, n):
    if len(args) == 1 and isinstance(args[0], Mat11):
        return Ext('cvxopt.base.matrix')
    if len(args) == 1 and isinstance(args[0], FOther):
        return Ext('cvxopt.modeling._function')
    return _type0(ex, st, args, kwargs, n)


@L.register('cvxopt.modeling.matrix', pure=True)
def m_matrix(ex, st, args, kwargs, n):
    a = real_of(ex, st, args[0]) if args else None
    if a is not None and len(args) == 1:
        return Mat11(a)
    if a is not None and len(args) == 2 and isinstance(args[1], tuple):
        r_ = args[1][0]
        ln = r_.t if isinstance(r_, I) else Z(r_)
        return Part('const', lambda i: a, ln=ln)
    raise Unsupported('matrix(%r)' % (args,))


@L.register('cvxopt.modeling._isdmatrix', pure=True)
def isd(ex, st, args, kwargs, n):
    return isinstance(args[0], Mat11)


@L.register('cvxopt.modeling._ismatrix', pure=True)
def ismat(ex, st, args, kwargs, n):
    return isinstance(args[0], Mat11)


@L.register('cvxopt.modeling._lin', pure=True)
def new_lin(ex, st, args, kwargs, n):
    # _lin(): the linear function without variables
    return Part('lin', z3.RealVal(0), empty=z3.BoolVal(True))


_OWN = {k_: L.ext[k_] for k_ in ['cvxopt.modeling.matrix', 'cvxopt.modeling._isdmatrix', 'cvxopt.modeling._lin', 'cvxopt.modeling._ismatrix', 'builtins.len', 'builtins.type']}


def install():
    """(re)install this module's contracts of shared names: several spec
    modules may live in one worker process"""
    L.ext.update(_OWN)
    pass

def setup_for(sc):
    def setup(ex, st, fid, fn):
        install()
        fr = st.frames[fid]
        Lf = z3.Int('len(f)')
        lc = z3.Int('len(constant)')
        st.pc += [Lf >= 1, z3.Or(lc == 1, lc == Lf)]
        cf = z3.Function('c', z3.IntSort(), z3.RealSort())
        gf = z3.Function('g', z3.IntSort(), z3.RealSort())
        hf = z3.Function('h', z3.IntSort(), z3.RealSort())
        lv = z3.Real('l')
        emp = z3.Bool('no variables')
        ng, nh = z3.Int('number of convex terms'), z3.Int(
            'number of concave terms')
        st.pc += [ng >= 0, nh >= 0, z3.Implies(emp, lv == 0),
                  z3.Or(z3.Int('len(linear)') == 1,
                        z3.Int('len(linear)') == Lf)]
        a = z3.Real('a')
        st.ghost['attrs'] = {
            '_constant': Part('const', lambda i: cf(i), ln=lc),
            '_linear': Part('lin', lv, empty=emp, ln=z3.Int('len(linear)')),
            '_cvxterms': Seq(ng, lambda k: gf(k)),
            '_ccvterms': Seq(nh, lambda k: hf(k))}
        st.ghost['init'] = (Lf, lc, cf, gf, hf, lv, ng, nh, a)
        me = FSelf(Lf)
        fr['self'] = me
        st.ghost['me'] = me
        fr['other'] = R(a) if sc['other'] == 'float' else Mat11(a)
        fr['matrix'] = Ext('cvxopt.modeling.matrix')
        st.ghost['frame_check'] = False
    return setup


def on_outcomes(ex, outs):
    class N:
        lineno = 0
        col_offset = 0
    i, k = z3.Int('i'), z3.Int('k')
    nret = 0
    for o in outs:
        st = o.st
        Lf, lc, cf, gf, hf, lv, ng, nh, a = st.ghost['init']
        node = N()
        if o.kind == 'raise':
            node.lineno = o.val[2] if len(o.val) > 2 else 0
            ex.oblige(st, 'imul-exceptions', z3.BoolVal(False), node,
                      '__imul__ with a scalar operand raises no exception '
                      '(%s)' % (o.val[0],), extra={'prop': 'C11'})
            continue
        nret += 1
        at = st.ghost['attrs']
        ex.oblige(st, 'imul-returns-self', z3.BoolVal(
            o.val is st.ghost['me']), node, '__imul__ returns self',
            extra={'prop': 'C11'})
        c1, l1, g1, h1 = at['_constant'], at['_linear'], at['_cvxterms'], \
            at['_ccvterms']

        def as_seq(v):
            # a literal empty list is the empty sequence of terms
            if isinstance(v, Ref) and st.heap[v.oid].kind == 'list' and \
                    st.heap[v.oid].f.get('items') == []:
                return Seq(Z(0), lambda kk: z3.RealVal(0))
            return v
        g1, h1 = as_seq(g1), as_seq(h1)
        okk = isinstance(c1, Part) and c1.kind == 'const' and isinstance(
            l1, Part) and l1.kind == 'lin' and isinstance(g1, Seq) and \
            isinstance(h1, Seq)
        if not okk:
            ex.oblige(st, 'imul-value', z3.BoolVal(False), node,
                      'the parts of the function keep their kinds',
                      extra={'prop': 'C11'})
            continue
        n0 = len(st.pc)
        st.pc += [i >= 0, i < c1.ln, k >= 0]
        goal_c = z3.And(z3.If(a == 0, z3.Or(c1.ln == Lf, c1.ln == lc),
                              c1.ln == lc),
                        c1.val(i) == a * cf(z3.If(lc == 1, Z(0), i))
                        if False else c1.val(i) == a * cf(i))
        ex.oblige(st, 'imul-value', goal_c, node,
                  'after f *= a the constant is a times the old constant '
                  '(entry by entry)', extra={'prop': 'C11'})
        ex.oblige(st, 'imul-value', l1.val == a * lv, node,
                  'after f *= a the linear part is a times the old linear '
                  'part (a = 0 included)', extra={'prop': 'C11'})
        pos = z3.And(g1.n == ng, h1.n == nh,
                     z3.Implies(k < ng, g1.val(k) == a * gf(k)),
                     z3.Implies(k < nh, h1.val(k) == a * hf(k)))
        neg = z3.And(g1.n == nh, h1.n == ng,
                     z3.Implies(k < nh, g1.val(k) == a * hf(k)),
                     z3.Implies(k < ng, h1.val(k) == a * gf(k)))
        zero = z3.And(z3.Implies(k < g1.n, g1.val(k) == 0),
                      z3.Implies(k < h1.n, h1.val(k) == 0))
        ex.oblige(st, 'imul-value',
                  z3.If(a > 0, pos, z3.If(a < 0, neg, zero)), node,
                  'after f *= a every convex / concave term is a times an '
                  'old one; for a < 0 the convex terms are the scaled '
                  'concave ones and vice versa; for a = 0 none is left',
                  extra={'prop': 'C11'})
        del st.pc[n0:]
    if outs:
        ex.oblige(outs[0].st, 'covered', z3.BoolVal(nret >= 3), N(),
                  'the cases a > 0, a < 0 and a = 0 return (%d paths)' % nret,
                  extra={'prop': 'C11'})
    return {'paths': len(outs), 'returns': nret}


class _Run:
    """installs / removes the attribute-store recorder around a run"""
    def __init__(self, sc):
        self.sc = sc

    def __call__(self, ex, st, fid, fn):
        if not getattr(L.setattr, '_function_spec', False):
            f = setattr_rec(L.setattr)
            f._function_spec = True
            L.setattr = f
        return setup_for(self.sc)(ex, st, fid, fn)


FUNCS = {'_function.__imul__': {
    'setup': lambda sc: _Run(sc),
    'scenarios': {'float': {'other': 'float'}, 'matrix': {'other': 'm11'}},
    'on_outcomes': on_outcomes, 'config': {'unroll': 8}}}


# ------------------------------------------------- f += g  and  f -= g
def addsub_setup(sc):
    def setup(ex, st, fid, fn):
        _Run({'other': 'float'})(ex, st, fid, fn)
        fr = st.frames[fid]
        L2 = z3.Int('len(g)')
        lc2, ll2 = z3.Int('len(constant of g)'), z3.Int('len(linear of g)')
        c2 = z3.Function('c2', z3.IntSort(), z3.RealSort())
        g2 = z3.Function('g2', z3.IntSort(), z3.RealSort())
        h2 = z3.Function('h2', z3.IntSort(), z3.RealSort())
        l2 = z3.Real('l2')
        e2 = z3.Bool('g has no variables')
        ng2, nh2 = z3.Int('convex terms of g'), z3.Int('concave terms of g')
        st.pc += [L2 >= 1, z3.Or(lc2 == 1, lc2 == L2),
                  z3.Or(ll2 == 1, ll2 == L2), ng2 >= 0, nh2 >= 0,
                  z3.Implies(e2, l2 == 0)]
        other = FOther(L2, {
            '_constant': Part('const', lambda i: c2(i), ln=lc2),
            '_linear': Part('lin', l2, empty=e2, ln=ll2),
            '_cvxterms': Seq(ng2, lambda k: g2(k)),
            '_ccvterms': Seq(nh2, lambda k: h2(k))})
        fr['other'] = other
        st.ghost['other'] = (L2, lc2, c2, g2, h2, l2, ng2, nh2)
        fr['variable'] = Ext('cvxopt.modeling.variable')
        fr['_function'] = Ext('cvxopt.modeling._function')
    return setup


def addsub_outcomes(sign):
    opn = '+=' if sign > 0 else '-='

    def on_outcomes(ex, outs):
        class N:
            lineno = 0
            col_offset = 0
        i, k = z3.Int('i'), z3.Int('k')
        nret = 0
        for o in outs:
            st = o.st
            Lf, lc, cf, gf, hf, lv, ng, nh, a = st.ghost['init']
            L2, lc2, c2, g2, h2, l2, ng2, nh2 = st.ghost['other']
            node = N()
            okcurv = z3.Or(z3.And(nh == 0, nh2 == 0),
                           z3.And(ng == 0, ng2 == 0)) if sign > 0 else \
                z3.Or(z3.And(nh == 0, ng2 == 0), z3.And(ng == 0, nh2 == 0))
            oklen = z3.Or(L2 == Lf, L2 == 1)
            if o.kind == 'raise':
                node.lineno = o.val[2] if len(o.val) > 2 else 0
                ex.oblige(st, 'iaddsub-refuses', z3.And(
                    z3.BoolVal(o.val[0] == 'ValueError'),
                    z3.Not(z3.And(okcurv, oklen))), node,
                    'f %s g is refused (ValueError) only if the lengths do '
                    'not match or the result would be neither convex nor '
                    'concave (%s)' % (opn, o.val[0]), extra={'prop': 'C11'})
                continue
            nret += 1
            at = st.ghost['attrs']
            c1, l1, g1, h1 = at['_constant'], at['_linear'], \
                at['_cvxterms'], at['_ccvterms']
            ok = isinstance(c1, Part) and isinstance(l1, Part) and \
                isinstance(g1, Seq) and isinstance(h1, Seq)
            ex.oblige(st, 'iaddsub-accepts', z3.And(okcurv, oklen), node,
                      'f %s g is accepted only for matching lengths and a '
                      'result that is convex or concave' % opn,
                      extra={'prop': 'C11'})
            ex.oblige(st, 'imul-returns-self', z3.BoolVal(
                o.val is st.ghost['me']), node, 'f %s g returns f' % opn,
                extra={'prop': 'C11'})
            if not ok:
                ex.oblige(st, 'iaddsub-value', z3.BoolVal(False), node,
                          'the parts of the function keep their kinds',
                          extra={'prop': 'C11'})
                continue
            n0 = len(st.pc)
            st.pc += [i >= 0, i < Lf, k >= 0, okcurv, oklen]
            bc = lambda f_, ln_, j_: f_(z3.If(ln_ == 1, Z(0), j_))
            want_c = bc(cf, lc, i) + sign * bc(c2, lc2, i)
            ex.oblige(st, 'iaddsub-value', z3.And(
                z3.Or(c1.ln == 1, c1.ln == Lf),
                bc(c1.val, c1.ln, i) == want_c,
                z3.Implies(c1.ln == 1, z3.And(lc == 1, lc2 == 1))), node,
                'after f %s g the constant is the sum (difference) of the '
                'constants, a length-1 constant being broadcast' % opn,
                extra={'prop': 'C11'})
            ex.oblige(st, 'iaddsub-value', l1.val == lv + sign * l2, node,
                      'after f %s g the linear part is the sum (difference) '
                      'of the linear parts' % opn, extra={'prop': 'C11'})
            if sign > 0:
                wg = (ng + ng2, lambda kk: z3.If(kk < ng, gf(kk),
                                                 g2(kk - ng)))
                wh = (nh + nh2, lambda kk: z3.If(kk < nh, hf(kk),
                                                 h2(kk - nh)))
            else:
                wg = (ng + nh2, lambda kk: z3.If(kk < ng, gf(kk),
                                                 -h2(kk - ng)))
                wh = (nh + ng2, lambda kk: z3.If(kk < nh, hf(kk),
                                                 -g2(kk - nh)))
            ex.oblige(st, 'iaddsub-value', z3.And(
                g1.n == wg[0], h1.n == wh[0],
                z3.Implies(k < wg[0], g1.val(k) == wg[1](k)),
                z3.Implies(k < wh[0], h1.val(k) == wh[1](k))), node,
                'after f %s g the convex terms of f are its own followed by '
                'the %s terms of g%s, and the concave terms likewise' % (
                    opn, 'convex' if sign > 0 else 'concave',
                    '' if sign > 0 else ' negated'), extra={'prop': 'C11'})
            del st.pc[n0:]
        if outs:
            ex.oblige(outs[0].st, 'covered', z3.BoolVal(nret >= 1), N(),
                      'f %s g returns for compatible operands (%d paths)' % (
                          opn, nret), extra={'prop': 'C11'})
        return {'paths': len(outs), 'returns': nret}
    return on_outcomes


FUNCS['_function.__iadd__'] = {
    'setup': addsub_setup, 'scenarios': {'function': {}},
    'on_outcomes': addsub_outcomes(+1), 'config': {'unroll': 8}}
FUNCS['_function.__isub__'] = {
    'setup': addsub_setup, 'scenarios': {'function': {}},
    'on_outcomes': addsub_outcomes(-1), 'config': {'unroll': 8}}


# ------------------------------------ +f, -f, f + g, f - g (new objects)
# The out-of-place forms build a new function with _function() and fill its
# four parts.  Same abstract view as above; the object under construction is
# FNew2 (its attributes are recorded), self and the operand are read only.
# Contract (property: "f.value() equals the formula ...; +f and the binary
# operators return new objects that do not alias their operands; combinations
# that are not convex or concave, or whose dimensions do not match, are
# refused"):
#   +f      every part a copy with the same value
#   -f      constant, linear part negated; the convex terms of -f are the
#           negated concave terms of f and vice versa
#   f + g   (g a function) accepted iff the lengths are equal or one is 1 and
#           both are convex or both concave (ValueError otherwise); constant
#           and linear part add (a length-1 constant broadcast); the convex
#           terms are those of f followed by those of g, all copied
#   f - g   accepted iff f convex and g concave or the other way round; the
#           convex terms are those of f followed by the negated concave terms
#           of g, and dually
#   f + a, f - a  (a an int or float): the constant is shifted, all other
#           parts are copied
# and in every case the result is a new object, none of whose parts or terms
# is an object of an operand, and the operands are left alone.
class FNew2:
    abs_object = True

    def abs_getattr(self, ex, st, attr, n):
        at = st.ghost.get('nattrs', {})
        if attr in at:
            return at[attr]
        return core.NOTFOUND


def bin_setattr(orig):
    def f(ex, st, base, attr, v, s):
        if isinstance(base, FNew2):
            st.ghost['nattrs'] = dict(st.ghost.get('nattrs', {}))
            st.ghost['nattrs'][attr] = v
            return
        if isinstance(base, (FSelf, FOther)) and st.ghost.get('binary'):
            ex.oblige(st, 'binop-frame', z3.BoolVal(False), s,
                      'the operands of a binary operator are not modified '
                      '(attribute %s assigned)' % attr, extra={'prop': 'C11'})
            return
        return orig(ex, st, base, attr, v, s)
    f._function_spec = True
    f._binary = True
    return f


def new_function2(ex, st, args, kwargs, n):
    if not st.ghost.get('binary'):
        raise Unsupported('_function() outside the binary-operator scenario')
    new = FNew2()
    st.ghost['news'] = st.ghost.get('news', 0) + 1
    st.ghost['new'] = new
    st.ghost['nattrs'] = {
        '_constant': Part('const', lambda i: z3.RealVal(0), ln=Z(1)),
        '_linear': Part('lin', z3.RealVal(0), empty=z3.BoolVal(True),
                        ln=Z(1)),
        '_cvxterms': Seq(Z(0), lambda k: z3.RealVal(0)),
        '_ccvterms': Seq(Z(0), lambda k: z3.RealVal(0))}
    for q in st.ghost['nattrs'].values():
        q.fresh = True
    return new


_comp0 = Seq.abs_comp
_add0 = Seq.abs_binop


def _seq_comp(self, ex, st, n, g, fid):
    r = _comp0(self, ex, st, n, g, fid)
    # are the elements of the new list new objects?  (+t, -t, t * a are;
    # the loop variable itself is not)
    r.fresh = not (isinstance(n.elt, ast.Name) and isinstance(
        g.target, ast.Name) and n.elt.id == g.target.id)
    return r


def _seq_add(self, ex, st, op, b, n):
    r = _add0(self, ex, st, op, b, n)
    r.fresh = bool(getattr(self, 'fresh', False) and getattr(
        b, 'fresh', False))
    return r


Seq.abs_comp = _seq_comp
Seq.abs_binop = _seq_add
_pb0 = Part.abs_binop


def _part_binop(self, ex, st, op, b, n):
    if isinstance(b, Mat11) and self.kind == 'const' and isinstance(
            op, (ast.Add, ast.Sub)):
        sg = 1 if isinstance(op, ast.Add) else -1
        f1, a = self.val, b.a
        r = Part('const', lambda i: f1(i) + sg * a, ln=self.ln)
    else:
        r = _pb0(self, ex, st, op, b, n)
    if isinstance(r, Part):
        r.fresh = True
    return r


_pu0 = Part.abs_unop


def _part_unop(self, ex, st, op, n):
    r = _pu0(self, ex, st, op, n)
    r.fresh = True
    return r


Part.abs_binop = _part_binop
Part.abs_unop = _part_unop
_blen2 = L.ext['builtins.len']


def _mat11_binop(self, ex, st, op, b, n):
    # matrix(a) - constant
    if isinstance(b, Part) and b.kind == 'const' and isinstance(
            op, (ast.Add, ast.Sub)):
        sg = 1 if isinstance(op, ast.Add) else -1
        f1, a = b.val, self.a
        r = Part('const', lambda i: a + sg * f1(i), ln=b.ln)
        r.fresh = True
        return r
    raise Unsupported('operation on a 1x1 matrix')


Mat11.abs_binop = _mat11_binop


def b_len2(ex, st, args, kwargs, n):
    if isinstance(args[0], Mat11):
        return I(Z(1))
    return _blen2(ex, st, args, kwargs, n)


def m_matrix2(ex, st, args, kwargs, n):
    a = real_of(ex, st, args[0]) if args else None
    if a is not None and len(args) == 1 and set(kwargs) <= {'tc'}:
        return Mat11(a)
    r = m_matrix(ex, st, args, kwargs, n)
    if isinstance(r, Part):
        r.fresh = True          # matrix(...) builds a new matrix
    return r


_list_prev = [None]


def b_list2(ex, st, args, kwargs, n):
    # list(terms): a new list with the SAME term objects
    if len(args) == 1 and isinstance(args[0], Seq):
        src = args[0]
        r = Seq(src.n, src.val)
        r.fresh = False
        return r
    if _list_prev[0] is not None:
        return _list_prev[0](ex, st, args, kwargs, n)
    raise Unsupported('list(%r)' % (args,))


def bin_setup(sc):
    def setup(ex, st, fid, fn):
        addsub_setup({})(ex, st, fid, fn)
        if L.ext.get('builtins.list') is not b_list2:
            _list_prev[0] = L.ext.get('builtins.list')
        L.ext['builtins.list'] = b_list2
        L.ext['cvxopt.modeling._function'] = new_function2
        L.ext['builtins.len'] = b_len2
        L.ext['cvxopt.modeling.matrix'] = m_matrix2
        L.pure.update(['cvxopt.modeling._function'])
        if not getattr(L.setattr, '_binary', False):
            L.setattr = bin_setattr(L.setattr)
        st.ghost['binary'] = True
        st.ghost['attrs0'] = dict(st.ghost['attrs'])
        fr = st.frames[fid]
        if sc.get('other') == 'float':
            fr['other'] = R(z3.Real('a'))
        elif sc.get('other') == 'none':
            fr.pop('other', None)
    return setup


def bin_outcomes(opname, sign, unary=False, reflected=False):
    def on_outcomes(ex, outs):
        class N:
            lineno = 0
            col_offset = 0
        P = {'prop': 'C11'}
        i, k = z3.Int('i'), z3.Int('k')
        nret = 0
        for o in outs:
            st = o.st
            Lf, lc, cf, gf, hf, lv, ng, nh, a = st.ghost['init']
            L2, lc2, c2, g2, h2, l2, ng2, nh2 = st.ghost['other']
            node = N()
            fr = st.frames[min(st.frames)] if st.frames else {}
            scalar = not unary and not isinstance(
                st.ghost.get('operand'), FOther)
            if unary:
                okcurv, oklen = z3.BoolVal(True), z3.BoolVal(True)
            elif scalar:
                okcurv, oklen = z3.BoolVal(True), z3.BoolVal(True)
            else:
                okcurv = z3.Or(z3.And(nh == 0, nh2 == 0),
                               z3.And(ng == 0, ng2 == 0)) if sign > 0 else \
                    z3.Or(z3.And(nh == 0, ng2 == 0),
                          z3.And(ng == 0, nh2 == 0))
                oklen = z3.Or(L2 == Lf, L2 == 1, Lf == 1)
            if o.kind == 'raise':
                node.lineno = o.val[2] if len(o.val) > 2 else 0
                ex.oblige(st, 'binop-refuses', z3.And(
                    z3.BoolVal(o.val[0] == 'ValueError'),
                    z3.Not(z3.And(okcurv, oklen))), node,
                    '%s is refused (ValueError) only if the lengths do not '
                    'match or the result would be neither convex nor '
                    'concave (%s)' % (opname, o.val[0]), extra=P)
                continue
            nret += 1
            ex.oblige(st, 'binop-accepts', z3.And(okcurv, oklen), node,
                      '%s is accepted only for matching lengths and a result '
                      'that is convex or concave' % opname, extra=P)
            at = st.ghost.get('nattrs', {})
            ex.oblige(st, 'binop-fresh', z3.BoolVal(
                o.val is st.ghost.get('new') and st.ghost.get('news') == 1),
                node, '%s returns the new function it built' % opname,
                extra=P)
            same = all(st.ghost['attrs'].get(q) is st.ghost['attrs0'].get(q)
                       for q in st.ghost['attrs0'])
            ex.oblige(st, 'binop-frame', z3.BoolVal(same), node,
                      '%s leaves the attributes of self alone' % opname,
                      extra=P)
            c1, l1, g1, h1 = at.get('_constant'), at.get('_linear'), \
                at.get('_cvxterms'), at.get('_ccvterms')
            ok = isinstance(c1, Part) and isinstance(l1, Part) and \
                isinstance(g1, Seq) and isinstance(h1, Seq)
            if not ok:
                ex.oblige(st, 'binop-value', z3.BoolVal(False), node,
                          'the parts of the result have their kinds',
                          extra=P)
                continue
            ex.oblige(st, 'binop-fresh', z3.BoolVal(all(getattr(
                q, 'fresh', False) for q in (c1, l1, g1, h1))), node,
                '%s: constant, linear part and every term of the result are '
                'new objects (copies), not objects of an operand' % opname,
                extra=P)
            n0 = len(st.pc)
            st.pc += [i >= 0, k >= 0, okcurv, oklen]
            bc = lambda f_, ln_, j_: f_(z3.If(ln_ == 1, Z(0), j_))
            if unary:
                s0 = sign
                st.pc.append(i < lc)
                ex.oblige(st, 'binop-value', z3.And(
                    c1.ln == lc, c1.val(i) == s0 * cf(i),
                    l1.val == s0 * lv), node,
                    '%s: constant and linear part are %s those of f' % (
                        opname, 'minus' if s0 < 0 else 'equal to'), extra=P)
                if s0 > 0:
                    wg, wh = (ng, lambda kk: gf(kk)), (nh, lambda kk: hf(kk))
                else:
                    wg, wh = (nh, lambda kk: -hf(kk)), (ng, lambda kk:
                                                       -gf(kk))
            elif scalar:
                av = z3.Real('a')
                st.pc.append(i < lc)
                if reflected:
                    # a - f
                    ex.oblige(st, 'binop-value', z3.And(
                        c1.ln == lc, c1.val(i) == av - cf(i),
                        l1.val == -lv), node,
                        '%s: the constant is the number minus the constant '
                        'of f, the linear part is negated' % opname, extra=P)
                    wg, wh = (nh, lambda kk: -hf(kk)), (ng, lambda kk:
                                                       -gf(kk))
                else:
                    ex.oblige(st, 'binop-value', z3.And(
                        c1.ln == lc, c1.val(i) == cf(i) + sign * av,
                        l1.val == lv), node,
                        '%s: the constant is shifted by the number, the '
                        'linear part is that of f' % opname, extra=P)
                    wg, wh = (ng, lambda kk: gf(kk)), (nh, lambda kk: hf(kk))
            else:
                Lr = z3.If(Lf == 1, L2, Lf)
                st.pc.append(i < Lr)
                want_c = bc(cf, lc, i) + sign * bc(c2, lc2, i)
                ex.oblige(st, 'binop-value', z3.And(
                    z3.Or(c1.ln == 1, c1.ln == Lr),
                    bc(c1.val, c1.ln, i) == want_c,
                    z3.Implies(c1.ln == 1, z3.And(lc == 1, lc2 == 1)),
                    l1.val == lv + sign * l2), node,
                    '%s: the constant is the sum (difference) of the '
                    'constants, a length-1 constant being broadcast, the '
                    'linear part the sum (difference) of the linear parts'
                    % opname, extra=P)
                if sign > 0:
                    wg = (ng + ng2, lambda kk: z3.If(kk < ng, gf(kk),
                                                     g2(kk - ng)))
                    wh = (nh + nh2, lambda kk: z3.If(kk < nh, hf(kk),
                                                     h2(kk - nh)))
                else:
                    wg = (ng + nh2, lambda kk: z3.If(kk < ng, gf(kk),
                                                     -h2(kk - ng)))
                    wh = (nh + ng2, lambda kk: z3.If(kk < nh, hf(kk),
                                                     -g2(kk - nh)))
            ex.oblige(st, 'binop-value', z3.And(
                g1.n == wg[0], h1.n == wh[0],
                z3.Implies(k < wg[0], g1.val(k) == wg[1](k)),
                z3.Implies(k < wh[0], h1.val(k) == wh[1](k))), node,
                '%s: the convex and the concave terms of the result are the '
                'ones the formula gives, in the list of their curvature' %
                opname, extra=P)
            del st.pc[n0:]
        if outs:
            ex.oblige(outs[0].st, 'covered', z3.BoolVal(nret >= 1), N(),
                      '%s returns (%d paths)' % (opname, nret), extra=P)
        return {'paths': len(outs), 'returns': nret}
    return on_outcomes


def _bin_setup_mark(sc):
    inner = bin_setup(sc)

    def setup(ex, st, fid, fn):
        inner(ex, st, fid, fn)
        st.ghost['operand'] = st.frames[fid].get('other')
    return setup


for _nm, _sign in (('__add__', 1), ('__sub__', -1)):
    FUNCS['_function.' + _nm] = {
        'setup': _bin_setup_mark,
        'scenarios': {'function': {}, 'float': {'other': 'float'}},
        'on_outcomes': bin_outcomes('f %s g' % ('+' if _sign > 0 else '-'),
                                    _sign), 'config': {'unroll': 8}}
FUNCS['_function.__pos__'] = {
    'setup': _bin_setup_mark, 'scenarios': {'unary': {'other': 'none'}},
    'on_outcomes': bin_outcomes('+f', 1, unary=True),
    'config': {'unroll': 8}}
FUNCS['_function.__neg__'] = {
    'setup': _bin_setup_mark, 'scenarios': {'unary': {'other': 'none'}},
    'on_outcomes': bin_outcomes('-f', -1, unary=True),
    'config': {'unroll': 8}}
FUNCS['_function.__rsub__'] = {
    'setup': _bin_setup_mark, 'scenarios': {'float': {'other': 'float'}},
    'on_outcomes': bin_outcomes('a - f', -1, reflected=True),
    'config': {'unroll': 8}}


# ------------------------------------------- f * a and a * f (a a number)
# Contract: a new function whose constant, linear part and terms are a times
# those of f; for a < 0 the convex and the concave terms change places; for
# a = 0 the result is the zero function of length len(f) without terms; f is
# left alone and no part is shared.  (Multiplication by a matrix with more
# than one entry is not decided here.)
def _mat11_binop2(self, ex, st, op, b, n):
    if isinstance(b, Part) and isinstance(op, ast.Mult):
        r = b.scaled(self.a)
        r.fresh = True
        return r
    return _mat11_binop(self, ex, st, op, b, n)


Mat11.abs_binop = _mat11_binop2
_pb1 = Part.abs_binop


def _part_binop2(self, ex, st, op, b, n):
    if isinstance(b, Mat11) and isinstance(op, ast.Mult):
        r = self.scaled(b.a)
        r.fresh = True
        return r
    return _pb1(self, ex, st, op, b, n)


Part.abs_binop = _part_binop2


def _part_rbinop(self, ex, st, op, a, n):
    s_ = real_of(ex, st, a)
    if isinstance(op, ast.Mult) and s_ is not None:
        r = self.scaled(s_)
        r.fresh = True
        return r
    raise Unsupported('operation on a part of a function')


Part.abs_rbinop = _part_rbinop


def mul_setup(sc):
    inner = _bin_setup_mark(dict(sc, other='float'))

    def setup(ex, st, fid, fn):
        inner(ex, st, fid, fn)
        L.ext['cvxopt.modeling._isscalar'] = lambda ex_, st_, args, kw, n: \
            isinstance(args[0], Mat11) or real_of(ex_, st_, args[0]) \
            is not None
        L.pure.add('cvxopt.modeling._isscalar')
        if sc.get('operand') == 'm11':
            st.frames[fid]['other'] = Mat11(z3.Real('a'))
    return setup


def mul_outcomes(opname):
    def on_outcomes(ex, outs):
        class N:
            lineno = 0
            col_offset = 0
        P = {'prop': 'C11'}
        i, k = z3.Int('i'), z3.Int('k')
        a = z3.Real('a')
        nret = 0
        for o in outs:
            st = o.st
            Lf, lc, cf, gf, hf, lv, ng, nh, _a = st.ghost['init']
            node = N()
            if o.kind == 'raise':
                node.lineno = o.val[2] if len(o.val) > 2 else 0
                ex.oblige(st, 'binop-refuses', z3.BoolVal(False), node,
                          '%s with a number raises no exception (%s)' % (
                              opname, o.val[0]), extra=P)
                continue
            nret += 1
            at = st.ghost.get('nattrs', {})
            ex.oblige(st, 'binop-fresh', z3.BoolVal(
                o.val is st.ghost.get('new') and st.ghost.get('news') == 1),
                node, '%s returns the new function it built' % opname,
                extra=P)
            same = all(st.ghost['attrs'].get(q) is st.ghost['attrs0'].get(q)
                       for q in st.ghost['attrs0'])
            ex.oblige(st, 'binop-frame', z3.BoolVal(same), node,
                      '%s leaves the attributes of f alone' % opname,
                      extra=P)
            c1, l1, g1, h1 = at.get('_constant'), at.get('_linear'), \
                at.get('_cvxterms'), at.get('_ccvterms')

            def as_seq(v):
                if isinstance(v, Ref) and st.heap[v.oid].kind == 'list' \
                        and st.heap[v.oid].f.get('items') == []:
                    r = Seq(Z(0), lambda kk: z3.RealVal(0))
                    r.fresh = True
                    return r
                return v
            g1, h1 = as_seq(g1), as_seq(h1)
            ok = isinstance(c1, Part) and isinstance(l1, Part) and \
                isinstance(g1, Seq) and isinstance(h1, Seq)
            if not ok:
                ex.oblige(st, 'binop-value', z3.BoolVal(False), node,
                          'the parts of the result have their kinds',
                          extra=P)
                continue
            ex.oblige(st, 'binop-fresh', z3.BoolVal(all(getattr(
                q, 'fresh', False) for q in (c1, l1, g1, h1))), node,
                '%s: constant, linear part and every term of the result are '
                'new objects, not objects of f' % opname, extra=P)
            n0 = len(st.pc)
            st.pc += [i >= 0, i < Lf, k >= 0]
            bc = lambda f_, ln_, j_: f_(z3.If(ln_ == 1, Z(0), j_))
            ex.oblige(st, 'binop-value', z3.And(
                z3.Or(c1.ln == 1, c1.ln == Lf),
                z3.Implies(a == 0, z3.Or(c1.ln == Lf, Lf == 1)),
                bc(c1.val, c1.ln, i) == a * bc(cf, lc, i),
                z3.Implies(z3.And(c1.ln == 1, Lf != 1), lc == 1),
                l1.val == a * lv), node,
                '%s: the constant is a times the constant of f (entry by '
                'entry; the zero function of length len(f) for a = 0), the '
                'linear part a times the linear part' % opname, extra=P)
            pos = z3.And(g1.n == ng, h1.n == nh,
                         z3.Implies(k < ng, g1.val(k) == a * gf(k)),
                         z3.Implies(k < nh, h1.val(k) == a * hf(k)))
            neg = z3.And(g1.n == nh, h1.n == ng,
                         z3.Implies(k < nh, g1.val(k) == a * hf(k)),
                         z3.Implies(k < ng, h1.val(k) == a * gf(k)))
            zero = z3.And(g1.n == 0, h1.n == 0)
            ex.oblige(st, 'binop-value',
                      z3.If(a > 0, pos, z3.If(a < 0, neg, zero)), node,
                      '%s: every term is a times a term of f; for a < 0 the '
                      'convex terms are the scaled concave ones and vice '
                      'versa; for a = 0 there is none' % opname, extra=P)
            del st.pc[n0:]
        if outs:
            ex.oblige(outs[0].st, 'covered', z3.BoolVal(nret >= 3), N(),
                      '%s: a > 0, a < 0 and a = 0 return (%d paths)' % (
                          opname, nret), extra=P)
        return {'paths': len(outs), 'returns': nret}
    return on_outcomes


FUNCS['_function.__mul__'] = {
    'setup': mul_setup, 'scenarios': {'float': {}, 'matrix': {'operand':
                                                               'm11'}},
    'on_outcomes': mul_outcomes('f * a'), 'config': {'unroll': 8}}
FUNCS['_function.__rmul__'] = {
    'setup': mul_setup, 'scenarios': {'float': {}, 'matrix': {'operand':
                                                               'm11'}},
    'on_outcomes': mul_outcomes('a * f'), 'config': {'unroll': 8}}


# ------------------------------------------------------ f / a and f /= a
# One line each: the work is done by __mul__ / __imul__ (contracts above).
# Contract at the call: the result is what self.__mul__(1/a) (resp.
# self.__imul__(1/a)) returns, for a number or a dense 1x1 matrix; only
# ZeroDivisionError is raised, and only for a = 0.
class MulResult:
    abs_object = True

    def __init__(self, method, arg):
        self.method, self.arg = method, arg


_fs_method0 = FSelf.abs_method


def _fs_method(self, ex, st, name, args, kwargs, n):
    if st.ghost.get('division') and name in ('__mul__', '__imul__') and \
            len(args) == 1 and not kwargs:
        st.ghost['mulcalls'] = st.ghost.get('mulcalls', ()) + ((name,
                                                                args[0]),)
        return MulResult(name, args[0])
    return _fs_method0(self, ex, st, name, args, kwargs, n)


FSelf.abs_method = _fs_method


def div_setup(sc):
    inner = mul_setup(sc)

    def setup(ex, st, fid, fn):
        inner(ex, st, fid, fn)
        st.ghost['division'] = True
    return setup


def div_outcomes(opname, method):
    def on_outcomes(ex, outs):
        class N:
            lineno = 0
            col_offset = 0
        P = {'prop': 'C11'}
        a = z3.Real('a')
        nret = 0
        for o in outs:
            st = o.st
            node = N()
            if o.kind == 'raise':
                node.lineno = o.val[2] if len(o.val) > 2 else 0
                ex.oblige(st, 'binop-refuses', z3.And(z3.BoolVal(
                    o.val[0] == 'ZeroDivisionError'), a == 0), node,
                    '%s raises only ZeroDivisionError, for a = 0 (%s)' % (
                        opname, o.val[0]), extra=P)
                continue
            nret += 1
            calls = st.ghost.get('mulcalls', ())
            ok = isinstance(o.val, MulResult) and len(calls) == 1 and \
                calls[0][0] == method and o.val.method == method
            t = real_of(ex, st, calls[0][1]) if ok else None
            ex.oblige(st, 'binop-value', z3.And(a != 0, t * a == 1)
                      if t is not None else z3.BoolVal(False), node,
                      '%s returns self.%s(1/a), a != 0' % (opname, method),
                      extra=P)
        if outs:
            ex.oblige(outs[0].st, 'covered', z3.BoolVal(nret >= 1), N(),
                      '%s returns (%d paths)' % (opname, nret), extra=P)
        return {'paths': len(outs), 'returns': nret}
    return on_outcomes


FUNCS['_function.__truediv__'] = {
    'setup': div_setup, 'scenarios': {'float': {}, 'matrix': {'operand':
                                                               'm11'}},
    'on_outcomes': div_outcomes('f / a', '__mul__'),
    'config': {'unroll': 8, 'fork_on_zero_division': True,
               'exact_arith': True}}
FUNCS['_function.__itruediv__'] = {
    'setup': div_setup, 'scenarios': {'float': {}, 'matrix': {'operand':
                                                               'm11'}},
    'on_outcomes': div_outcomes('f /= a', '__imul__'),
    'config': {'unroll': 8, 'fork_on_zero_division': True,
               'exact_arith': True}}
