"""cp / gp wrapper contracts (see wrappers_spec.py)"""
from contracts.py.wrappers_spec import FUNCS_CVXPROG as FUNCS, L
