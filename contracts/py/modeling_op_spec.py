"""C13: the bookkeeping of modeling.op stays consistent under every edit.

The real method bodies of class `op` (addconstraint, delconstraint, the
objective setter in __setattr__, the list accessors) are executed
symbolically over an *abstract view* of the containers they manipulate:

  Var, Con                uninterpreted sorts (variables, constraints)
  inV(c, v)               v is one of the variables of constraint c
                          (ASSUMED immutable after creation: constraints hold
                          their function by reference)
  isineq(c)               c.type() == '<'
  I, E : Con -> Int       multiplicity of c in op._inequalities/_equalities
  dom : Var -> Bool       keys of op._variables
  o : Var -> Bool         op._variables[v]['o']
  icnt, ecnt : Var -> Con -> Int   multiplicity of c in _variables[v]['i'/'e']
  obj : Var -> Bool       variables of the current objective

The contracts of the Python containers are stated on that view (dict
membership / lookup / deletion, list.remove raising ValueError when absent,
`+= [c]`, truthiness = non-empty).  Loops over a set (`for v in
c.variables()`) are handled by a pointwise rule: the body is executed for one
arbitrary element v, an obligation shows that it reads and writes the
containers at v only, and the effect is then applied to every element of the
set at once; after the loop the loop variable is an arbitrary element of the
set, or unbound if the set is empty -- which is exactly what the Python
semantics gives and what the two D9 defects hinge on.

Invariant Inv (property statement: "variables(), constraints() ... list
exactly the variables and constraints of the current objective and constraint
set"):
  (1) dom(v)  <=>  obj(v) \\/ exists c. inV(c,v) /\\ (I(c) > 0 \\/ E(c) > 0)
  (2) dom(v)  ==>  (o(v) <=> obj(v))
  (3) dom(v)  ==>  icnt(v,c) = (inV(c,v) /\\ isineq(c) ? I(c) : 0)   and the
      same for ecnt/E with not isineq(c)
  (4) I, E >= 0; I(c) > 0 ==> isineq(c); E(c) > 0 ==> not isineq(c)
  (a list is empty iff every multiplicity in it is 0)
"""
import ast, z3
from engine.pyvc.core import (I as II, R, B, Dyn, Ref, Ext, Unknown, PyRaise,
                              NeedFork, Unsupported, const_of, Outcome,
                              NOTFOUND, UNBOUND, BoundMethod)
from contracts.py.extern_cvxopt import LIB as L

V = z3.DeclareSort('Var')
C = z3.DeclareSort('Con')
inV = z3.Function('inV', C, V, z3.BoolSort())
isineq = z3.Function('isineq', C, z3.BoolSort())
CArr = z3.ArraySort(C, z3.IntSort())


class AbsVar:
    def __init__(self, t):
        self.t = t

    def abs_eq(self, ex, st, o):
        return self.t == o.t if isinstance(o, AbsVar) else False

    abs_is = abs_eq

    def __repr__(self):
        return 'AbsVar(%s)' % self.t


class TypeStr:
    def __init__(self, c):
        self.c = c

    def abs_eq(self, ex, st, o):
        if o == '<':
            return isineq(self.c)
        if o == '=':
            return z3.Not(isineq(self.c))
        return False


class AbsCon:
    def __init__(self, t):
        self.t = t

    def abs_eq(self, ex, st, o):
        return self.t == o.t if isinstance(o, AbsCon) else False

    abs_is = abs_eq

    def abs_method(self, ex, st, name, args, kwargs, n):
        if name == 'variables':
            c = self.t
            return SetView(lambda u: inV(c, u), 'variables of the constraint')
        if name == 'type':
            return TypeStr(self.t)
        raise Unsupported('constraint.%s' % name)

    def abs_getattr(self, ex, st, attr, n):
        return NOTFOUND

    def __repr__(self):
        return 'AbsCon(%s)' % self.t


def vars_obj(st, ref):
    return st.heap[ref.oid]


class EntryView:
    """op._variables[v]"""

    def __init__(self, ref, v):
        self.ref, self.v = ref, v

    def abs_getitem(self, ex, st, idx, n):
        o = vars_obj(st, self.ref)
        touch(st, self.v)
        if idx == 'o':
            return B(z3.Select(o.f['o'], self.v))
        if idx in ('i', 'e'):
            return CListView(self.ref, self.v, idx)
        raise PyRaise('KeyError', idx)

    def abs_setitem(self, ex, st, idx, val, s):
        o = vars_obj(st, self.ref)
        touch(st, self.v)
        if idx == 'o':
            t = ex.truth(st, val, s)
            o.f['o'] = z3.Store(o.f['o'], self.v, z3.BoolVal(t) if isinstance(
                t, bool) else t)
            return
        if idx in ('i', 'e'):
            if isinstance(val, Appended) and val.view.v.eq(self.v) and \
                    val.view.which == idx:
                for c in val.items:
                    list_add(st, self.ref, self.v, idx, c.t, 1)
                return
            if isinstance(val, CListView) and val.v.eq(self.v) and \
                    val.which == idx:
                return
            if isinstance(val, Ref) and st.heap[val.oid].kind == 'list' and \
                    isinstance(st.heap[val.oid].f.get('items'), list) and \
                    all(isinstance(c, AbsCon) for c in st.heap[val.oid].f[
                        'items']):
                # plain assignment of a new list: the old record is replaced
                cn = 'icnt' if idx == 'i' else 'ecnt'
                o.f[cn] = z3.Store(o.f[cn], self.v, z3.K(C, z3.IntVal(0)))
                for c in st.heap[val.oid].f['items']:
                    list_add(st, self.ref, self.v, idx, c.t, 1)
                return
        raise Unsupported('store to _variables[v][%r]' % (idx,))


class Appended:
    def __init__(self, view, items):
        self.view, self.items = view, items


def list_add(st, ref, v, which, c, d):
    o = vars_obj(st, ref)
    cn = 'icnt' if which == 'i' else 'ecnt'
    row = z3.Select(o.f[cn], v)
    o.f[cn] = z3.Store(o.f[cn], v, z3.Store(row, c, z3.Select(row, c) + d))


class CListView:
    """op._variables[v]['i'] / ['e']"""

    def __init__(self, ref, v, which):
        self.ref, self.v, self.which = ref, v, which

    def abs_truth(self, ex, st):
        # a list is true iff it is non-empty iff some constraint occurs in it
        o = vars_obj(st, self.ref)
        c = z3.Const(ex.fresh('c'), C)
        row = z3.Select(o.f['icnt' if self.which == 'i' else 'ecnt'],
                        self.v)
        return z3.Exists([c], z3.Select(row, c) > 0)

    def abs_method(self, ex, st, name, args, kwargs, n):
        o = vars_obj(st, self.ref)
        touch(st, self.v)
        if name == 'remove':
            c = args[0]
            if not isinstance(c, AbsCon):
                raise Unsupported('list.remove of non-constraint')
            cn = 'icnt' if self.which == 'i' else 'ecnt'
            cnt = z3.Select(z3.Select(o.f[cn], self.v), c.t)
            d = ex.decide(st, cnt > 0)
            if d is None:
                raise NeedFork(cnt > 0)
            if not d:
                raise PyRaise('ValueError', 'list.remove(x): x not in list')
            list_add(st, self.ref, self.v, self.which, c.t, -1)
            return None
        raise Unsupported('list method %s on a bookkeeping list' % name)

    def abs_binop(self, ex, st, op, b, n):
        if isinstance(op, ast.Add) and isinstance(b, Ref) and 'items' in \
                st.heap[b.oid].f:
            items = st.heap[b.oid].f['items']
            if all(isinstance(x, AbsCon) for x in items):
                return Appended(self, items)
        raise Unsupported('operation on a bookkeeping list')


def touch(st, v):
    """records that the containers are accessed at key v (pointwise rule)"""
    t = st.ghost.get('touched')
    if t is not None:
        st.ghost['touched'] = t + [v]


class SetView:
    """a finite set of variables given by its characteristic predicate"""

    def __init__(self, pred, what):
        self.pred, self.what = pred, what

    def abs_contains(self, ex, st, item):
        if isinstance(item, AbsVar):
            return self.pred(item.t)
        return False

    def abs_loop(self, ex, st, s, fid):
        return map_loop(ex, st, s, fid, self)


ARRS = ('dom', 'o', 'icnt', 'ecnt')


def map_loop(ex, st, s, fid, sv):
    """pointwise rule for `for v in S: body` (see module doc string)"""
    vref = find_vars(st)
    pre = st
    o0 = vars_obj(pre, vref)
    old = {a: o0.f[a] for a in ARRS}
    v = z3.Const(ex.fresh('v@%d' % s.lineno), V)
    body = pre.copy()
    body.pc.append(sv.pred(v))
    body.ghost['touched'] = []
    ex.assign(body, fid, s.target, AbsVar(v), s)
    empty_possible = ex.check(pre.pc, [z3.Not(z3.Exists([v], sv.pred(v)))]) \
        != z3.unsat
    nonempty_possible = ex.check(pre.pc, [sv.pred(v)]) != z3.unsat
    outs = ex.exec_block(s.body, body, fid) if nonempty_possible else []
    res = []
    normal = []
    for o in outs:
        if o.kind in ('fall', 'continue'):
            normal.append(o.st)
        elif o.kind == 'raise':
            # the loop is left in the middle: elements of S may or may not
            # have been processed; everything outside S is unchanged
            est = o.st
            eo = vars_obj(est, vref)
            u = z3.Const(ex.fresh('u'), V)
            for a in ARRS:
                na = z3.Const(ex.fresh('partial_' + a), old[a].sort())
                est.pc.append(z3.ForAll([u], z3.Implies(
                    z3.Not(sv.pred(u)), z3.Select(na, u) == z3.Select(
                        old[a], u))))
                eo.f[a] = na
            est.ghost.pop('touched', None)
            res.append(o)
        else:
            raise Unsupported('break/return inside a set loop')
    # frame of the body: containers change at key v only; other containers
    # (I, E, obj) must not change
    for bs in normal:
        bo = vars_obj(bs, vref)
        w_ = z3.Const(ex.fresh('other_key'), V)
        for a in ARRS:
            ex.oblige(bs, 'pointwise-frame', z3.Implies(
                w_ != v, z3.Select(bo.f[a], w_) == z3.Select(old[a], w_)), s,
                'loop at line %d changes %s only at the key of the current '
                'element' % (s.lineno, a), extra={'prop': 'C13'})
        for oid, ho in pre.heap.items():
            if ho.kind in ('abs_clist', 'abs_func') and oid in bs.heap:
                for k_, t_ in ho.f.items():
                    if z3.is_expr(t_):
                        ex.oblige(bs, 'pointwise-frame', bs.heap[oid].f[
                            k_] == t_, s, 'loop at line %d does not change '
                            'the %s container' % (s.lineno, ho.meta.get(
                                'name', ho.kind)), extra={'prop': 'C13'})
    # post-state: effect applied to every element of S
    post = pre.copy()
    po = vars_obj(post, vref)
    n0 = len(pre.pc) + 1
    u = z3.Const(ex.fresh('u'), V)
    if normal:
        for a in ARRS:
            val = None
            for bs in reversed(normal):
                bo = vars_obj(bs, vref)
                extra = bs.pc[n0:]
                cond = z3.And(extra) if extra else z3.BoolVal(True)
                cell = z3.Select(bo.f[a], v)
                val = cell if val is None else z3.If(cond, cell, val)
            val_u = z3.substitute(val, (v, u))
            po.f[a] = z3.Lambda([u], z3.If(sv.pred(u), val_u, z3.Select(
                old[a], u)))
        seen = set(id(x) for x in post.obligs)
        for bs in normal:
            for ob in bs.obligs:
                if id(ob) not in seen:
                    seen.add(id(ob))
                    post.obligs.append(ob)
    post.ghost.pop('touched', None)
    # loop variable after the loop
    if nonempty_possible and normal:
        ne = post.copy()
        w = z3.Const(ex.fresh('last@%d' % s.lineno), V)
        ne.pc.append(sv.pred(w))
        ex.assign(ne, fid, s.target, AbsVar(w), s)
        res.append(Outcome('fall', ne))
    if empty_possible:
        em = pre.copy()
        uu = z3.Const(ex.fresh('u'), V)
        em.pc.append(z3.ForAll([uu], z3.Not(sv.pred(uu))))
        em.obligs = list(post.obligs)
        res.append(Outcome('fall', em))
    return res


def find_vars(st):
    for oid, o in st.heap.items():
        if o.kind == 'abs_vars':
            return Ref(oid)
    raise Unsupported('no bookkeeping dictionary in the state')


# ------------------------------------------------------------- container kinds
def vars_getitem(ex, st, ref, idx, n):
    if not isinstance(idx, AbsVar):
        raise Unsupported('_variables[%r]' % (idx,))
    o = vars_obj(st, ref)
    touch(st, idx.t)
    has = z3.Select(o.f['dom'], idx.t)
    d = ex.decide(st, has)
    if d is None:
        raise NeedFork(has)
    if not d:
        raise PyRaise('KeyError', 'variable not in _variables')
    return EntryView(ref, idx.t)


def vars_setitem(ex, st, ref, idx, val, s):
    if not isinstance(idx, AbsVar):
        raise Unsupported('_variables[%r] = ...' % (idx,))
    o = vars_obj(st, ref)
    touch(st, idx.t)
    v = idx.t
    if not (isinstance(val, Ref) and st.heap[val.oid].kind == 'dict'):
        raise Unsupported('_variables[v] = non-dict')
    d = st.heap[val.oid].f['items']
    flag = ex.truth(st, d['o'], s)
    o.f['dom'] = z3.Store(o.f['dom'], v, True)
    o.f['o'] = z3.Store(o.f['o'], v, z3.BoolVal(flag) if isinstance(
        flag, bool) else flag)
    for which, cn in (('i', 'icnt'), ('e', 'ecnt')):
        lst = d[which]
        items = st.heap[lst.oid].f['items']
        row = z3.K(C, z3.IntVal(0))
        for c in items:
            row = z3.Store(row, c.t, z3.Select(row, c.t) + 1)
        o.f[cn] = z3.Store(o.f[cn], v, row)


def vars_contains(ex, st, container, item, node):
    o = st.heap[container.oid]
    if o.kind == 'abs_vars' and isinstance(item, AbsVar):
        touch(st, item.t)
        return z3.Select(o.f['dom'], item.t)
    return NOTFOUND


def vars_delitem(ex, st, base, idx, t):
    if isinstance(base, Ref) and st.heap[base.oid].kind == 'abs_vars' and \
            isinstance(idx, AbsVar):
        o = st.heap[base.oid]
        touch(st, idx.t)
        has = z3.Select(o.f['dom'], idx.t)
        d = ex.decide(st, has)
        if d is None:
            raise NeedFork(has)
        if not d:
            raise PyRaise('KeyError', 'variable not in _variables')
        o.f['dom'] = z3.Store(o.f['dom'], idx.t, False)
        return True
    return False


def vars_method(ex, st, ref, name, args, kwargs, n):
    o = st.heap[ref.oid]
    if name == 'keys':
        dom = o.f['dom']
        return SetView(lambda u, dom=dom: z3.Select(dom, u),
                       'keys of _variables')
    return NOTFOUND


def clist_method(ex, st, ref, name, args, kwargs, n):
    o = st.heap[ref.oid]
    if name == 'remove':
        c = args[0]
        cnt = z3.Select(o.f['cnt'], c.t)
        d = ex.decide(st, cnt > 0)
        if d is None:
            raise NeedFork(cnt > 0)
        if not d:
            raise PyRaise('ValueError', 'list.remove(x): x not in list')
        o.f['cnt'] = z3.Store(o.f['cnt'], c.t, cnt - 1)
        return None
    return NOTFOUND


def clist_inplace(ex, st, op, cur, v, s):
    o = st.heap[cur.oid]
    if op == 'Add' and isinstance(v, Ref) and 'items' in st.heap[v.oid].f:
        for c in st.heap[v.oid].f['items']:
            if not isinstance(c, AbsCon):
                raise Unsupported('appending a non-constraint')
            o.f['cnt'] = z3.Store(o.f['cnt'], c.t, z3.Select(
                o.f['cnt'], c.t) + 1)
            if 'items' in o.f:
                o.f['items'] = list(o.f['items']) + [c]
        return cur
    raise Unsupported('in-place %s on a constraint list' % op)


def func_method(ex, st, ref, name, args, kwargs, n):
    o = st.heap[ref.oid]
    if name == 'variables':
        vs = o.f['vars']
        return SetView(lambda u, vs=vs: z3.Select(vs, u),
                       'variables of the objective')
    if name == '_isconvex':
        return True
    return NOTFOUND


L.hooks['getitem_kind:abs_vars'] = vars_getitem
L.hooks['setitem_kind:abs_vars'] = vars_setitem
L.hooks['contains'] = vars_contains
L.hooks['delitem'] = vars_delitem
L.hooks['method_kind:abs_vars'] = vars_method
def clist_truth(ex, st, ref):
    # a list is true iff it is non-empty iff some constraint occurs in it
    c = z3.Const(ex.fresh('c'), C)
    return z3.Exists([c], z3.Select(st.heap[ref.oid].f['cnt'], c) > 0)


_prev_iter_values = L.iter_values


def iter_values2(ex, st, it, s):
    if isinstance(it, Ref) and st.heap[it.oid].kind == 'abs_clist' and \
            'items' in st.heap[it.oid].f:
        return list(st.heap[it.oid].f['items'])
    return _prev_iter_values(ex, st, it, s)


L.iter_values = iter_values2
L.hooks['truth_kind:abs_clist'] = clist_truth
L.hooks['method_kind:abs_clist'] = clist_method
L.hooks['inplace_kind:abs_clist'] = clist_inplace
L.hooks['method_kind:abs_func'] = func_method

_prev_len = L.hooks.get('instance_len')


@L.register('cvxopt.modeling.varlist', pure=True)
def m_varlist(ex, st, args, kwargs, n):
    return args[0]


@L.register('cvxopt.modeling._isscalar', pure=True)
def m_isscalar(ex, st, args, kwargs, n):
    return False


@L.register('builtins.object.__setattr__')
def obj_setattr(ex, st, args, kwargs, n):
    self, name, value = args
    o = st.heap[self.oid]
    if name in ('_inequalities', '_equalities') and isinstance(value, Ref) \
            and st.heap[value.oid].kind == 'list' and st.heap[
                value.oid].f.get('items') == []:
        # a fresh empty list becomes the abstract (multiset) list; the
        # sequence of items appended to it is remembered so that a loop over
        # it can be unrolled (constructor scenarios)
        value = ex.alloc(st, 'abs_clist', {'cnt': z3.K(C, z3.IntVal(0)),
                                          'items': []},
                         {'owner': 'FRESH', 'name': name})
    if name == '_variables' and isinstance(value, Ref) and st.heap[
            value.oid].kind == 'dict' and not st.heap[value.oid].f.get(
                'items') and not st.heap[value.oid].f.get('open'):
        value = ex.alloc(st, 'abs_vars', {
            'dom': z3.K(V, z3.BoolVal(False)),
            'o': z3.K(V, z3.BoolVal(False)),
            'icnt': z3.K(V, z3.K(C, z3.IntVal(0))),
            'ecnt': z3.K(V, z3.K(C, z3.IntVal(0)))},
            {'owner': 'FRESH', 'name': '_variables'})
    o.f['attrs'] = dict(o.f['attrs'])
    o.f['attrs'][name] = value
    return None


_prev_type = L.ext['builtins.type']


def b_type2(ex, st, args, kwargs, n):
    v = args[0]
    if isinstance(v, AbsCon):
        return Ext('cvxopt.modeling.constraint')
    if isinstance(v, AbsVar):
        return Ext('cvxopt.modeling.variable')
    if isinstance(v, SeqCon):
        return Ext('builtins.list')
    if isinstance(v, Ref) and st.heap[v.oid].kind == 'abs_func':
        return Ext('cvxopt.modeling._function')
    return _prev_type(ex, st, args, kwargs, n)


L.ext['builtins.type'] = b_type2
_prev_blen = L.ext['builtins.len']


def b_len2(ex, st, args, kwargs, n):
    v = args[0]
    if isinstance(v, Ref) and st.heap[v.oid].kind == 'abs_func':
        return 1
    return _prev_blen(ex, st, args, kwargs, n)


L.ext['builtins.len'] = b_len2
_prev_list = L.ext['builtins.list']


def b_list2(ex, st, args, kwargs, n):
    if args and isinstance(args[0], Ref) and st.heap[args[0].oid].kind == \
            'abs_clist':
        o = st.heap[args[0].oid]
        return ex.alloc(st, 'abs_clist', {'cnt': o.f['cnt']},
                        {'owner': 'FRESH', 'name': 'copy of ' + o.meta.get(
                            'name', 'list'), 'copy_of': args[0].oid})
    return _prev_list(ex, st, args, kwargs, n)


L.ext['builtins.list'] = b_list2


def instance_method(ex, st, obj, name, args, kwargs, n):
    """methods of the class under analysis are inlined"""
    o = st.heap[obj.oid]
    cls = ex.classes.get(o.f['cls'])
    fn = None
    for b in cls.body:
        if isinstance(b, ast.FunctionDef) and b.name == name:
            fn = b
    if fn is None:
        raise Unsupported('method %s.%s' % (o.f['cls'], name))
    return inline(ex, st, fn, [obj] + list(args), kwargs, n)


def inline(ex, st, fn, args, kwargs, n):
    defaults = [ex.ev(d, st, 1) for d in fn.args.defaults]
    bound = ex.bind_args(st, fn, defaults, args, kwargs, n)
    nf = next(ex.fid)
    st.frames[nf] = dict(bound)
    st.parent[nf] = None
    ex.declare_locals(st, nf, fn)
    outs = ex.exec_block(fn.body, st, nf)
    if len(outs) == 1:
        o2 = outs[0]
        ex.adopt(st, o2.st)
        st.frames.pop(nf, None)
        if o2.kind == 'raise':
            raise PyRaise(*o2.val)
        return o2.val if o2.kind == 'return' else None
    from engine.pyvc.core import MultiOutcome
    raise MultiOutcome(outs, nf)


def instance_setattr(ex, st, base, attr, v, s):
    o = st.heap[base.oid]
    cls = ex.classes.get(o.f['cls'])
    for b in cls.body:
        if isinstance(b, ast.FunctionDef) and b.name == '__setattr__':
            inline(ex, st, b, [base, attr, v], {}, s)
            return True
    return False


def instance_binop(ex, st, op, a, b, n):
    """_inequalities + _equalities -> a new list"""
    if isinstance(a, Ref) and isinstance(b, Ref) and st.heap[
            a.oid].kind == 'abs_clist' and st.heap[b.oid].kind == \
            'abs_clist' and op == 'Add':
        c = z3.Const(ex.fresh('c'), C)
        ca, cb = st.heap[a.oid].f['cnt'], st.heap[b.oid].f['cnt']
        return ex.alloc(st, 'abs_clist', {'cnt': z3.Lambda([c], z3.Select(
            ca, c) + z3.Select(cb, c))}, {'owner': 'FRESH',
                                         'name': 'concatenation'})
    return Unknown('binop on object')


L.hooks['instance_method'] = instance_method
L.hooks['instance_setattr'] = instance_setattr
L.hooks['instance_binop'] = instance_binop


# ----------------------------------------------------------------- scenario
def mk_state(ex, st, with_inv=True):
    """an arbitrary op object satisfying Inv"""
    f = {'dom': z3.Const('dom', z3.ArraySort(V, z3.BoolSort())),
         'o': z3.Const('oflag', z3.ArraySort(V, z3.BoolSort())),
         'icnt': z3.Const('icnt', z3.ArraySort(V, CArr)),
         'ecnt': z3.Const('ecnt', z3.ArraySort(V, CArr))}
    vref = ex.alloc(st, 'abs_vars', f, {'owner': 'FRESH',
                                        'name': '_variables'})
    iref = ex.alloc(st, 'abs_clist', {'cnt': z3.Const('I', CArr)},
                    {'owner': 'FRESH', 'name': '_inequalities'})
    eref = ex.alloc(st, 'abs_clist', {'cnt': z3.Const('E', CArr)},
                    {'owner': 'FRESH', 'name': '_equalities'})
    oref = ex.alloc(st, 'abs_func', {'vars': z3.Const(
        'obj', z3.ArraySort(V, z3.BoolSort()))}, {'owner': 'FRESH',
                                                  'name': 'objective'})
    self = ex.alloc(st, 'instance', {'cls': 'op', 'attrs': {
        '_variables': vref, '_inequalities': iref, '_equalities': eref,
        'objective': oref, 'name': '', 'status': None}}, {'owner': 'FRESH'})
    if with_inv:
        for g in inv_formulas(st, self):
            st.pc.append(g)
    st.ghost['op_self'] = self
    return self


def inv_formulas(st, self):
    a = st.heap[self.oid].f['attrs']
    vo = st.heap[a['_variables'].oid].f
    Ic = st.heap[a['_inequalities'].oid].f['cnt']
    Ec = st.heap[a['_equalities'].oid].f['cnt']
    ob = st.heap[a['objective'].oid].f['vars']
    v = z3.Const('v!', V)
    c = z3.Const('c!', C)
    sel = z3.Select
    used = z3.Exists([c], z3.And(inV(c, v), z3.Or(sel(Ic, c) > 0,
                                                  sel(Ec, c) > 0)))
    out = [
        ('(1) _variables has exactly the variables of the objective and of '
         'the constraints', z3.ForAll([v], sel(vo['dom'], v) == z3.Or(
             sel(ob, v), used))),
        ("(2) the 'o' flag marks exactly the objective's variables",
         z3.ForAll([v], z3.Implies(sel(vo['dom'], v), sel(vo['o'], v) ==
                                   sel(ob, v)))),
        ("(3i) _variables[v]['i'] lists each inequality containing v as "
         "often as _inequalities does, and nothing else",
         z3.ForAll([v, c], z3.Implies(sel(vo['dom'], v), sel(sel(
             vo['icnt'], v), c) == z3.If(z3.And(inV(c, v), isineq(c)),
                                         sel(Ic, c), 0)))),
        ("(3e) the same for ['e'] and _equalities",
         z3.ForAll([v, c], z3.Implies(sel(vo['dom'], v), sel(sel(
             vo['ecnt'], v), c) == z3.If(z3.And(inV(c, v), z3.Not(
                 isineq(c))), sel(Ec, c), 0)))),
        ('(4a) multiplicities are nonnegative and lists hold constraints '
         'of their own type', z3.ForAll([c], z3.And(
             sel(Ic, c) >= 0, sel(Ec, c) >= 0,
             z3.Implies(sel(Ic, c) > 0, isineq(c)),
             z3.Implies(sel(Ec, c) > 0, z3.Not(isineq(c)))))),
    ]
    return [g for _, g in out]


def inv_named(st, self):
    names = ['(1) _variables has exactly the variables of the objective and '
             'of the current constraints',
             "(2) the 'o' flag marks exactly the objective's variables",
             "(3i) _variables[v]['i'] mirrors _inequalities",
             "(3e) _variables[v]['e'] mirrors _equalities",
             '(4a) multiplicities nonnegative, lists typed']
    return list(zip(names, inv_formulas(st, self)))


def setup_for(method):
    def mk(sc):
        def setup(ex, st, fid, fn):
            self = mk_state(ex, st)
            fr = st.frames[fid]
            fr['self'] = self
            if method in ('addconstraint', 'delconstraint'):
                cc = z3.Const('c', C)
                if sc.get('arg') == 'constraint':
                    fr['c'] = AbsCon(cc)
                else:
                    fr['c'] = 5      # any object that is not a constraint
                st.ghost['arg_c'] = cc
            if method == '__setattr__':
                fr['name'] = 'objective'
                nf = ex.alloc(st, 'abs_func', {'vars': z3.Const(
                    'newobj', z3.ArraySort(V, z3.BoolSort()))},
                    {'owner': 'FRESH', 'name': 'new objective'})
                fr['value'] = nf
            st.ghost['pre'] = snapshot(st, self)
        return setup
    return mk


def snapshot(st, self):
    a = st.heap[self.oid].f['attrs']
    return {'vars': dict(st.heap[a['_variables'].oid].f),
            'I': st.heap[a['_inequalities'].oid].f['cnt'],
            'E': st.heap[a['_equalities'].oid].f['cnt'],
            'obj': st.heap[a['objective'].oid].f['vars']}


def on_outcomes_for(method):
    def on_outcomes(ex, outs):
        summ = {'returns': 0, 'raises': {}}
        for o in outs:
            st = o.st
            self = st.ghost['op_self']
            pre = st.ghost['pre']
            if o.kind == 'raise':
                et, msg, line = o.val
                summ['raises'][et] = summ['raises'].get(et, 0) + 1
                ex.oblige(st, 'exception-type', et in ('TypeError',), None,
                          'op.%s raises only TypeError (for an argument of '
                          'the wrong type); %s raised at line %s' % (
                              method, et, line), extra={'prop': 'C13'})
                st.obligs[-1].line = line or 0
                if et == 'TypeError':
                    # rejected edits leave the problem unchanged
                    post = snapshot(st, self)
                    kv = z3.Const('anyv!', V)
                    kc = z3.Const('anyc!', C)
                    same = z3.And([z3.Select(post['vars'][a], kv) ==
                                   z3.Select(pre['vars'][a], kv)
                                   for a in ARRS] + [
                        z3.Select(post['I'], kc) == z3.Select(pre['I'], kc),
                        z3.Select(post['E'], kc) == z3.Select(pre['E'], kc),
                        z3.Select(post['obj'], kv) == z3.Select(pre['obj'],
                                                                kv)])
                    ex.oblige(st, 'reject-clean', same, None,
                              'a rejected op.%s leaves the bookkeeping '
                              'unchanged' % method, extra={'prop': 'C13'})
                continue
            summ['returns'] += 1
            for text, g in inv_named(st, self):
                ex.oblige(st, 'invariant-preserved', g, None,
                          'after op.%s: %s' % (method, text),
                          extra={'prop': 'C13'})
            post = snapshot(st, self)
            cc = st.ghost.get('arg_c')
            c2 = z3.Const('c2!', C)
            sel = z3.Select
            if method == 'addconstraint':
                exp_i = z3.Lambda([c2], sel(pre['I'], c2) + z3.If(z3.And(
                    c2 == cc, isineq(cc)), 1, 0))
                exp_e = z3.Lambda([c2], sel(pre['E'], c2) + z3.If(z3.And(
                    c2 == cc, z3.Not(isineq(cc))), 1, 0))
                ex.oblige(st, 'edit-effect', z3.And(
                    z3.ForAll([c2], sel(post['I'], c2) == sel(exp_i, c2)),
                    z3.ForAll([c2], sel(post['E'], c2) == sel(exp_e, c2)),
                    post['obj'] == pre['obj']), None,
                    'op.addconstraint(c) adds exactly one occurrence of c to '
                    'the list of its type and changes nothing else',
                    extra={'prop': 'C13'})
            if method == 'delconstraint':
                exp_i = z3.Lambda([c2], sel(pre['I'], c2) - z3.If(z3.And(
                    c2 == cc, isineq(cc), sel(pre['I'], cc) > 0), 1, 0))
                exp_e = z3.Lambda([c2], sel(pre['E'], c2) - z3.If(z3.And(
                    c2 == cc, z3.Not(isineq(cc)), sel(pre['E'], cc) > 0),
                    1, 0))
                ex.oblige(st, 'edit-effect', z3.And(
                    z3.ForAll([c2], sel(post['I'], c2) == sel(exp_i, c2)),
                    z3.ForAll([c2], sel(post['E'], c2) == sel(exp_e, c2)),
                    post['obj'] == pre['obj']), None,
                    'op.delconstraint(c) removes one occurrence of c if '
                    'present and is the identity otherwise',
                    extra={'prop': 'C13'})
            if method == '__setattr__':
                ex.oblige(st, 'edit-effect', z3.And(
                    post['I'] == pre['I'], post['E'] == pre['E'],
                    post['obj'] == z3.Const('newobj', z3.ArraySort(
                        V, z3.BoolSort()))), None,
                    'assigning the objective replaces the objective and '
                    'leaves the constraint lists unchanged',
                    extra={'prop': 'C13'})
        return summ
    return on_outcomes


def accessor_setup(sc):
    def setup(ex, st, fid, fn):
        self = mk_state(ex, st)
        st.frames[fid]['self'] = self
        st.ghost['pre'] = snapshot(st, self)
    return setup


def accessor_outcomes(method):
    def on_outcomes(ex, outs):
        summ = {'returns': 0}
        for o in outs:
            st = o.st
            if o.kind != 'return':
                ex.oblige(st, 'exception-type', False, None,
                          'op.%s() does not raise' % method,
                          extra={'prop': 'C13'})
                continue
            summ['returns'] += 1
            self = st.ghost['op_self']
            a = st.heap[self.oid].f['attrs']
            v = o.val
            pre = st.ghost['pre']
            fresh = False
            content = z3.BoolVal(False)
            c2 = z3.Const('c2!', C)
            if isinstance(v, Ref) and st.heap[v.oid].kind == 'abs_clist':
                fresh = v.oid not in (a['_inequalities'].oid,
                                      a['_equalities'].oid)
                got = st.heap[v.oid].f['cnt']
                exp = {'inequalities': pre['I'], 'equalities': pre['E'],
                       'constraints': z3.Lambda([c2], z3.Select(
                           pre['I'], c2) + z3.Select(pre['E'], c2))}[method]
                content = z3.ForAll([c2], z3.Select(got, c2) == z3.Select(
                    exp, c2))
            elif isinstance(v, SetView):
                # varlist(self._variables.keys()): a new list object built
                # from the key view
                fresh = True
                u = z3.Const('u!', V)
                content = z3.ForAll([u], v.pred(u) == z3.Select(
                    pre['vars']['dom'], u))
            ex.oblige(st, 'accessor-copy', fresh, None,
                      'op.%s() returns a new list, not the internal one' %
                      method, extra={'prop': 'C13'})
            ex.oblige(st, 'accessor-content', content, None,
                      'op.%s() lists exactly the current %s' % (
                          method, method), extra={'prop': 'C13'})
        return summ
    return on_outcomes


# ------------------------------------------- constructor, lists of any length
# A list of constraints of symbolic length N is a sequence elem(0..N-1) with
# the ghost prefix count  before(k, c) = #{p < k : elem(p) = c}  (defined by
# recursion: before(0, c) = 0, before(k+1, c) = before(k, c) + [elem(k) = c]).
# Loops over such a sequence are handled by the invariant rule with the
# containers as ghost arrays: at the head of an arbitrary iteration the arrays
# are havoced and constrained by the invariant at k, the body is executed
# once, the invariant at k+1 is an obligation, and after the loop the arrays
# satisfy the invariant at N.
ELEM = z3.Function('elem', z3.IntSort(), z3.IntSort(), C)
BEFORE = z3.Function('before', z3.IntSort(), z3.IntSort(), C, z3.IntSort())
_seq_ids = [0]


def seq_axioms(sid, k, N):
    c = z3.Const('c_ax', C)
    return [z3.ForAll([c], BEFORE(sid, 0, c) == 0),
            z3.ForAll([c], BEFORE(sid, k + 1, c) == BEFORE(sid, k, c) +
                      z3.If(ELEM(sid, k) == c, 1, 0)),
            z3.ForAll([c], BEFORE(sid, k, c) >= 0), N >= 0]


class SeqCon:
    """the `constraints` argument: a list of constraints of any length"""
    def __init__(self, N):
        _seq_ids[0] += 1
        self.sid = z3.IntVal(_seq_ids[0])
        self.N = N

    def abs_comp(self, ex, st, n, g, fid):
        # [c for c in constraints if type(c) is not constraint]: every
        # element is a constraint (precondition of the scenario)
        return ex.alloc(st, 'list', {'items': []}, {'owner': 'FRESH'})

    def abs_loop(self, ex, st, s, fid):
        return first_loop(ex, st, s, fid, self)


def _clists(st):
    self = st.ghost['op_self']
    a = st.heap[self.oid].f['attrs']
    return a['_inequalities'], a['_equalities']


def first_loop(ex, st, s, fid, seq):
    """for c in constraints: append c to the list of its type"""
    sid, N = seq.sid, seq.N
    iref, eref = _clists(st)
    c = z3.Const('c_inv', C)
    k = z3.Int(ex.fresh('k'))

    def inv(state, kk):
        I_ = state.heap[iref.oid].f['cnt']
        E_ = state.heap[eref.oid].f['cnt']
        return [('_inequalities holds the inequalities among the first k '
                 'constraints, once per occurrence', z3.ForAll([c], z3.Select(
                     I_, c) == z3.If(isineq(c), BEFORE(sid, kk, c), 0))),
                ('_equalities holds the equalities among the first k '
                 'constraints, once per occurrence', z3.ForAll([c], z3.Select(
                     E_, c) == z3.If(isineq(c), 0, BEFORE(sid, kk, c))))]
    for text, g in inv(st, z3.IntVal(0)):
        st.pc.extend(seq_axioms(sid, z3.IntVal(0), N))
        ex.oblige(st, 'loop-invariant-init', g, s, 'constructor: ' + text +
                  ' (k = 0)', extra={'prop': 'C13'})

    def havoc(state, kk):
        for ref, nm in ((iref, 'I'), (eref, 'E')):
            o = state.heap[ref.oid]
            o.f.pop('items', None)
            o.f['cnt'] = z3.Const(ex.fresh(nm + '@'), CArr)
        state.pc.extend(seq_axioms(sid, kk, N))
        for text, g in inv(state, kk):
            state.pc.append(g)
    b = st.copy()
    havoc(b, k)
    b.pc += [k >= 0, k < N]
    ex.assign(b, fid, s.target, AbsCon(ELEM(sid, k)), s)
    for o in ex.exec_block(s.body, b, fid):
        if o.kind not in ('fall', 'continue'):
            raise Unsupported('early exit from the loop over constraints')
        for text, g in inv(o.st, k + 1):
            ex.oblige(o.st, 'loop-invariant-preserved', g, s,
                      'constructor: ' + text + ' (k -> k+1)',
                      extra={'prop': 'C13'})
        ex.orphans = getattr(ex, 'orphans', [])
        ex.orphans.extend(o.st.obligs)
    e = st.copy()
    havoc(e, N)
    e.ghost['occ'] = (sid, N)
    return [Outcome('fall', e)]


def clist_loop(ex, st, s, fid, it):
    """for c in self._inequalities / self._equalities (no item list: the
    unbounded scenario): the list is some enumeration elem2(0..M-1) of its
    multiset; invariant over the bookkeeping arrays (see module comment)"""
    lo = st.heap[it.oid]
    if 'items' in lo.f:
        return None
    which = 'i' if lo.meta.get('name') == '_inequalities' else 'e'
    _seq_ids[0] += 1
    sid = z3.IntVal(_seq_ids[0])
    M = z3.Int(ex.fresh('M'))
    cnt = lo.f['cnt']
    vref = find_vars(st)
    o0 = vars_obj(st, vref)
    A0 = {a: o0.f[a] for a in ARRS}
    v, c = z3.Const('v_inv', V), z3.Const('c_inv', C)
    sel = z3.Select
    wn, on = ('icnt', 'ecnt') if which == 'i' else ('ecnt', 'icnt')
    # the rows of variables that are not yet keys are empty
    for a in ('icnt', 'ecnt'):
        ex.oblige(st, 'loop-invariant-init', z3.ForAll([v, c], z3.Implies(
            z3.Not(sel(A0['dom'], v)), sel(sel(A0[a], v), c) == 0)), s,
            'constructor: before the loop over %s the %s rows of variables '
            'that are not keys of _variables are empty' % (
                lo.meta.get('name'), a), extra={'prop': 'C13'})
    st.pc.append(z3.ForAll([c], BEFORE(sid, M, c) == sel(cnt, c)))
    st.pc.append(M >= 0)

    def inv(state, kk):
        o = vars_obj(state, vref)
        return [
            ('the keys are the old keys and the variables of the first k '
             'constraints of the list', z3.ForAll([v], sel(o.f['dom'], v) ==
                                                  z3.Or(sel(A0['dom'], v),
                                                        z3.Exists([c], z3.And(
                                                            inV(c, v), BEFORE(
                                                                sid, kk, c) >
                                                            0))))),
            ("the 'o' flags of old keys are unchanged, new keys have False",
             z3.ForAll([v], sel(o.f['o'], v) == z3.If(
                 sel(A0['dom'], v), sel(A0['o'], v), z3.If(
                     sel(o.f['dom'], v), z3.BoolVal(False),
                     sel(A0['o'], v))))),
            ("each variable's '%s' list gained every one of the first k "
             'constraints that contains it, once per occurrence' % which,
             z3.ForAll([v, c], sel(sel(o.f[wn], v), c) == sel(sel(
                 A0[wn], v), c) + z3.If(inV(c, v), BEFORE(sid, kk, c), 0))),
            ('the other lists are unchanged', z3.ForAll([v, c], sel(sel(
                o.f[on], v), c) == sel(sel(A0[on], v), c)))]

    def havoc(state, kk):
        o = vars_obj(state, vref)
        for a in ARRS:
            o.f[a] = z3.Const(ex.fresh(a + '@'), A0[a].sort())
        state.pc.extend(seq_axioms(sid, kk, M))
        for text, g in inv(state, kk):
            state.pc.append(g)
    k = z3.Int(ex.fresh('q'))
    st.pc.extend(seq_axioms(sid, z3.IntVal(0), M))
    for text, g in inv(st, z3.IntVal(0)):
        ex.oblige(st, 'loop-invariant-init', g, s, 'constructor, loop over '
                  '%s: %s (k = 0)' % (lo.meta.get('name'), text),
                  extra={'prop': 'C13'})
    b = st.copy()
    havoc(b, k)
    b.pc += [k >= 0, k < M]
    # the element is in the list: it has the type of the list
    b.pc.append(isineq(ELEM(sid, k)) if which == 'i' else z3.Not(isineq(
        ELEM(sid, k))))
    ex.assign(b, fid, s.target, AbsCon(ELEM(sid, k)), s)
    for o in ex.exec_block(s.body, b, fid):
        if o.kind not in ('fall', 'continue'):
            raise Unsupported('early exit from a loop over a constraint list')
        for text, g in inv(o.st, k + 1):
            ex.oblige(o.st, 'loop-invariant-preserved', g, s,
                      'constructor, loop over %s: %s (k -> k+1)' % (
                          lo.meta.get('name'), text), extra={'prop': 'C13'})
        ex.orphans = getattr(ex, 'orphans', [])
        ex.orphans.extend(o.st.obligs)
    e = st.copy()
    havoc(e, M)
    return [Outcome('fall', e)]


L.hooks['loop_kind:abs_clist'] = clist_loop


def init_setup(sc):
    """op(objective, constraints): BOUNDED scenarios -- constraints is None,
    one constraint, or a list of 0, 1, 2 or 3 symbolic constraints (equal or
    different, of either type); the objective is an arbitrary function"""
    def setup(ex, st, fid, fn):
        self = ex.alloc(st, 'instance', {'cls': 'op', 'attrs': {}},
                        {'owner': 'FRESH'})
        fr = st.frames[fid]
        fr['self'] = self
        fr['objective'] = ex.alloc(st, 'abs_func', {'vars': z3.Const(
            'newobj', z3.ArraySort(V, z3.BoolSort()))},
            {'owner': 'INPUT:objective', 'name': 'objective'})
        k = sc['n']
        cons = [AbsCon(z3.Const('c%d' % i, C)) for i in range(max(k, 0))]
        if sc.get('unbounded'):
            fr['constraints'] = SeqCon(z3.Int('N'))
            st.ghost['unbounded'] = True
        elif k < 0:
            fr['constraints'] = None
        elif sc.get('single'):
            fr['constraints'] = cons[0]
        else:
            fr['constraints'] = ex.alloc(st, 'list', {'items': cons},
                                         {'owner': 'INPUT:constraints',
                                          'name': 'constraints'})
        fr['name'] = ''
        st.ghost['op_self'] = self
        st.ghost['init_cons'] = [c.t for c in cons]
    return setup


def init_outcomes(ex, outs):
    summ = {'returns': 0}
    for o in outs:
        st = o.st
        if o.kind == 'raise':
            ex.oblige(st, 'exception-type', False, None,
                      'op(objective, constraints) does not raise for a '
                      'function and constraints (%s at line %s)' % (
                          o.val[0], o.val[2]), extra={'prop': 'C13'})
            continue
        summ['returns'] += 1
        self = st.ghost['op_self']
        a = st.heap[self.oid].f['attrs']
        ok = all(k in a for k in ('_variables', '_inequalities',
                                  '_equalities', 'objective')) and all(
            isinstance(a[k], Ref) and st.heap[a[k].oid].kind == kind
            for k, kind in (('_variables', 'abs_vars'),
                            ('_inequalities', 'abs_clist'),
                            ('_equalities', 'abs_clist'),
                            ('objective', 'abs_func')))
        if not ok:
            ex.oblige(st, 'invariant-established', False, None,
                      'the constructor sets _variables, _inequalities, '
                      '_equalities and objective', extra={'prop': 'C13'})
            continue
        for text, g in inv_named(st, self):
            ex.oblige(st, 'invariant-established', g, None,
                      'after op(...): %s' % text, extra={'prop': 'C13'})
        cs = st.ghost.get('init_cons', [])
        c2 = z3.Const('c2!', C)
        Ic = st.heap[a['_inequalities'].oid].f['cnt']
        Ec = st.heap[a['_equalities'].oid].f['cnt']
        occ = sum([z3.If(c2 == c_, 1, 0) for c_ in cs]) if cs else \
            z3.IntVal(0)
        if st.ghost.get('occ') is not None:
            sid_, N_ = st.ghost['occ']
            occ = BEFORE(sid_, N_, c2)
        ex.oblige(st, 'edit-effect', z3.And(
            z3.ForAll([c2], z3.Select(Ic, c2) == z3.If(isineq(c2), occ, 0)),
            z3.ForAll([c2], z3.Select(Ec, c2) == z3.If(isineq(c2), 0, occ)),
            st.heap[a['objective'].oid].f['vars'] == z3.Const(
                'newobj', z3.ArraySort(V, z3.BoolSort()))), None,
            'the constructor records exactly the given objective and each '
            'given constraint, once per occurrence, in the list of its type',
            extra={'prop': 'C13'})
    return summ


FUNCS = {
    'op.__init__': {'setup': init_setup,
                    'scenarios': {'none': {'n': -1},
                                  'single': {'n': 1, 'single': True},
                                  'list0': {'n': 0}, 'list1': {'n': 1},
                                  'list2': {'n': 2}, 'list3': {'n': 3},
                                  'listN': {'n': 0, 'unbounded': True}},
                    'on_outcomes': init_outcomes,
                    'config': {'unroll': 8}},
    'op.addconstraint': {'setup': setup_for('addconstraint'),
                         'scenarios': {'constraint': {'arg': 'constraint'},
                                       'other': {'arg': 'other'}},
                         'on_outcomes': on_outcomes_for('addconstraint'),
                         'config': {'unroll': 4}},
    'op.delconstraint': {'setup': setup_for('delconstraint'),
                         'scenarios': {'constraint': {'arg': 'constraint'},
                                       'other': {'arg': 'other'}},
                         'on_outcomes': on_outcomes_for('delconstraint'),
                         'config': {'unroll': 4}},
    'op.__setattr__': {'setup': setup_for('__setattr__'),
                       'scenarios': {'objective': {}},
                       'on_outcomes': on_outcomes_for('__setattr__'),
                       'config': {'unroll': 4}},
    'op.variables': {'setup': accessor_setup, 'scenarios': {'any': {}},
                     'on_outcomes': accessor_outcomes('variables')},
    'op.constraints': {'setup': accessor_setup, 'scenarios': {'any': {}},
                       'on_outcomes': accessor_outcomes('constraints')},
    'op.inequalities': {'setup': accessor_setup, 'scenarios': {'any': {}},
                        'on_outcomes': accessor_outcomes('inequalities')},
    'op.equalities': {'setup': accessor_setup, 'scenarios': {'any': {}},
                      'on_outcomes': accessor_outcomes('equalities')},
}
